"""C06 - catchment delineation is exactly upstream reachability on the flow grid."""
import itertools
import math

import numpy as np

from harness import common as cm

PID = "C06"
HEADER = ("From Coq Require Import ZArith List PrimFloat.\n"
          "From Hy Require Import Base.Num Model.Grid Model.Catchment.")

# ESRI convention (independent of the repository's table): code -> (drow, dcol)
ESRI = {32: (-1, -1), 64: (-1, 0), 128: (-1, 1), 16: (0, -1), 1: (0, 1), 8: (1, -1), 4: (1, 0), 2: (1, 1)}
CODES = [32, 64, 128, 16, 1, 8, 4, 2]
VALUES = CODES + [0, 3]   # eight codes, sink, one invalid code


def o_down(fd, nrows, ncols, c):
    v = fd[c]
    if v == 0:
        return -2
    if v not in ESRI:
        return -1
    r, k = divmod(c, ncols)
    dr, dc = ESRI[v]
    r, k = r + dr, k + dc
    if 0 <= r < nrows and 0 <= k < ncols:
        return r * ncols + k
    return -1


def o_area(fd, nrows, ncols, outlet, inlets):
    """Brute-force: cells whose downstream chain reaches the outlet without
    passing through an inlet.  Returns (set, outlet_on_cycle)."""
    n = nrows * ncols
    inl = set(inlets)
    res = set()
    for x in range(n):
        if x == outlet:
            continue
        c, seen = x, set()
        while c >= 0 and c not in seen and c not in inl:
            seen.add(c)
            c = o_down(fd, nrows, ncols, c)
            if c == outlet:
                res.add(x)
                break
    # does the outlet reach itself through non-inlet cells?
    c, seen, cyc = outlet, set(), False
    while True:
        if c in inl and c != outlet:
            break
        if c in inl and c == outlet:
            break
        seen.add(c)
        c = o_down(fd, nrows, ncols, c)
        if c == outlet:
            cyc = True
            break
        if c < 0 or c in seen:
            break
    if outlet in inl:
        # an outlet that is also an inlet: nothing upstream can be stored through it? the
        # kernel only tests inlets on upstream cells, so the outlet itself is unaffected
        pass
    return res, cyc


def make_catchment(nrows, ncols, fd):
    from hydrodiy.gis.grid import Grid, Catchment
    g = Grid("fd", ncols, nrows, dtype=np.int64)
    g.data = np.array(fd, dtype=np.int64).reshape(nrows, ncols)
    return Catchment("c", g), g


def rand_acyclic(rng, nrows, ncols):
    """Random forest: every cell points to a neighbour with a smaller random height, or is a sink/exit."""
    n = nrows * ncols
    h = [rng.random() for _ in range(n)]
    fd = []
    for c in range(n):
        r, k = divmod(c, ncols)
        opts = []
        for code, (dr, dc) in ESRI.items():
            rr, kk = r + dr, k + dc
            if 0 <= rr < nrows and 0 <= kk < ncols:
                if h[rr * ncols + kk] < h[c]:
                    opts.append(code)
            elif rng.random() < 0.15:
                opts.append(code)
        if not opts or rng.random() < 0.04:
            fd.append(rng.choice([0, 0, 3]))
        else:
            fd.append(rng.choice(opts))
    return fd


def run(ctx):
    ctx.rule = ("exhaustive: every grid with <= 3 cells over 10 cell values x every outlet x every inlet subset; "
                "sampled 2x2/1x4/4x1; random acyclic forests and arbitrary (cyclic) grids up to 8x8 (thorough 20x20), "
                "1- and 2-column/row shapes emphasised, buffer sizes from 1 to ample; non-trivial = distinct "
                "(kind, shape class, outcome class) signature")
    ctx.trusted = cm.STD_TRUST
    ctx.tested_not_proved = ["hole filling (scipy.ndimage.binary_fill_holes): containment tested only",
                             "binary64 path lengths equal the real-number value to 1e-9 (tested)"]
    proved = cm.prove_with_kernels(ctx, ["c_upstream", "c_downstream", "c_neighbours", "c_delineate_river",
                                         "c_delineate_flowpathlengths_in_catchment", "c_delineate_area"])
    cm.use_impl()
    from hydrodiy.gis import grid as hygrid
    rng = ctx.rng
    terms, replays = [], []
    orc_fail = set()

    def add(term, replay, sig):
        terms.append(term)
        replays.append(replay)
        ctx.count(sig)
        if len(terms) % 4000 == 1:
            ctx.sample(replay)
        return len(terms) - 1

    def fail(idx, key, what):
        orc_fail.add(idx)
        ctx.failure(key, replays[idx], what)

    def shape_cls(nrows, ncols):
        return (min(nrows, 3), min(ncols, 3))

    def do_grid(nrows, ncols, fd, outlets, inlet_sets, nvals, full=True):
        n = nrows * ncols
        cat, g = make_catchment(nrows, ncols, fd)
        head = f"{cm.coq_z(nrows)} {cm.coq_z(ncols)} {cm.coq_zlist(fd)}"
        base = {"nrows": nrows, "ncols": ncols, "flowdir": fd}
        if full:
            ids = list(range(n))
            downs = [int(x) for x in cat.downstream(np.array(ids))]
            ups = [[int(v) for v in row] for row in cat.upstream(np.array(ids))]
            for c in ids:
                i = add(f"CDown {head} {cm.coq_z(c)} (Some {cm.coq_z(downs[c])})",
                        dict(base, call="downstream", cell=c, impl=downs[c]),
                        ("down", shape_cls(nrows, ncols), min(downs[c], 0)))
                want = o_down(fd, nrows, ncols, c)
                if downs[c] != want:
                    fail(i, "C06/downstream/wrong", f"downstream({c}) = {downs[c]}, expected {want}")
                i = add(f"CUp {head} {cm.coq_z(c)} (Some {cm.coq_zlist(ups[c])})",
                        dict(base, call="upstream", cell=c, impl=ups[c]),
                        ("up", shape_cls(nrows, ncols), sum(1 for v in ups[c] if v >= 0)))
                wantup = sorted(x for x in range(n) if o_down(fd, nrows, ncols, x) == c)
                gotup = [v for v in ups[c] if v >= 0]
                if sorted(gotup) != wantup or len(set(gotup)) != len(gotup) or \
                        ups[c][len(gotup):] != [-1] * (9 - len(gotup)):
                    fail(i, "C06/upstream/not-inverse-of-downstream",
                         f"upstream({c}) = {ups[c]}, cells draining to it: {wantup}")
            for bad in (-1, n):
                for nm, fn in (("downstream", cat.downstream), ("upstream", cat.upstream)):
                    try:
                        fn(np.array([bad]))
                        ok = False
                    except ValueError:
                        ok = True
                    kind = "CDown" if nm == "downstream" else "CUp"
                    i = add(f"{kind} {head} {cm.coq_z(bad)} " + ("None" if ok else "(Some 0%Z)" if kind == "CDown" else "(Some [])"),
                            dict(base, call=nm, cell=bad, raised=ok), (nm + "-invalid",))
                    if not ok:
                        fail(i, "C06/invalid-cell-accepted", f"{nm}({bad}) did not raise")
        for outlet in outlets:
            for inlets in inlet_sets:
                for nval in nvals:
                    cm.mark(dict(base, call="delineate_area", outlet=outlet, inlets=inlets, nval=nval))
                    try:
                        cat.delineate_area(outlet, list(inlets) if inlets is not None else None, nval=nval)
                        area = [int(x) for x in cat.idxcells_area]
                        filled = [int(x) for x in cat.idxcells_area_filled]
                    except ValueError:
                        area = filled = None
                    inl = list(inlets) if inlets is not None else []
                    want, cyc = o_area(fd, nrows, ncols, outlet, inl)
                    i = add(f"CArea {head} {cm.coq_z(outlet)} {cm.coq_zlist(inl)} {cm.coq_z(nval)} "
                            f"{cm.coq_option(area, cm.coq_zlist)}",
                            dict(base, call="delineate_area", outlet=outlet, inlets=inl, nval=nval, impl=area),
                            ("area", shape_cls(nrows, ncols), area is None, len(inl) > 0, cyc,
                             min(len(area or []), 3)))
                    if area is None:
                        # an error is legitimate only when the buffer is too small or the outlet lies on a cycle
                        need = (len(want) + 1) if want else 0
                        if not cyc and nval > need + 1 and 0 <= outlet < n and all(0 <= x < n for x in inl):
                            fail(i, "C06/area/spurious-error",
                                 f"delineate_area(outlet={outlet}, inlets={inl}, nval={nval}) raised; "
                                 f"expected {sorted(want)}")
                        continue
                    if cyc:
                        continue  # grids with a cycle through the outlet: only termination is required
                    exp = (want | {outlet}) if want else set()
                    if set(area) != exp or len(area) != len(set(area)):
                        fail(i, "C06/area/not-upstream-reachability",
                             f"delineate_area(outlet={outlet}, inlets={inl}) = {area}, expected {sorted(exp)}")
                    if not set(filled) >= set(area):
                        fail(i, "C06/area/filled-not-superset", f"filled area {filled} does not contain {area}")
                    if area and nval >= 2:
                        cat.compute_flowpathlengths()
                        fp = cat.flowpathlengths.values
                        rows = [(int(a), int(b), float(c)) for a, b, c in fp]
                        i = add(f"CPaths {head} {cm.coq_z(outlet)} {cm.coq_zlist(area)} [" +
                                "; ".join(f"({cm.coq_z(a)}, {cm.coq_z(b)}, {cm.coq_float(c)})" for a, b, c in rows) + "]",
                                dict(base, call="compute_flowpathlengths", outlet=outlet, area=area, impl=rows),
                                ("paths", shape_cls(nrows, ncols), len(area) > 2))
                        for (a, b, length), x in zip(rows, area):
                            wantlen, c, steps = 0.0, x, 0
                            while c != outlet and steps <= n:
                                d = o_down(fd, nrows, ncols, c)
                                dr, dc = divmod(d, ncols)[0] - divmod(c, ncols)[0], d % ncols - c % ncols
                                wantlen += math.sqrt(2) if dr != 0 and dc != 0 else 1.0
                                c = d
                                steps += 1
                            if a != x or abs(length - wantlen) > 1e-9 * max(1, wantlen):
                                fail(i, "C06/flowpath/length" + ("-outlet" if x == outlet else ""),
                                     f"flow path length of cell {x} to outlet {outlet} = {length}, expected {wantlen} "
                                     f"({nrows}x{ncols})")
                                break

    # ---- exhaustive tiny grids
    shapes = [(1, 1), (1, 2), (2, 1), (1, 3), (3, 1)]
    for (nrows, ncols) in shapes:
        n = nrows * ncols
        for fd in itertools.product(VALUES, repeat=n):
            subsets = [s for r in range(n + 1) for s in itertools.combinations(range(n), r)]
            do_grid(nrows, ncols, list(fd), range(n), subsets, [n + 2], full=True)
    for (nrows, ncols) in [(2, 2), (1, 4), (4, 1)]:
        for _ in range(ctx.scale(150, 1500)):
            fd = [rng.choice(VALUES) for _ in range(4)]
            subsets = [(), tuple(rng.sample(range(4), rng.randint(1, 2)))]
            do_grid(nrows, ncols, fd, range(4), subsets, [rng.choice([1, 2, 3, 4, 6])], full=True)
    # ---- random grids
    S = ctx.scale(8, 20)
    for it in range(ctx.scale(120, 1200)):
        nrows = rng.choice([1, 2, 2, 3, rng.randint(1, S)])
        ncols = rng.choice([1, 2, 2, 3, rng.randint(1, S)])
        n = nrows * ncols
        if rng.random() < 0.7:
            fd = rand_acyclic(rng, nrows, ncols)
        else:
            fd = [rng.choice(VALUES if rng.random() < 0.3 else CODES) for _ in range(n)]
        # outlets: prefer cells with many upstream cells
        outlets = rng.sample(range(n), min(n, 3))
        acc = sorted(range(n), key=lambda c: -len(o_area(fd, nrows, ncols, c, [])[0]))
        outlets = list(dict.fromkeys(acc[:2] + outlets))[:4]
        inlet_sets = [None, tuple(rng.sample(range(n), min(n, rng.randint(1, 3))))]
        nvals = [n + 2, rng.choice([1, 2, 3, max(2, n // 2), n, n + 1])]
        do_grid(nrows, ncols, fd, outlets, inlet_sets, nvals, full=(it % 3 == 0))
        # rivers
        for _ in range(2):
            start = rng.randrange(n)
            nval = rng.choice([1, 2, 3, n, n + 5])
            xll, yll, csz = rng.choice([(0., 0., 1.), (10.5, -3.25, 0.25), (rng.uniform(-50, 50), rng.uniform(-50, 50), 10 ** rng.uniform(-2, 2))])
            _, g = make_catchment(nrows, ncols, fd)
            g2 = hygrid.Grid("fd", ncols, nrows, cellsize=csz, xllcorner=xll, yllcorner=yll, dtype=np.int64)
            g2.data = np.array(fd, dtype=np.int64).reshape(nrows, ncols)
            df = hygrid.delineate_river(g2, start, nval=nval)
            rows = [(int(r.idxcell), float(r.dist), float(r.dx), float(r.dy), float(r.x), float(r.y))
                    for r in df.itertuples()]
            t = "[" + "; ".join("(" + ", ".join([cm.coq_z(r[0])] + [cm.coq_float(v) for v in r[1:]]) + ")"
                                for r in rows) + "]"
            i = add(f"CRiver {cm.coq_z(nrows)} {cm.coq_z(ncols)} {cm.coq_float(xll)} {cm.coq_float(yll)} "
                    f"{cm.coq_float(csz)} {cm.coq_zlist(fd)} {cm.coq_z(start)} {cm.coq_z(nval)} (Some {t})",
                    {"call": "delineate_river", "nrows": nrows, "ncols": ncols, "flowdir": fd, "start": start,
                     "nval": nval, "impl": rows[:6]}, ("river", shape_cls(nrows, ncols), min(len(rows), 3)))
            # oracle: cells follow the downstream chain, distances advance by 1 / sqrt(2)
            c, dist = start, 0.0
            okr = True
            for j, r in enumerate(rows):
                if r[0] != c or abs(r[1] - dist) > 1e-9 * max(1, dist):
                    okr = False
                    break
                d = o_down(fd, nrows, ncols, c)
                if d < 0:
                    okr = okr and j == len(rows) - 1
                    break
                dr, dc = d // ncols - c // ncols, d % ncols - c % ncols
                dist += math.sqrt(2) if dr != 0 and dc != 0 else 1.0
                c = d
            if not okr or len(rows) > nval or len(rows) < 1:
                fail(i, "C06/river/not-downstream-chain", f"river from {start}: {rows[:5]}")

    bad, nshards, failed = cm.run_case_files(PID, HEADER, "ccase", "c_ok", terms, shard=3000, max_bytes=400000)
    ctx.notes["correspondence_cases"] = len(terms)
    ctx.notes["correspondence_mismatches"] = len(bad)
    for k in range(nshards):
        ctx.obligation(f"Cases_{PID}_{k}.agree (model = implementation on the shard)", True)
    cm.settle(ctx, proved, bad, failed, orc_fail, lambda i: replays[i],
              "Model/Grid.v + Model/Catchment.v vs c_grid.c/c_catchment.c + grid.py")
    return ctx.finish()
