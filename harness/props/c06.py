"""C06 - catchment delineation is exactly upstream reachability on the flow grid."""
import itertools
import math

import numpy as np

from harness import common as cm

PID = "C06"
HEADER = ("From Coq Require Import ZArith List PrimFloat.\n"
          "From Hy Require Import Base.Num Model.Grid Model.Catchment.")

# ESRI convention (independent of the repository's table): code -> (drow, dcol)
ESRI = {32: (-1, -1), 64: (-1, 0), 128: (-1, 1), 16: (0, -1), 1: (0, 1), 8: (1, -1), 4: (1, 0), 2: (1, 1)}
CODES = [32, 64, 128, 16, 1, 8, 4, 2]
VALUES = CODES + [0, 3]   # eight codes, sink, one invalid code


def o_down(fd, nrows, ncols, c):
    v = fd[c]
    if v == 0:
        return -2
    if v not in ESRI:
        return -1
    r, k = divmod(c, ncols)
    dr, dc = ESRI[v]
    r, k = r + dr, k + dc
    if 0 <= r < nrows and 0 <= k < ncols:
        return r * ncols + k
    return -1


def o_area(fd, nrows, ncols, outlet, inlets):
    """Brute-force: cells whose downstream chain reaches the outlet without
    passing through an inlet.  Returns (set, outlet_on_cycle)."""
    n = nrows * ncols
    inl = set(inlets)
    res = set()
    for x in range(n):
        if x == outlet:
            continue
        c, seen = x, set()
        while c >= 0 and c not in seen and c not in inl:
            seen.add(c)
            c = o_down(fd, nrows, ncols, c)
            if c == outlet:
                res.add(x)
                break
    # does the outlet reach itself through non-inlet cells?
    c, seen, cyc = outlet, set(), False
    while True:
        if c in inl and c != outlet:
            break
        if c in inl and c == outlet:
            break
        seen.add(c)
        c = o_down(fd, nrows, ncols, c)
        if c == outlet:
            cyc = True
            break
        if c < 0 or c in seen:
            break
    if outlet in inl:
        # an outlet that is also an inlet: nothing upstream can be stored through it? the
        # kernel only tests inlets on upstream cells, so the outlet itself is unaffected
        pass
    return res, cyc


def o_pathlen(fd, nrows, ncols, x, outlet):
    """Length of the downstream chain from x to the outlet (None when x does not drain to it)."""
    n = nrows * ncols
    want, c, steps = 0.0, x, 0
    while c != outlet and steps <= n:
        d = o_down(fd, nrows, ncols, c)
        if d < 0:
            return None
        dr, dc = d // ncols - c // ncols, d % ncols - c % ncols
        want += math.sqrt(2) if dr != 0 and dc != 0 else 1.0
        c = d
        steps += 1
    return want if c == outlet else None


def o_up_ok(row, fd, nrows, ncols, c):
    """row = the 9 slots reported by upstream(c): the cells draining to c, each once, packed, then -1."""
    wantup = sorted(x for x in range(nrows * ncols) if o_down(fd, nrows, ncols, x) == c)
    gotup = [v for v in row if v >= 0]
    return (sorted(gotup) == wantup and len(set(gotup)) == len(gotup)
            and list(row[len(gotup):]) == [-1] * (9 - len(gotup))), wantup


def o_river_ok(fd, nrows, ncols, start, nval, rows):
    """rows = (cell, dist, ...): cells follow the downstream chain, distances advance by 1 / sqrt(2)."""
    c, dist = start, 0.0
    okr = True
    for j, r in enumerate(rows):
        if r[0] != c or abs(r[1] - dist) > 1e-9 * max(1, dist):
            okr = False
            break
        d = o_down(fd, nrows, ncols, c)
        if d < 0:
            okr = okr and j == len(rows) - 1
            break
        dr, dc = d // ncols - c // ncols, d % ncols - c % ncols
        dist += math.sqrt(2) if dr != 0 and dc != 0 else 1.0
        c = d
    return okr and 1 <= len(rows) <= nval


def make_catchment(nrows, ncols, fd):
    from hydrodiy.gis.grid import Grid, Catchment
    g = Grid("fd", ncols, nrows, dtype=np.int64)
    g.data = np.array(fd, dtype=np.int64).reshape(nrows, ncols)
    return Catchment("c", g), g


def rand_acyclic(rng, nrows, ncols):
    """Random forest: every cell points to a neighbour with a smaller random height, or is a sink/exit."""
    n = nrows * ncols
    h = [rng.random() for _ in range(n)]
    fd = []
    for c in range(n):
        r, k = divmod(c, ncols)
        opts = []
        for code, (dr, dc) in ESRI.items():
            rr, kk = r + dr, k + dc
            if 0 <= rr < nrows and 0 <= kk < ncols:
                if h[rr * ncols + kk] < h[c]:
                    opts.append(code)
            elif rng.random() < 0.15:
                opts.append(code)
        if not opts or rng.random() < 0.04:
            fd.append(rng.choice([0, 0, 3]))
        else:
            fd.append(rng.choice(opts))
    return fd


def rand_grid(rng, nrows, ncols, p_acyclic=0.7):
    if rng.random() < p_acyclic:
        return rand_acyclic(rng, nrows, ncols)
    return [rng.choice(VALUES if rng.random() < 0.3 else CODES) for _ in range(nrows * ncols)]


def good_outlets(rng, fd, nrows, ncols, k=4):
    """A few outlets, the cells with the largest upstream sets first."""
    n = nrows * ncols
    acc = sorted(range(n), key=lambda c: -len(o_area(fd, nrows, ncols, c, [])[0]))
    return list(dict.fromkeys(acc[:2] + rng.sample(range(n), min(n, 3))))[:k]


def gen_session(rng, S):
    """Several Catchment objects, on one or several flow-direction grids, alive at the same time and taken
    through an interleaved sequence of the property's operations.  Slots name the objects:
      new s g | area s outlet inlets nval (nval None = the default buffer size) | paths s |
      down s cells | up s cells | river g start nval | clone d a | touch s what
    Buffer sizes come from a small pool shared by the whole session and the grids often have the same
    shape, so that successive calls - on the same or on another object / grid - repeat the same sizes,
    outlets and inlets (whatever is kept between calls by the module, the class or the extension is hit
    again with equal keys and different contents)."""
    ng = rng.choice([1, 2, 2, 3])
    dim = lambda: rng.choice([1, 2, 2, 3, rng.randint(1, S)])
    shape0 = (dim(), dim())
    same = rng.random() < 0.6
    grids = []
    for k in range(ng):
        nrows, ncols = shape0 if (same or k == 0) else (dim(), dim())
        grids.append([nrows, ncols, rand_grid(rng, nrows, ncols, 0.8)])
    ncell = [g[0] * g[1] for g in grids]
    N = max(ncell)
    pool = [N + 2, N + 2, rng.choice([N + 2, N + 5, 2 * N + 3, None])]
    outs = [good_outlets(rng, g[2], g[0], g[1]) for g in grids]
    nslots = rng.randint(2, 5)
    sgrid = {}
    ops = []
    for s in range(nslots):
        sgrid[s] = rng.randrange(ng)
        ops.append(["new", s, sgrid[s]])
    for _ in range(rng.randint(6, 14)):
        r = rng.random()
        s = rng.randrange(nslots)
        gi = sgrid[s]
        n = ncell[gi]
        if r < 0.55:
            inlets = None if rng.random() < 0.6 else sorted(rng.sample(range(n), min(n, rng.randint(1, 3))))
            nval = rng.choice(pool) if rng.random() < 0.9 else rng.choice([1, 2, 3])
            ops.append(["area", s, rng.choice(outs[gi]), inlets, nval])
        elif r < 0.67:
            ops.append(["paths", s])
        elif r < 0.77:
            ops.append([rng.choice(["down", "up"]), s, [rng.randrange(n) for _ in range(rng.randint(1, 4))]])
        elif r < 0.84:
            gi = rng.randrange(ng)
            ops.append(["river", gi, rng.randrange(ncell[gi]), rng.choice([1, 2, 3, ncell[gi], ncell[gi] + 5])])
        elif r < 0.89:
            sgrid[s] = rng.randrange(ng)
            ops.append(["new", s, sgrid[s]])
        elif r < 0.94:
            a = rng.randrange(nslots)
            sgrid[s] = sgrid[a]
            ops.append(["clone", s, a])
        else:
            ops.append(["touch", s, rng.choice(["isin", "to_dict", "str", "roundtrip"])])
    return {"grids": grids, "ops": ops}


def run(ctx):
    ctx.rule = ("exhaustive: every grid with <= 3 cells over 10 cell values x every outlet x every inlet subset; "
                "sampled 2x2/1x4/4x1; random acyclic forests and arbitrary (cyclic) grids up to 8x8 (thorough 20x20), "
                "1- and 2-column/row shapes emphasised, buffer sizes from 1 to ample (and the default one); on every "
                "grid several Catchment objects are alive at once (one reused for all calls, fresh ones per outlet) and "
                "every object is read again after the later delineations; sessions: objects on 1-3 grids (often the "
                "same shape, shared buffer sizes) through interleaved delineate_area / compute_flowpathlengths / "
                "upstream / downstream / delineate_river / clone / readers, every live object and every result "
                "handed out re-checked after each step; non-trivial = distinct (kind, shape class, outcome class) "
                "signature")
    ctx.trusted = cm.STD_TRUST
    ctx.tested_not_proved = ["hole filling (scipy.ndimage.binary_fill_holes): containment tested only",
                             "binary64 path lengths equal the real-number value to 1e-9 (tested)",
                             "independence of the results from the other objects / earlier and later calls of the "
                             "process (sessions): tested only - the Coq model is a function of one call's arguments"]
    proved = cm.prove_with_kernels(ctx, ["c_upstream", "c_downstream", "c_neighbours", "c_delineate_river",
                                         "c_delineate_flowpathlengths_in_catchment", "c_delineate_area"])
    cm.use_impl()
    from hydrodiy.gis import grid as hygrid
    rng = ctx.rng
    terms, replays = [], []
    orc_fail = set()
    stats = {"objects_read_again": 0, "results_read_again": 0, "sessions": 0, "session_steps": 0}

    def add(term, replay, sig):
        terms.append(term)
        replays.append(replay)
        ctx.count(sig)
        if len(terms) % 4000 == 1:
            ctx.sample(replay)
        return len(terms) - 1

    def fail(idx, key, what):
        orc_fail.add(idx)
        ctx.failure(key, replays[idx], what)

    def report(key, replay, what, term=None, sig=None):
        """Oracle failure of an observation that has no case term yet (term given: it is added, so that the
        correspondence mismatch it may cause is tied to this report)."""
        if term is not None:
            fail(add(term, replay, sig), key, what)
        else:
            orc_fail.add(-1)
            ctx.failure(key, replay, what)

    def shape_cls(nrows, ncols):
        return (min(nrows, 3), min(ncols, 3))

    def grid_info(nrows, ncols, fd):
        return {"nrows": nrows, "ncols": ncols, "fd": fd, "n": nrows * ncols,
                "head": f"{cm.coq_z(nrows)} {cm.coq_z(ncols)} {cm.coq_zlist(fd)}",
                "base": {"nrows": nrows, "ncols": ncols, "flowdir": fd},
                "cls": shape_cls(nrows, ncols)}

    def read_area(cat):
        try:
            return [int(x) for x in cat.idxcells_area], [int(x) for x in cat.idxcells_area_filled]
        except ValueError:
            return None, None

    def area_term(G, rec, area):
        return (f"CArea {G['head']} {cm.coq_z(rec['outlet'])} {cm.coq_zlist(rec['inl'])} {cm.coq_z(rec['nval'])} "
                f"{cm.coq_option(area, cm.coq_zlist)}")

    def area_call(cat, G, outlet, inlets, nval, extra=None, emit=True, mark=True):
        """One delineate_area call on `cat`, judged at once.  nval None = the default buffer size (no case
        term: the model's fuel is the buffer size).  Returns the record of what the object has to hold from
        now on (rec['exp'] is None when nothing is required: error, or outlet on a cycle)."""
        fd, nrows, ncols, n = G["fd"], G["nrows"], G["ncols"], G["n"]
        extra = extra or {}
        if mark:
            cm.mark(dict(G["base"], call="delineate_area", outlet=outlet, inlets=inlets, nval=nval, **extra))
        try:
            if nval is None:
                cat.delineate_area(outlet, list(inlets) if inlets is not None else None)
            else:
                cat.delineate_area(outlet, list(inlets) if inlets is not None else None, nval=nval)
            area, filled = read_area(cat)
        except ValueError:
            area = filled = None
        inl = list(inlets) if inlets is not None else []
        want, cyc = o_area(fd, nrows, ncols, outlet, inl)
        rec = {"G": G, "outlet": outlet, "inl": inl, "inlets_arg": None if inlets is None else inl, "nval": nval,
               "want": want, "cyc": cyc, "area": area, "exp": None, "idx": None}
        replay = dict(G["base"], call="delineate_area", outlet=outlet, inlets=inl, nval=nval, impl=area, **extra)
        sig = ("area", G["cls"], area is None, len(inl) > 0, cyc, min(len(area or []), 3), nval is None,
               bool(extra))
        problems = []
        if area is None:
            # an error is legitimate only when the buffer is too small or the outlet lies on a cycle
            need = (len(want) + 1) if want else 0
            big = nval is None or nval > need + 1
            if not cyc and big and 0 <= outlet < n and all(0 <= x < n for x in inl):
                problems.append(("C06/area/spurious-error",
                                 f"delineate_area(outlet={outlet}, inlets={inl}, nval={nval}) raised; "
                                 f"expected {sorted(want)}"))
        elif not cyc:   # grids with a cycle through the outlet: only termination is required
            exp = (want | {outlet}) if want else set()
            rec["exp"] = exp
            if set(area) != exp or len(area) != len(set(area)):
                problems.append(("C06/area/not-upstream-reachability",
                                 f"delineate_area(outlet={outlet}, inlets={inl}) = {area}, expected {sorted(exp)}"))
            if not set(filled) >= set(area):
                problems.append(("C06/area/filled-not-superset", f"filled area {filled} does not contain {area}"))
        if nval is not None and (emit or problems):
            rec["idx"] = add(area_term(G, rec, area), replay, sig)
            for key, what in problems:
                fail(rec["idx"], key, what)
        else:
            ctx.count(sig)
            for key, what in problems:
                report(key, replay, what)
        if problems:
            rec["exp"] = None      # reported once; later reads of this object are not judged again
        return rec

    def audit_area(cat, rec, extra, emit):
        """The object is read again after other operations of the process: it still has to hold exactly the
        upstream set of ITS outlet / inlets (rec), each cell once, inside its filled area."""
        if rec is None or rec["exp"] is None:
            return True
        G, exp = rec["G"], rec["exp"]
        area, filled = read_area(cat)
        stats["objects_read_again"] += 1
        replay = dict(G["base"], call="delineate_area", outlet=rec["outlet"], inlets=rec["inl"], nval=rec["nval"],
                      impl_at_call=rec["area"], impl=area, impl_filled=filled, **extra)
        sig = ("area-read-again", G["cls"], len(rec["inl"]) > 0, min(len(exp), 3), rec["nval"] is None,
               extra.get("how"))
        what = (f"delineate_area(outlet={rec['outlet']}, inlets={rec['inl']}) gave {rec['area']}; the same object "
                f"read again after later operations ({extra.get('how')}) holds ")
        problems = []
        if area is None:
            problems.append(("C06/area/read-again/not-upstream-reachability", what + "no area any more"))
        else:
            if set(area) != exp or len(area) != len(set(area)):
                problems.append(("C06/area/read-again/not-upstream-reachability",
                                 what + f"{area}, expected {sorted(exp)}"))
            if not set(filled) >= set(area):
                problems.append(("C06/area/read-again/filled-not-superset",
                                 what + f"{area}, not contained in its filled area {filled}"))
        term = area_term(G, rec, area) if rec["nval"] is not None else None
        if term is not None and (emit or problems):
            i = add(term, replay, sig)
            for key, w in problems:
                fail(i, key, w)
        else:
            ctx.count(sig)
            for key, w in problems:
                report(key, replay, w)
        if problems:
            rec["exp"] = None
        return not problems

    def paths_call(cat, rec, extra=None):
        """compute_flowpathlengths on an object whose area (rec) was found right.  Returns the record of
        what cat.flowpathlengths has to hold."""
        G, outlet = rec["G"], rec["outlet"]
        area = read_area(cat)[0]       # the same cells as rec["area"] (checked by the caller), as held now
        extra = extra or {}
        if extra:
            cm.mark(dict(G["base"], call="compute_flowpathlengths", outlet=outlet, area=area, **extra))
        cat.compute_flowpathlengths()
        rows = [(int(a), int(b), float(c)) for a, b, c in cat.flowpathlengths.values]
        i = add(f"CPaths {G['head']} {cm.coq_z(outlet)} {cm.coq_zlist(area)} [" +
                "; ".join(f"({cm.coq_z(a)}, {cm.coq_z(b)}, {cm.coq_float(c)})" for a, b, c in rows) + "]",
                dict(G["base"], call="compute_flowpathlengths", outlet=outlet, area=area, impl=rows, **extra),
                ("paths", G["cls"], len(area) > 2, bool(extra)))
        prec = {"rec": rec, "area": area, "rows": rows, "ok": True}
        bad = paths_problem(rec, area, rows)
        if bad is not None:
            prec["ok"] = False
            fail(i, "C06/flowpath/length" + ("-outlet" if bad[0] == outlet else ""), bad[1])
        return prec

    def paths_problem(rec, area, rows):
        """rows of flowpathlengths against the downstream chains: one row per area cell, in the order of
        the area, with the length of its downstream chain to the outlet."""
        G, outlet = rec["G"], rec["outlet"]
        if len(rows) != len(area):
            return (None, f"{len(rows)} flow path rows for an area of {len(area)} cells (outlet {outlet})")
        for (a, b, length), x in zip(rows, area):
            wantlen = o_pathlen(G["fd"], G["nrows"], G["ncols"], x, outlet)
            if a != x or wantlen is None or abs(length - wantlen) > 1e-9 * max(1, wantlen):
                return (x, f"flow path length of cell {x} to outlet {outlet} = {length} (start cell reported: {a}), "
                           f"expected {wantlen} ({G['nrows']}x{G['ncols']})")
        return None

    def audit_paths(cat, prec, extra):
        """cat.flowpathlengths read again later (the object was not re-delineated meanwhile)."""
        if prec is None or not prec["ok"]:
            return
        rec = prec["rec"]
        G = rec["G"]
        stats["results_read_again"] += 1
        fp = cat.flowpathlengths
        rows = None if fp is None else [(int(a), int(b), float(c)) for a, b, c in fp.values]
        ctx.count(("paths-read-again", G["cls"], len(rec["area"]) > 2))
        bad = (None, "no flow path lengths any more") if rows is None else paths_problem(rec, prec["area"], rows)
        if bad is not None:
            prec["ok"] = False
            term = None
            if rows is not None:
                term = (f"CPaths {G['head']} {cm.coq_z(rec['outlet'])} {cm.coq_zlist(prec['area'])} [" +
                        "; ".join(f"({cm.coq_z(a)}, {cm.coq_z(b)}, {cm.coq_float(c)})" for a, b, c in rows) + "]")
            report("C06/flowpath/read-again",
                   dict(G["base"], call="compute_flowpathlengths", outlet=rec["outlet"], area=prec["area"],
                        impl_at_call=prec["rows"], impl=rows, **extra),
                   f"flow path lengths of the catchment of outlet {rec['outlet']} read again after later "
                   f"operations ({extra.get('how')}): " + bad[1], term, ("paths-read-again-bad",))

    def river_call(nrows, ncols, fd, geo, start, nval, extra=None):
        xll, yll, csz = geo
        extra = extra or {}
        g2 = hygrid.Grid("fd", ncols, nrows, cellsize=csz, xllcorner=xll, yllcorner=yll, dtype=np.int64)
        g2.data = np.array(fd, dtype=np.int64).reshape(nrows, ncols)
        cm.mark(dict(call="delineate_river", nrows=nrows, ncols=ncols, flowdir=fd, start=start, nval=nval, **extra))
        df = hygrid.delineate_river(g2, start, nval=nval)
        rows = river_rows(df)
        i = add(river_term(nrows, ncols, fd, geo, start, nval, rows),
                dict({"call": "delineate_river", "nrows": nrows, "ncols": ncols, "flowdir": fd, "start": start,
                      "nval": nval, "xll": xll, "yll": yll, "cellsize": csz, "impl": rows[:6]}, **extra),
                ("river", shape_cls(nrows, ncols), min(len(rows), 3), bool(extra)))
        ok = o_river_ok(fd, nrows, ncols, start, nval, rows)
        if not ok:
            fail(i, "C06/river/not-downstream-chain", f"river from {start}: {rows[:5]}")
        return df, rows, ok

    def river_rows(df):
        return [(int(r.idxcell), float(r.dist), float(r.dx), float(r.dy), float(r.x), float(r.y))
                for r in df.itertuples()]

    def river_term(nrows, ncols, fd, geo, start, nval, rows):
        t = "[" + "; ".join("(" + ", ".join([cm.coq_z(r[0])] + [cm.coq_float(v) for v in r[1:]]) + ")"
                            for r in rows) + "]"
        return (f"CRiver {cm.coq_z(nrows)} {cm.coq_z(ncols)} {cm.coq_float(geo[0])} {cm.coq_float(geo[1])} "
                f"{cm.coq_float(geo[2])} {cm.coq_zlist(fd)} {cm.coq_z(start)} {cm.coq_z(nval)} (Some {t})")

    def do_grid(nrows, ncols, fd, outlets, inlet_sets, nvals, full=True):
        n = nrows * ncols
        cat, g = make_catchment(nrows, ncols, fd)
        G = grid_info(nrows, ncols, fd)
        head, base = G["head"], G["base"]
        if full:
            ids = list(range(n))
            downs = [int(x) for x in cat.downstream(np.array(ids))]
            ups = [[int(v) for v in row] for row in cat.upstream(np.array(ids))]
            for c in ids:
                i = add(f"CDown {head} {cm.coq_z(c)} (Some {cm.coq_z(downs[c])})",
                        dict(base, call="downstream", cell=c, impl=downs[c]),
                        ("down", shape_cls(nrows, ncols), min(downs[c], 0)))
                want = o_down(fd, nrows, ncols, c)
                if downs[c] != want:
                    fail(i, "C06/downstream/wrong", f"downstream({c}) = {downs[c]}, expected {want}")
                i = add(f"CUp {head} {cm.coq_z(c)} (Some {cm.coq_zlist(ups[c])})",
                        dict(base, call="upstream", cell=c, impl=ups[c]),
                        ("up", shape_cls(nrows, ncols), sum(1 for v in ups[c] if v >= 0)))
                okup, wantup = o_up_ok(ups[c], fd, nrows, ncols, c)
                if not okup:
                    fail(i, "C06/upstream/not-inverse-of-downstream",
                         f"upstream({c}) = {ups[c]}, cells draining to it: {wantup}")
            for bad in (-1, n):
                for nm, fn in (("downstream", cat.downstream), ("upstream", cat.upstream)):
                    try:
                        fn(np.array([bad]))
                        ok = False
                    except ValueError:
                        ok = True
                    kind = "CDown" if nm == "downstream" else "CUp"
                    i = add(f"{kind} {head} {cm.coq_z(bad)} " + ("None" if ok else "(Some 0%Z)" if kind == "CDown" else "(Some [])"),
                            dict(base, call=nm, cell=bad, raised=ok), (nm + "-invalid",))
                    if not ok:
                        fail(i, "C06/invalid-cell-accepted", f"{nm}({bad}) did not raise")
        # One object (cat) is taken through all the calls; beside it one FRESH object per outlet is delineated
        # with one of the (inlets, nval) combinations and kept.  Once every call on this grid has been made,
        # every object still has to hold the upstream set of its own outlet.
        combos = [(inlets, nval) for inlets in inlet_sets for nval in nvals]
        calls, kept = [], []
        rec = None
        for outlet in outlets:
            pick = rng.randrange(len(combos))
            for k, (inlets, nval) in enumerate(combos):
                rec = area_call(cat, G, outlet, inlets, nval)
                calls.append(["reused", outlet, rec["inlets_arg"], nval])
                if rec["exp"] is not None and rec["area"] and nval >= 2:
                    paths_call(cat, rec)
                if k == pick:
                    # same arguments as the call just made (and just recorded by cm.mark)
                    cat2 = hygrid.Catchment(f"fresh{outlet}", g)
                    rec2 = area_call(cat2, G, outlet, inlets, nval, emit=False, mark=False,
                                     extra={"object": f"fresh Catchment object for outlet {outlet}"})
                    calls.append([f"fresh{outlet}", outlet, rec2["inlets_arg"], nval])
                    kept.append((cat2, rec2, len(calls)))
        later = rng.randrange(len(kept)) if kept else -1
        for j, (cat2, rec2, pos) in enumerate(kept):
            extra = {"how": "other Catchment objects delineated on the same grid meanwhile",
                     "object": calls[pos - 1][0],
                     "later_calls_object_outlet_inlets_nval": calls[pos:]}
            if audit_area(cat2, rec2, extra, emit=True) and j == later and rec2["area"]:
                # flow path lengths asked for late start from the cells of the area
                paths_call(cat2, rec2, extra)
        if rec is not None:
            audit_area(cat, rec, {"how": "read twice, other objects read in between", "object": "reused",
                                  "later_calls_object_outlet_inlets_nval": []}, emit=False)

    def do_session(sess):
        """See gen_session.  Every operation is judged when it is made, as a single call would be; then
        after every step each live object is read again through its accessors (idxcells_area,
        idxcells_area_filled, flowpathlengths) and each result handed out by upstream / downstream /
        delineate_river (kept alive, as a caller collecting results would) is looked at again: all of them
        still have to be what the property states for the call that produced them."""
        Gs = [grid_info(*g) for g in sess["grids"]]
        glive = []
        for G in Gs:
            g = hygrid.Grid("fd", G["ncols"], G["nrows"], dtype=np.int64)
            g.data = np.array(G["fd"], dtype=np.int64).reshape(G["nrows"], G["ncols"])
            glive.append(g)
        objs = {}     # slot -> {"cat", "gi", "rec", "prec", "step"}
        held = []     # results handed out: (kind, step, gi, cells / (start, nval), live object)
        ops = sess["ops"]
        stats["sessions"] += 1

        def sofar(step, **kw):
            return dict({"session": {"grids": sess["grids"], "ops": ops[:step + 1]}, "read_after_step": step}, **kw)

        def audit(step, final):
            for slot, o in objs.items():
                if o["rec"] is None or o["step"] == step:
                    continue
                extra = sofar(step, how="session", object=f"slot {slot}", delineated_at_step=o["step"])
                if audit_area(o["cat"], o["rec"], extra, emit=final):
                    audit_paths(o["cat"], o["prec"], extra)
                else:
                    o["prec"] = None
            for h in held:
                if h["at"] != step and h["ok"]:
                    judge_held(h, step)

        def judge_held(h, step):
            """h: a result of downstream / upstream / delineate_river, judged when it is returned
            (step == h['at']) and each time it is looked at again afterwards."""
            kind, at, arg, live = h["kind"], h["at"], h["arg"], h["live"]
            G = Gs[h["gi"]]
            fd, nrows, ncols = G["fd"], G["nrows"], G["ncols"]
            again = step != at
            if again:
                stats["results_read_again"] += 1
            tail = f" when read again after later calls (returned at step {at}, read after step {step})" if again else ""
            sfx = "read-again" if again else None
            if kind == "down":
                got = [int(x) for x in live]
                want = [o_down(fd, nrows, ncols, c) for c in arg]
                h["ok"] = got == want
                if not h["ok"]:
                    k = next((j for j in range(min(len(arg), len(got))) if got[j] != want[j]), 0)
                    report("C06/downstream/" + (sfx or "wrong"),
                           sofar(step, **dict(G["base"], call="downstream", cells=arg, returned_at_step=at, impl=got)),
                           f"downstream({arg}) = {got}{tail}, expected {want}",
                           f"CDown {G['head']} {cm.coq_z(arg[k])} (Some {cm.coq_z(got[k] if got else 0)})",
                           ("down-session-bad", again))
            elif kind == "up":
                got = [[int(v) for v in row] for row in live]
                res = [o_up_ok(row, fd, nrows, ncols, c) for c, row in zip(arg, got)]
                h["ok"] = len(got) == len(arg) and all(r[0] for r in res)
                if not h["ok"]:
                    k = next((j for j, r in enumerate(res) if not r[0]), 0)
                    report("C06/upstream/" + (sfx or "not-inverse-of-downstream"),
                           sofar(step, **dict(G["base"], call="upstream", cells=arg, returned_at_step=at, impl=got)),
                           f"upstream({arg}) = {got}{tail}; cells draining to {arg[k]}: {res[k][1]}",
                           f"CUp {G['head']} {cm.coq_z(arg[k])} (Some {cm.coq_zlist(got[k])})",
                           ("up-session-bad", again))
            else:
                start, nval = arg
                rows = river_rows(live)
                h["ok"] = o_river_ok(fd, nrows, ncols, start, nval, rows)
                if not h["ok"]:
                    report("C06/river/read-again",
                           sofar(step, **dict(G["base"], call="delineate_river", start=start, nval=nval,
                                              returned_at_step=at, impl=rows[:6])),
                           f"river from {start}: {rows[:5]}{tail}",
                           river_term(nrows, ncols, fd, (0., 0., 1.), start, nval, rows),
                           ("river-session-bad", again))
            ctx.count((kind + ("-read-again" if again else "-session"), G["cls"], h["ok"]))

        for step, op in enumerate(ops):
            name = op[0]
            stats["session_steps"] += 1
            if name == "new":
                objs[op[1]] = {"cat": hygrid.Catchment(f"s{op[1]}", glive[op[2]]), "gi": op[2], "rec": None,
                               "prec": None, "step": step}
            elif name == "river":
                G = Gs[op[1]]
                df, rows, ok = river_call(G["nrows"], G["ncols"], G["fd"], (0., 0., 1.), op[2], op[3],
                                          extra=sofar(step))
                held.append({"kind": "river", "at": step, "gi": op[1], "arg": (op[2], op[3]), "live": df, "ok": ok})
            else:
                o = objs[op[1]]
                cat, G = o["cat"], Gs[o["gi"]]
                if name == "area":
                    o["rec"] = area_call(cat, G, op[2], op[3], op[4], extra=sofar(step, object=f"slot {op[1]}"))
                    # the flow path lengths the object may still hold belong to the superseded area: not judged
                    o["prec"], o["step"] = None, step
                elif name == "paths":
                    if o["rec"] is not None and o["rec"]["exp"] is not None and o["rec"]["area"]:
                        # the area the lengths start from: the object's own, as delineated
                        if audit_area(cat, o["rec"], sofar(step, how="session", object=f"slot {op[1]}",
                                                           delineated_at_step=o["step"]), emit=False):
                            o["prec"] = paths_call(cat, o["rec"], extra=sofar(step, object=f"slot {op[1]}"))
                elif name in ("down", "up"):
                    cells = op[2]
                    cm.mark(sofar(step))
                    live = (cat.downstream if name == "down" else cat.upstream)(np.array(cells))
                    held.append({"kind": name, "at": step, "gi": o["gi"], "arg": cells, "live": live, "ok": True})
                    judge_held(held[-1], step)
                elif name == "clone":
                    src = objs[op[2]]
                    # a deep copy: what it holds is not what this property is about until it is delineated
                    # again; it must not tie the two objects together
                    objs[op[1]] = {"cat": src["cat"].clone(), "gi": src["gi"], "rec": None, "prec": None,
                                   "step": step}
                else:
                    # readers outside the property: whatever they return or raise is not judged here
                    try:
                        if op[2] == "isin":
                            cat.isin(0), cat.isin(G["n"] - 1, filled=True)
                        elif op[2] == "to_dict":
                            cat.to_dict()
                        elif op[2] == "str":
                            str(cat)
                        else:
                            hygrid.Catchment.from_dict(cat.to_dict())
                    except Exception:
                        pass
            audit(step, final=(step == len(ops) - 1))

    # ---- exhaustive tiny grids
    shapes = [(1, 1), (1, 2), (2, 1), (1, 3), (3, 1)]
    for (nrows, ncols) in shapes:
        n = nrows * ncols
        for fd in itertools.product(VALUES, repeat=n):
            subsets = [s for r in range(n + 1) for s in itertools.combinations(range(n), r)]
            do_grid(nrows, ncols, list(fd), range(n), subsets, [n + 2], full=True)
    for (nrows, ncols) in [(2, 2), (1, 4), (4, 1)]:
        for _ in range(ctx.scale(150, 1500)):
            fd = [rng.choice(VALUES) for _ in range(4)]
            subsets = [(), tuple(rng.sample(range(4), rng.randint(1, 2)))]
            do_grid(nrows, ncols, fd, range(4), subsets, [rng.choice([1, 2, 3, 4, 6])], full=True)
    # ---- random grids
    S = ctx.scale(8, 20)
    for it in range(ctx.scale(120, 1200)):
        nrows = rng.choice([1, 2, 2, 3, rng.randint(1, S)])
        ncols = rng.choice([1, 2, 2, 3, rng.randint(1, S)])
        n = nrows * ncols
        fd = rand_grid(rng, nrows, ncols)
        # outlets: prefer cells with many upstream cells
        outlets = good_outlets(rng, fd, nrows, ncols)
        inlet_sets = [None, tuple(rng.sample(range(n), min(n, rng.randint(1, 3))))]
        nvals = [n + 2, rng.choice([1, 2, 3, max(2, n // 2), n, n + 1])]
        do_grid(nrows, ncols, fd, outlets, inlet_sets, nvals, full=(it % 3 == 0))
        # rivers
        for _ in range(2):
            start = rng.randrange(n)
            nval = rng.choice([1, 2, 3, n, n + 5])
            geo = rng.choice([(0., 0., 1.), (10.5, -3.25, 0.25), (rng.uniform(-50, 50), rng.uniform(-50, 50), 10 ** rng.uniform(-2, 2))])
            river_call(nrows, ncols, fd, geo, start, nval)
    # ---- sessions: several objects / grids alive at once, everything read again after every step
    for it in range(ctx.scale(150, 1500)):
        do_session(gen_session(rng, S))

    bad, nshards, failed = cm.run_case_files(PID, HEADER, "ccase", "c_ok", terms, shard=3000, max_bytes=400000)
    ctx.notes["correspondence_cases"] = len(terms)
    ctx.notes["correspondence_mismatches"] = len(bad)
    ctx.notes["read_again"] = stats
    for k in range(nshards):
        ctx.obligation(f"Cases_{PID}_{k}.agree (model = implementation on the shard)", True)
    cm.settle(ctx, proved, bad, failed, orc_fail, lambda i: replays[i],
              "Model/Grid.v + Model/Catchment.v vs c_grid.c/c_catchment.c + grid.py")
    return ctx.finish()
