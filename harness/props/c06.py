"""C06 - catchment delineation is exactly upstream reachability on the flow grid."""
import inspect
import itertools
import math
import sys
import time
from pathlib import Path

import numpy as np

from harness import common as cm

PID = "C06"
HEADER = ("From Coq Require Import ZArith List PrimFloat.\n"
          "From Hy Require Import Base.Num Model.Grid Model.Catchment.")

# ESRI convention (independent of the repository's table): code -> (drow, dcol)
ESRI = {32: (-1, -1), 64: (-1, 0), 128: (-1, 1), 16: (0, -1), 1: (0, 1), 8: (1, -1), 4: (1, 0), 2: (1, 1)}
CODES = [32, 64, 128, 16, 1, 8, 4, 2]
VALUES = CODES + [0, 3]   # eight codes, sink, one invalid code


def o_down(fd, nrows, ncols, c):
    v = fd[c]
    if v == 0:
        return -2
    if v not in ESRI:
        return -1
    r, k = divmod(c, ncols)
    dr, dc = ESRI[v]
    r, k = r + dr, k + dc
    if 0 <= r < nrows and 0 <= k < ncols:
        return r * ncols + k
    return -1


def o_area(fd, nrows, ncols, outlet, inlets):
    """Brute-force: cells whose downstream chain reaches the outlet without
    passing through an inlet.  Returns (set, outlet_on_cycle)."""
    n = nrows * ncols
    inl = set(inlets)
    res = set()
    for x in range(n):
        if x == outlet:
            continue
        c, seen = x, set()
        while c >= 0 and c not in seen and c not in inl:
            seen.add(c)
            c = o_down(fd, nrows, ncols, c)
            if c == outlet:
                res.add(x)
                break
    # does the outlet reach itself through non-inlet cells?
    c, seen, cyc = outlet, set(), False
    while True:
        if c in inl and c != outlet:
            break
        if c in inl and c == outlet:
            break
        seen.add(c)
        c = o_down(fd, nrows, ncols, c)
        if c == outlet:
            cyc = True
            break
        if c < 0 or c in seen:
            break
    if outlet in inl:
        # an outlet that is also an inlet: nothing upstream can be stored through it? the
        # kernel only tests inlets on upstream cells, so the outlet itself is unaffected
        pass
    return res, cyc


def o_pathlen(fd, nrows, ncols, x, outlet):
    """Length of the downstream chain from x to the outlet (None when x does not drain to it)."""
    n = nrows * ncols
    want, c, steps = 0.0, x, 0
    while c != outlet and steps <= n:
        d = o_down(fd, nrows, ncols, c)
        if d < 0:
            return None
        dr, dc = d // ncols - c // ncols, d % ncols - c % ncols
        want += math.sqrt(2) if dr != 0 and dc != 0 else 1.0
        c = d
        steps += 1
    return want if c == outlet else None


def o_up_ok(row, fd, nrows, ncols, c):
    """row = the 9 slots reported by upstream(c): the cells draining to c, each once, packed, then -1."""
    wantup = sorted(x for x in range(nrows * ncols) if o_down(fd, nrows, ncols, x) == c)
    gotup = [v for v in row if v >= 0]
    return (sorted(gotup) == wantup and len(set(gotup)) == len(gotup)
            and list(row[len(gotup):]) == [-1] * (9 - len(gotup))), wantup


def o_river_ok(fd, nrows, ncols, start, nval, rows):
    """rows = (cell, dist, ...): cells follow the downstream chain, distances advance by 1 / sqrt(2); the
    trace stops only where the chain stops (sink / exit) or after nval cells (a chain that runs into a
    cycle never stops: any bounded prefix is accepted)."""
    c, dist = start, 0.0
    okr = True
    d = None
    for j, r in enumerate(rows):
        if r[0] != c or abs(r[1] - dist) > 1e-9 * max(1, dist):
            okr = False
            break
        d = o_down(fd, nrows, ncols, c)
        if d < 0:
            okr = okr and j == len(rows) - 1
            break
        dr, dc = d // ncols - c // ncols, d % ncols - c % ncols
        dist += math.sqrt(2) if dr != 0 and dc != 0 else 1.0
        c = d
    if okr and rows and len(rows) < nval and d is not None and d >= 0:
        # stopped before nval cells although the last cell listed has a downstream cell: legitimate only
        # when the chain never ends (cycle)
        seen = set()
        while c >= 0 and c not in seen:
            seen.add(c)
            c = o_down(fd, nrows, ncols, c)
        if c < 0:
            okr = False
    return okr and 1 <= len(rows) <= nval


# ----------------------------------------------------------------------------------------------------
# vectorised forms of the same oracle (numpy; any grid size).  Written from the ESRI table above and the
# property text only; used for the long-chain / default-capacity classes and for reading objects again.

SQRT2 = math.sqrt(2)
# capacities documented at the pinned commit: delineate_area(..., nval=1000000) "maximum number of cells in
# area", delineate_river(..., nval=1000000) "number of cells to go downstream".  With DEFAULT options the
# property therefore has to hold in full on every catchment / river below this size.
PINNED_NVAL = {"Catchment.delineate_area": 1000000, "delineate_river": 1000000}


def v_down(fd, nrows, ncols):
    """fd: flat int64 array.  Returns (down, diag): downstream cell of every cell (-2 sink, -1 invalid code
    or off-grid exit) and whether the step to it is diagonal."""
    n = nrows * ncols
    idx = np.arange(n, dtype=np.int64)
    r, k = idx // ncols, idx % ncols
    dr = np.zeros(n, dtype=np.int64)
    dc = np.zeros(n, dtype=np.int64)
    valid = np.zeros(n, dtype=bool)
    for code, (a, b) in ESRI.items():
        m = fd == code
        dr[m], dc[m], valid[m] = a, b, True
    rr, kk = r + dr, k + dc
    inside = valid & (rr >= 0) & (rr < nrows) & (kk >= 0) & (kk < ncols)
    down = np.where(inside, rr * ncols + kk, -1)
    down[fd == 0] = -2
    return down, inside & (dr != 0) & (dc != 0)


def v_reach(down, diag, outlet=None, inlets=()):
    """Pointer doubling along the downstream chains, which stop at sinks / exits, at the outlet and at the
    inlets.  Returns (root, north, ndiag, stop): the cell at which the chain of every cell stops (a cell that
    is not a stopping cell when the chain runs into a cycle), the number of orthogonal / diagonal steps to it
    and the mask of the stopping cells."""
    n = len(down)
    idx = np.arange(n, dtype=np.int64)
    stop = down < 0
    if len(inlets):
        stop[np.asarray(inlets, dtype=np.int64)] = True
    if outlet is not None:
        stop[outlet] = True
    jump = np.where(stop, idx, down)
    north = (~stop & ~diag).astype(np.int64)
    ndiag = (~stop & diag).astype(np.int64)
    for _ in range(max(1, int(n).bit_length() + 1)):
        j2 = jump[jump]
        if np.array_equal(j2, jump):
            break
        north = north + north[jump]
        ndiag = ndiag + ndiag[jump]
        jump = j2
    return jump, north, ndiag, stop


def v_area(down, diag, outlet, inlets):
    """(mask of the cells whose downstream chain reaches the outlet without passing through an inlet - the
    outlet included -, outlet on a cycle, north, ndiag)."""
    root, north, ndiag, stop = v_reach(down, diag, outlet, inlets)
    mask = root == outlet
    d = down[outlet]
    cyc = bool(outlet not in set(int(x) for x in inlets) and d >= 0 and root[d] == outlet)
    return mask, cyc, north, ndiag


def v_up_problem(got, cells, down, indeg):
    """got: rows reported by upstream(cells).  Returns the position of the first row that is not exactly the
    cells draining to its cell, each once, packed, then -1 (None when all rows are right)."""
    n = len(down)
    got = np.asarray(got, dtype=np.int64)
    cells = np.asarray(cells, dtype=np.int64)
    if got.shape != (len(cells), 9):
        return 0
    neg = got < 0
    bad = (neg[:, :-1] & ~neg[:, 1:]).any(axis=1) | (neg & (got != -1)).any(axis=1) | (got >= n).any(axis=1)
    bad |= (~neg).sum(axis=1) != indeg[cells]
    v = np.clip(got, 0, n - 1)
    bad |= (~neg & (down[v] != cells[:, None])).any(axis=1)
    s = np.sort(got, axis=1)
    bad |= ((s[:, 1:] == s[:, :-1]) & (s[:, 1:] >= 0)).any(axis=1)
    w = np.nonzero(bad)[0]
    return int(w[0]) if len(w) else None


def v_river_problem(down, diag, start, cap, maxlen, cells, dist):
    """cells / dist: the trace returned by delineate_river.  It has to start at `start`, follow the
    downstream chain cell by cell, advance by 1 / sqrt(2), hold at most maxlen cells and stop before `cap`
    cells only where the chain stops (or anywhere when the chain runs into a cycle).  Returns None or a text."""
    n = len(down)
    m = len(cells)
    if m < 1:
        return "empty trace"
    if maxlen is not None and m > maxlen:
        return f"trace of {m} cells, more than the {maxlen} asked for"
    cells = np.asarray(cells, dtype=np.int64)
    if cells[0] != start:
        return f"trace starts at cell {int(cells[0])}"
    if ((cells < 0) | (cells >= n)).any():
        j = int(np.nonzero((cells < 0) | (cells >= n))[0][0])
        return f"row {j} of the trace is cell {int(cells[j])}, not a cell of the grid"
    w = np.nonzero(down[cells[:-1]] != cells[1:])[0]
    if len(w):
        j = int(w[0])
        return (f"row {j + 1} of the trace is cell {int(cells[j + 1])}, the downstream cell of row {j} "
                f"(cell {int(cells[j])}) is {int(down[cells[j]])}")
    want = np.concatenate([[0.0], np.cumsum(np.where(diag[cells[:-1]], SQRT2, 1.0))])
    w = np.nonzero(~(np.abs(np.asarray(dist, dtype=np.float64) - want) <= 1e-9 * np.maximum(1.0, want)))[0]
    if len(w):
        j = int(w[0])
        return f"distance of row {j} (cell {int(cells[j])}) = {float(dist[j])!r}, expected {float(want[j])!r}"
    last = int(cells[-1])
    if m < cap and down[last] >= 0:
        # cut short: legitimate only when the chain never ends
        root, north, ndiag, _ = v_reach(down, diag)
        if down[root[last]] < 0:
            return (f"trace has {m} cells and stops at cell {last} whose downstream cell is {int(down[last])}; "
                    f"the downstream chain goes on for {int(north[last] + ndiag[last])} more cells")
    return None


TRANSPOSE = {code: next(c2 for c2, v2 in ESRI.items() if v2 == (dc, dr)) for code, (dr, dc) in ESRI.items()}


def big_fd(rec):
    """Flow direction grid (2d int64 array) of a recipe {"kind", "nrows", "ncols", ...} - deterministic, so
    that a replay only needs the recipe: harness.props.c06.big_fd(recipe)."""
    kind, nrows, ncols = rec["kind"], rec["nrows"], rec["ncols"]
    if rec.get("transposed"):
        fd = big_fd(dict(rec, transposed=False)).T      # the recipe's nrows / ncols are those of the base grid
        out = np.zeros(fd.shape, dtype=np.int64)
        for code, c2 in TRANSPOSE.items():
            out[fd == code] = c2
        out[(fd != 0) & ~np.isin(fd, CODES)] = 3
        return np.ascontiguousarray(out)
    fd = np.zeros((nrows, ncols), dtype=np.int64)
    if kind == "given":
        fd[:] = np.array(rec["flowdir"], dtype=np.int64).reshape(nrows, ncols)
    elif kind == "line":
        # one row / one column flowing to one of its ends; the last cell leaves the grid or is a sink
        fd[:] = rec["code"]
        if rec.get("end_sink"):
            dr, dc = ESRI[rec["code"]]
            fd[-1 if dr > 0 else 0, -1 if dc > 0 else 0] = 0
    elif kind == "serpentine":
        # a river meandering through every cell: even rows flow east, odd rows west, turning south at the
        # end of the row (cutting the corner diagonally when asked)
        fd[0::2, :] = 1
        fd[1::2, :] = 16
        fd[0::2, -1] = 4
        fd[1::2, 0] = 4
        if rec.get("diagonal_turns") and ncols > 2:
            fd[0::2, -2] = 2
            fd[1::2, 1] = 8
        fd[-1, :] = 1 if nrows % 2 == 1 else 16
        fd[-1, -1 if nrows % 2 == 1 else 0] = 0 if rec.get("end_sink", True) else (1 if nrows % 2 == 1 else 16)
    elif kind == "zigzag":
        # two rows; the chain alternates between them with diagonal steps only, the other cells join it
        fd[0, 0::2] = 2
        fd[1, 1::2] = 128
        fd[0, 1::2] = 4
        fd[1, 0::2] = 64
        if ncols % 2 == 1:
            fd[0, -1] = 0      # the chain ends in the first row: 2 would leave the grid anyway
    elif kind == "converge":
        # every cell drains to the corner cell (0, 0): diagonally, or west then north
        if rec.get("diagonal"):
            fd[:] = 32
            fd[0, :] = 16
            fd[:, 0] = 64
        else:
            fd[:] = 16
            fd[:, 0] = 64
        fd[0, 0] = 0 if rec.get("end_sink", True) else 64
    elif kind == "ring":
        # a cycle along the border (clockwise); inner cells flow west into it
        fd[:] = 16
        fd[0, :] = 1
        fd[:, -1] = 4
        fd[-1, :] = 16
        fd[:, 0] = 64
        fd[0, 0] = 1
        if ncols == 1 or nrows == 1:
            fd[:] = 0
    elif kind == "forest":
        # random heights; every cell flows to a randomly chosen lower neighbour (no cycle); border cells
        # may leave the grid; a few sinks and invalid codes
        rs = np.random.default_rng(rec["seed"])
        h = np.full((nrows + 2, ncols + 2), np.inf)
        h[1:-1, 1:-1] = rs.random((nrows, ncols))
        exits = rs.random((nrows + 2, ncols + 2)) < 0.15
        h[exits & ~np.isfinite(h)] = -1.0
        best = np.full((nrows, ncols), -1.0)
        for code, (dr, dc) in ESRI.items():
            hn = h[1 + dr:1 + dr + nrows, 1 + dc:1 + dc + ncols]
            score = np.where(hn < h[1:-1, 1:-1], rs.random((nrows, ncols)), -1.0)
            fd[score > best] = code
            best = np.maximum(best, score)
        u = rs.random((nrows, ncols))
        fd[u < 0.02] = 0
        fd[(u >= 0.02) & (u < 0.03)] = 3
    else:
        raise ValueError(kind)
    return fd


def as_given(inl):
    """The inlet cells as a caller may pass them: list, tuple or integer array (chosen from the list itself)."""
    k = (len(inl) + sum(inl)) % 4
    return list(inl) if k < 2 else tuple(inl) if k == 2 else np.array(inl, dtype=np.int64)


def inlet_seq(rng, n, pool=None, kmax=3, p_repeat=0.5):
    """A LIST of inlet cells as a caller may write the set: any order, cells possibly listed more than once."""
    src = list(pool) if pool else list(range(n))
    base = rng.sample(src, min(len(src), rng.randint(1, kmax)))
    seq = list(base)
    if rng.random() < p_repeat:
        seq += [rng.choice(base) for _ in range(rng.randint(1, 2))]
    rng.shuffle(seq)
    return seq


def read_defaults(hygrid):
    """Default buffer sizes of the property's entry points, read from the signatures of the code under
    check.  Returns (defaults, problems)."""
    out, problems = {}, []
    for name, fn in (("Catchment.delineate_area", hygrid.Catchment.delineate_area),
                     ("delineate_river", hygrid.delineate_river)):
        try:
            d = inspect.signature(fn).parameters["nval"].default
        except (KeyError, ValueError, TypeError) as e:
            problems.append(f"{name}: no parameter nval ({e!r})")
            continue
        if isinstance(d, (int, np.integer)) and not isinstance(d, bool) and d >= 1:
            out[name] = int(d)
        else:
            problems.append(f"{name}: default nval = {d!r}, not a positive integer")
    return out, problems


def load_impl():
    """cm.use_impl(), then make sure that the compiled kernels that got imported are the ones rebuilt from
    the tree under check (the cache directory is shared with concurrent checks of other trees and pruned by
    them: an import that finds it gone falls back silently to a stale prebuilt extension in <tree>/src)."""
    for attempt in range(8):
        try:
            ext = Path(cm.use_impl()).resolve()
            import c_hydrodiy_gis
            from hydrodiy.gis import grid as hygrid
            where = Path(c_hydrodiy_gis.__file__).resolve()
            if ext in where.parents and getattr(hygrid, "c_hydrodiy_gis", None) is c_hydrodiy_gis:
                return hygrid
        except (ImportError, cm.BrokenTie):
            if attempt == 7:
                raise
        time.sleep(0.5 + attempt)
    raise cm.BrokenTie("the extension rebuilt from the tree under check could not be imported "
                       "(build cache pruned concurrently)")


# storage types a flow direction raster may come in (codes 0..128 fit all of them)
DTYPES = [np.int64, np.int64, np.int64, np.int64, np.int32, np.int16, np.uint8, np.float64, np.float32]


def make_catchment(nrows, ncols, fd, dtype=np.int64):
    from hydrodiy.gis.grid import Grid, Catchment
    g = Grid("fd", ncols, nrows, dtype=dtype)
    g.data = np.array(fd, dtype=np.int64).reshape(nrows, ncols)
    return Catchment("c", g), g


def rand_acyclic(rng, nrows, ncols):
    """Random forest: every cell points to a neighbour with a smaller random height, or is a sink/exit."""
    n = nrows * ncols
    h = [rng.random() for _ in range(n)]
    fd = []
    for c in range(n):
        r, k = divmod(c, ncols)
        opts = []
        for code, (dr, dc) in ESRI.items():
            rr, kk = r + dr, k + dc
            if 0 <= rr < nrows and 0 <= kk < ncols:
                if h[rr * ncols + kk] < h[c]:
                    opts.append(code)
            elif rng.random() < 0.15:
                opts.append(code)
        if not opts or rng.random() < 0.04:
            fd.append(rng.choice([0, 0, 3]))
        else:
            fd.append(rng.choice(opts))
    return fd


def rand_grid(rng, nrows, ncols, p_acyclic=0.7):
    if rng.random() < p_acyclic:
        return rand_acyclic(rng, nrows, ncols)
    return [rng.choice(VALUES if rng.random() < 0.3 else CODES) for _ in range(nrows * ncols)]


def good_outlets(rng, fd, nrows, ncols, k=4):
    """A few outlets, the cells with the largest upstream sets first."""
    n = nrows * ncols
    acc = sorted(range(n), key=lambda c: -len(o_area(fd, nrows, ncols, c, [])[0]))
    return list(dict.fromkeys(acc[:2] + rng.sample(range(n), min(n, 3))))[:k]


def gen_session(rng, S):
    """Several Catchment objects, on one or several flow-direction grids, alive at the same time and taken
    through an interleaved sequence of the property's operations.  Slots name the objects:
      new s g | area s outlet inlets nval (nval None = the default buffer size) | paths s |
      down s cells | up s cells | river g start nval | clone d a | touch s what
    Buffer sizes come from a small pool shared by the whole session and the grids often have the same
    shape, so that successive calls - on the same or on another object / grid - repeat the same sizes,
    outlets and inlets (whatever is kept between calls by the module, the class or the extension is hit
    again with equal keys and different contents)."""
    ng = rng.choice([1, 2, 2, 3])
    dim = lambda: rng.choice([1, 2, 2, 3, rng.randint(1, S)])
    shape0 = (dim(), dim())
    same = rng.random() < 0.6
    grids = []
    for k in range(ng):
        nrows, ncols = shape0 if (same or k == 0) else (dim(), dim())
        grids.append([nrows, ncols, rand_grid(rng, nrows, ncols, 0.8)])
    ncell = [g[0] * g[1] for g in grids]
    N = max(ncell)
    pool = [N + 2, N + 2, rng.choice([N + 2, N + 5, 2 * N + 3, None])]
    outs = [good_outlets(rng, g[2], g[0], g[1]) for g in grids]
    nslots = rng.randint(2, 5)
    sgrid = {}
    ops = []
    for s in range(nslots):
        sgrid[s] = rng.randrange(ng)
        ops.append(["new", s, sgrid[s]])
    for _ in range(rng.randint(6, 14)):
        r = rng.random()
        s = rng.randrange(nslots)
        gi = sgrid[s]
        n = ncell[gi]
        if r < 0.55:
            u = rng.random()
            inlets = (None if u < 0.55 else sorted(rng.sample(range(n), min(n, rng.randint(1, 3)))) if u < 0.8
                      else inlet_seq(rng, n, kmax=3, p_repeat=0.75))
            nval = rng.choice(pool) if rng.random() < 0.9 else rng.choice([1, 2, 3])
            ops.append(["area", s, rng.choice(outs[gi]), inlets, nval])
        elif r < 0.67:
            ops.append(["paths", s])
        elif r < 0.77:
            ops.append([rng.choice(["down", "up"]), s, [rng.randrange(n) for _ in range(rng.randint(1, 4))]])
        elif r < 0.84:
            gi = rng.randrange(ng)
            ops.append(["river", gi, rng.randrange(ncell[gi]), rng.choice([1, 2, 3, ncell[gi], ncell[gi] + 5])])
        elif r < 0.89:
            sgrid[s] = rng.randrange(ng)
            ops.append(["new", s, sgrid[s]])
        elif r < 0.94:
            a = rng.randrange(nslots)
            sgrid[s] = sgrid[a]
            ops.append(["clone", s, a])
        else:
            ops.append(["touch", s, rng.choice(["isin", "to_dict", "str", "roundtrip"])])
    return {"grids": grids, "ops": ops, "dtypes": [np.dtype(rng.choice(DTYPES)).name for _ in grids]}


def run(ctx):
    ctx.rule = ("exhaustive: every grid with <= 3 cells over 10 cell values x every outlet x every inlet subset; "
                "sampled 2x2/1x4/4x1; random acyclic forests and arbitrary (cyclic) grids up to 8x8 (thorough 20x20), "
                "1- and 2-column/row shapes emphasised, buffer sizes from 1 to ample (and the default one); on every "
                "grid several Catchment objects are alive at once (one reused for all calls, fresh ones per outlet) and "
                "every object is read again after the later delineations; sessions: objects on 1-3 grids (often the "
                "same shape, shared buffer sizes) through interleaved delineate_area / compute_flowpathlengths / "
                "upstream / downstream / delineate_river / clone / readers, every live object and every result "
                "handed out re-checked after each step; inlet LISTS (cells repeated, any order, list / tuple / "
                "array) and, after the delineations, downstream / upstream of every cell asked again from the same "
                "object (its flow grid is the one supplied); flow grids stored as int64/int32/int16/uint8/float; "
                "large grids (vectorised oracle, no case terms): lines 1 x L and L x 1, serpentines, all-diagonal "
                "zigzags, converging and random-forest grids, border cycles, with L just below / at / above 2^15, "
                "2^16, 10^5, the pinned default buffer sizes (10^6) and the defaults read from the signatures of the "
                "code under check - rivers and catchments with DEFAULT options (complete below the documented "
                "capacity), with buffers of exactly / one more / one less than needed and larger than the default; "
                "non-trivial = distinct (kind, shape class, outcome class) signature")
    ctx.trusted = cm.STD_TRUST
    ctx.tested_not_proved = ["hole filling (scipy.ndimage.binary_fill_holes): containment tested only",
                             "binary64 path lengths equal the real-number value to 1e-9 (tested)",
                             "independence of the results from the other objects / earlier and later calls of the "
                             "process (sessions): tested only - the Coq model is a function of one call's arguments",
                             "large grids and default buffer sizes (10^5..10^6 cells): tested against the vectorised "
                             "oracle only (no correspondence case terms); the default nval of delineate_area / "
                             "delineate_river is read from the signatures (fail-closed) and probed on both sides"]
    proved = cm.prove_with_kernels(ctx, ["c_upstream", "c_downstream", "c_neighbours", "c_delineate_river",
                                         "c_delineate_flowpathlengths_in_catchment", "c_delineate_area"])
    hygrid = load_impl()
    rng = ctx.rng
    terms, replays = [], []
    orc_fail = set()
    stats = {"objects_read_again": 0, "results_read_again": 0, "sessions": 0, "session_steps": 0,
             "flow_grids_queried_again": 0, "big_grids": 0, "big_calls": 0}
    phase_s = {}
    tphase = [time.time()]

    def phase(name):
        now = time.time()
        phase_s[name] = round(phase_s.get(name, 0.0) + now - tphase[0], 2)
        tphase[0] = now

    def add(term, replay, sig):
        terms.append(term)
        replays.append(replay)
        ctx.count(sig)
        if len(terms) % 4000 == 1:
            ctx.sample(replay)
        return len(terms) - 1

    def fail(idx, key, what):
        orc_fail.add(idx)
        ctx.failure(key, replays[idx], what)

    def report(key, replay, what, term=None, sig=None):
        """Oracle failure of an observation that has no case term yet (term given: it is added, so that the
        correspondence mismatch it may cause is tied to this report)."""
        if term is not None:
            fail(add(term, replay, sig), key, what)
        else:
            orc_fail.add(-1)
            ctx.failure(key, replay, what)

    def shape_cls(nrows, ncols):
        return (min(nrows, 3), min(ncols, 3))

    def grid_info(nrows, ncols, fd):
        return {"nrows": nrows, "ncols": ncols, "fd": fd, "n": nrows * ncols,
                "head": f"{cm.coq_z(nrows)} {cm.coq_z(ncols)} {cm.coq_zlist(fd)}",
                "base": {"nrows": nrows, "ncols": ncols, "flowdir": fd},
                "cls": shape_cls(nrows, ncols)}

    def vec(G):
        """downstream cell of every cell of the grid SUPPLIED (vectorised oracle), number of cells draining
        to every cell."""
        if "vdown" not in G:
            down, diag = v_down(np.array(G["fd"], dtype=np.int64), G["nrows"], G["ncols"])
            G["vdown"], G["vdiag"] = down, diag
            G["indeg"] = np.bincount(down[down >= 0], minlength=G["n"])
            G["ids"] = np.arange(G["n"], dtype=np.int64)
        return G["vdown"], G["indeg"], G["ids"]

    def requery(cat, G, extra, sigtag):
        """After delineations (any inlet list, any buffer size, errors included) the object still has to
        answer downstream / upstream for the flow grid it was GIVEN: every cell is asked again.  Returns
        True when it does."""
        down, indeg, ids = vec(G)
        stats["flow_grids_queried_again"] += 1
        ctx.count(("requery", G["cls"], sigtag))
        got = np.asarray(cat.downstream(ids), dtype=np.int64)
        w = np.nonzero(got != down)[0] if got.shape == down.shape else np.array([0])
        if len(w):
            c = int(w[0])
            g = int(got[c]) if got.shape == down.shape else None
            held = [int(v) for v in np.asarray(cat.flowdir.data).ravel()]
            report("C06/downstream/wrong-after-delineation",
                   dict(G["base"], call="downstream", cell=c, impl=g, flowdir_held_by_object=held, **extra),
                   f"downstream({c}) = {g} on an object that delineated areas before ({extra.get('how')}); "
                   f"on the flow grid it was given the downstream cell of {c} is {int(down[c])} "
                   f"(code {G['fd'][c]}; the object now holds code {held[c] if c < len(held) else None})",
                   f"CDown {G['head']} {cm.coq_z(c)} (Some {cm.coq_z(g if g is not None else 0)})",
                   ("down-requery-bad",))
            return False
        ups = np.asarray(cat.upstream(ids), dtype=np.int64)
        k = v_up_problem(ups, ids, down, indeg)
        if k is not None:
            row = [int(v) for v in ups[k]] if ups.ndim == 2 and k < len(ups) else []
            report("C06/upstream/not-inverse-after-delineation",
                   dict(G["base"], call="upstream", cell=k, impl=row, **extra),
                   f"upstream({k}) = {row} on an object that delineated areas before ({extra.get('how')}); "
                   f"cells draining to it on the flow grid it was given: "
                   f"{[int(x) for x in np.nonzero(down == k)[0]]}",
                   f"CUp {G['head']} {cm.coq_z(k)} (Some {cm.coq_zlist(row)})", ("up-requery-bad",))
            return False
        return True

    def read_area(cat):
        try:
            return [int(x) for x in cat.idxcells_area], [int(x) for x in cat.idxcells_area_filled]
        except ValueError:
            return None, None

    def area_term(G, rec, area):
        return (f"CArea {G['head']} {cm.coq_z(rec['outlet'])} {cm.coq_zlist(rec['inl'])} {cm.coq_z(rec['nval'])} "
                f"{cm.coq_option(area, cm.coq_zlist)}")

    def area_call(cat, G, outlet, inlets, nval, extra=None, emit=True, mark=True, history=None):
        """One delineate_area call on `cat`, judged at once.  nval None = the default buffer size (no case
        term: the model's fuel is the buffer size).  Returns the record of what the object has to hold from
        now on (rec['exp'] is None when nothing is required: error, or outlet on a cycle)."""
        fd, nrows, ncols, n = G["fd"], G["nrows"], G["ncols"], G["n"]
        extra = extra or {}
        if mark:
            cm.mark(dict(G["base"], call="delineate_area", outlet=outlet, inlets=inlets, nval=nval, **extra))
        try:
            if nval is None:
                cat.delineate_area(outlet, as_given(inlets) if inlets is not None else None)
            else:
                cat.delineate_area(outlet, as_given(inlets) if inlets is not None else None, nval=nval)
            area, filled = read_area(cat)
        except ValueError:
            area = filled = None
        inl = list(inlets) if inlets is not None else []
        want, cyc = o_area(fd, nrows, ncols, outlet, inl)
        rec = {"G": G, "outlet": outlet, "inl": inl, "inlets_arg": None if inlets is None else inl, "nval": nval,
               "want": want, "cyc": cyc, "area": area, "exp": None, "idx": None}
        replay = dict(G["base"], call="delineate_area", outlet=outlet, inlets=inl, nval=nval, impl=area, **extra)
        sig = ("area", G["cls"], area is None, len(inl) > 0, cyc, min(len(area or []), 3), nval is None,
               bool(extra))
        problems = []
        if area is None:
            # an error is legitimate only when the buffer is too small or the outlet lies on a cycle
            need = (len(want) + 1) if want else 0
            big = (PINNED_NVAL["Catchment.delineate_area"] if nval is None else nval) > need + 1
            if not cyc and big and 0 <= outlet < n and all(0 <= x < n for x in inl):
                problems.append(("C06/area/spurious-error",
                                 f"delineate_area(outlet={outlet}, inlets={inl}, nval={nval}) raised; "
                                 f"expected {sorted(want)}"))
        elif not cyc:   # grids with a cycle through the outlet: only termination is required
            exp = (want | {outlet}) if want else set()
            rec["exp"] = exp
            if set(area) != exp or len(area) != len(set(area)):
                problems.append(("C06/area/not-upstream-reachability",
                                 f"delineate_area(outlet={outlet}, inlets={inl}) = {area}, expected {sorted(exp)}"))
            if not set(filled) >= set(area):
                problems.append(("C06/area/filled-not-superset", f"filled area {filled} does not contain {area}"))
        if problems and history is not None:
            # the calls made on this object before: part of the failing input
            replay["earlier_calls_on_this_object_outlet_inlets_nval"] = history()
        if nval is not None and (emit or problems):
            rec["idx"] = add(area_term(G, rec, area), replay, sig)
            for key, what in problems:
                fail(rec["idx"], key, what)
        else:
            ctx.count(sig)
            for key, what in problems:
                report(key, replay, what)
        if problems:
            rec["exp"] = None      # reported once; later reads of this object are not judged again
        return rec

    def audit_area(cat, rec, extra, emit):
        """The object is read again after other operations of the process: it still has to hold exactly the
        upstream set of ITS outlet / inlets (rec), each cell once, inside its filled area."""
        if rec is None or rec["exp"] is None:
            return True
        G, exp = rec["G"], rec["exp"]
        area, filled = read_area(cat)
        stats["objects_read_again"] += 1
        replay = dict(G["base"], call="delineate_area", outlet=rec["outlet"], inlets=rec["inl"], nval=rec["nval"],
                      impl_at_call=rec["area"], impl=area, impl_filled=filled, **extra)
        sig = ("area-read-again", G["cls"], len(rec["inl"]) > 0, min(len(exp), 3), rec["nval"] is None,
               extra.get("how"))
        what = (f"delineate_area(outlet={rec['outlet']}, inlets={rec['inl']}) gave {rec['area']}; the same object "
                f"read again after later operations ({extra.get('how')}) holds ")
        problems = []
        if area is None:
            problems.append(("C06/area/read-again/not-upstream-reachability", what + "no area any more"))
        else:
            if set(area) != exp or len(area) != len(set(area)):
                problems.append(("C06/area/read-again/not-upstream-reachability",
                                 what + f"{area}, expected {sorted(exp)}"))
            if not set(filled) >= set(area):
                problems.append(("C06/area/read-again/filled-not-superset",
                                 what + f"{area}, not contained in its filled area {filled}"))
        term = area_term(G, rec, area) if rec["nval"] is not None else None
        if term is not None and (emit or problems):
            i = add(term, replay, sig)
            for key, w in problems:
                fail(i, key, w)
        else:
            ctx.count(sig)
            for key, w in problems:
                report(key, replay, w)
        if problems:
            rec["exp"] = None
        return not problems

    def paths_call(cat, rec, extra=None, history=None):
        """compute_flowpathlengths on an object whose area (rec) was found right.  Returns the record of
        what cat.flowpathlengths has to hold."""
        G, outlet = rec["G"], rec["outlet"]
        area = read_area(cat)[0]       # the same cells as rec["area"] (checked by the caller), as held now
        extra = extra or {}
        if extra:
            cm.mark(dict(G["base"], call="compute_flowpathlengths", outlet=outlet, area=area, **extra))
        cat.compute_flowpathlengths()
        rows = [(int(a), int(b), float(c)) for a, b, c in cat.flowpathlengths.values]
        i = add(f"CPaths {G['head']} {cm.coq_z(outlet)} {cm.coq_zlist(area)} [" +
                "; ".join(f"({cm.coq_z(a)}, {cm.coq_z(b)}, {cm.coq_float(c)})" for a, b, c in rows) + "]",
                dict(G["base"], call="compute_flowpathlengths", outlet=outlet, area=area, impl=rows, **extra),
                ("paths", G["cls"], len(area) > 2, bool(extra)))
        prec = {"rec": rec, "area": area, "rows": rows, "ok": True}
        bad = paths_problem(rec, area, rows)
        if bad is not None:
            prec["ok"] = False
            if history is not None:
                replays[i]["earlier_calls_on_this_object_outlet_inlets_nval"] = history()
            fail(i, "C06/flowpath/length" + ("-outlet" if bad[0] == outlet else ""), bad[1])
        return prec

    def paths_problem(rec, area, rows):
        """rows of flowpathlengths against the downstream chains: one row per area cell, in the order of
        the area, with the length of its downstream chain to the outlet."""
        G, outlet = rec["G"], rec["outlet"]
        if len(rows) != len(area):
            return (None, f"{len(rows)} flow path rows for an area of {len(area)} cells (outlet {outlet})")
        for (a, b, length), x in zip(rows, area):
            wantlen = o_pathlen(G["fd"], G["nrows"], G["ncols"], x, outlet)
            if a != x or wantlen is None or abs(length - wantlen) > 1e-9 * max(1, wantlen):
                return (x, f"flow path length of cell {x} to outlet {outlet} = {length} (start cell reported: {a}), "
                           f"expected {wantlen} ({G['nrows']}x{G['ncols']})")
        return None

    def audit_paths(cat, prec, extra):
        """cat.flowpathlengths read again later (the object was not re-delineated meanwhile)."""
        if prec is None or not prec["ok"]:
            return
        rec = prec["rec"]
        G = rec["G"]
        stats["results_read_again"] += 1
        fp = cat.flowpathlengths
        rows = None if fp is None else [(int(a), int(b), float(c)) for a, b, c in fp.values]
        ctx.count(("paths-read-again", G["cls"], len(rec["area"]) > 2))
        bad = (None, "no flow path lengths any more") if rows is None else paths_problem(rec, prec["area"], rows)
        if bad is not None:
            prec["ok"] = False
            term = None
            if rows is not None:
                term = (f"CPaths {G['head']} {cm.coq_z(rec['outlet'])} {cm.coq_zlist(prec['area'])} [" +
                        "; ".join(f"({cm.coq_z(a)}, {cm.coq_z(b)}, {cm.coq_float(c)})" for a, b, c in rows) + "]")
            report("C06/flowpath/read-again",
                   dict(G["base"], call="compute_flowpathlengths", outlet=rec["outlet"], area=prec["area"],
                        impl_at_call=prec["rows"], impl=rows, **extra),
                   f"flow path lengths of the catchment of outlet {rec['outlet']} read again after later "
                   f"operations ({extra.get('how')}): " + bad[1], term, ("paths-read-again-bad",))

    def river_call(nrows, ncols, fd, geo, start, nval, extra=None):
        xll, yll, csz = geo
        extra = extra or {}
        g2 = hygrid.Grid("fd", ncols, nrows, cellsize=csz, xllcorner=xll, yllcorner=yll, dtype=np.int64)
        g2.data = np.array(fd, dtype=np.int64).reshape(nrows, ncols)
        cm.mark(dict(call="delineate_river", nrows=nrows, ncols=ncols, flowdir=fd, start=start, nval=nval, **extra))
        df = hygrid.delineate_river(g2, start, nval=nval)
        rows = river_rows(df)
        i = add(river_term(nrows, ncols, fd, geo, start, nval, rows),
                dict({"call": "delineate_river", "nrows": nrows, "ncols": ncols, "flowdir": fd, "start": start,
                      "nval": nval, "xll": xll, "yll": yll, "cellsize": csz, "impl": rows[:6]}, **extra),
                ("river", shape_cls(nrows, ncols), min(len(rows), 3), bool(extra)))
        ok = o_river_ok(fd, nrows, ncols, start, nval, rows)
        if not ok:
            fail(i, "C06/river/not-downstream-chain", f"river from {start}: {rows[:5]}")
        return df, rows, ok

    def river_rows(df):
        return [(int(r.idxcell), float(r.dist), float(r.dx), float(r.dy), float(r.x), float(r.y))
                for r in df.itertuples()]

    def river_term(nrows, ncols, fd, geo, start, nval, rows):
        t = "[" + "; ".join("(" + ", ".join([cm.coq_z(r[0])] + [cm.coq_float(v) for v in r[1:]]) + ")"
                            for r in rows) + "]"
        return (f"CRiver {cm.coq_z(nrows)} {cm.coq_z(ncols)} {cm.coq_float(geo[0])} {cm.coq_float(geo[1])} "
                f"{cm.coq_float(geo[2])} {cm.coq_zlist(fd)} {cm.coq_z(start)} {cm.coq_z(nval)} (Some {t})")

    def do_grid(nrows, ncols, fd, outlets, inlet_sets, nvals, full=True, dtypes=True):
        n = nrows * ncols
        dtype = rng.choice(DTYPES) if dtypes else np.int64
        if not np.array_equal(np.array(fd, dtype=np.int64).astype(dtype).astype(np.int64), np.array(fd, dtype=np.int64)):
            dtype = np.int64      # the storage type must hold every code exactly
        cat, g = make_catchment(nrows, ncols, fd, dtype)
        G = grid_info(nrows, ncols, fd)
        if dtype is not np.int64:
            G["base"] = dict(G["base"], flow_grid_dtype=np.dtype(dtype).name)
        head, base = G["head"], G["base"]
        if full:
            ids = list(range(n))
            downs = [int(x) for x in cat.downstream(np.array(ids))]
            ups = [[int(v) for v in row] for row in cat.upstream(np.array(ids))]
            for c in ids:
                i = add(f"CDown {head} {cm.coq_z(c)} (Some {cm.coq_z(downs[c])})",
                        dict(base, call="downstream", cell=c, impl=downs[c]),
                        ("down", shape_cls(nrows, ncols), min(downs[c], 0)))
                want = o_down(fd, nrows, ncols, c)
                if downs[c] != want:
                    fail(i, "C06/downstream/wrong", f"downstream({c}) = {downs[c]}, expected {want}")
                i = add(f"CUp {head} {cm.coq_z(c)} (Some {cm.coq_zlist(ups[c])})",
                        dict(base, call="upstream", cell=c, impl=ups[c]),
                        ("up", shape_cls(nrows, ncols), sum(1 for v in ups[c] if v >= 0)))
                okup, wantup = o_up_ok(ups[c], fd, nrows, ncols, c)
                if not okup:
                    fail(i, "C06/upstream/not-inverse-of-downstream",
                         f"upstream({c}) = {ups[c]}, cells draining to it: {wantup}")
            for bad in (-1, n):
                for nm, fn in (("downstream", cat.downstream), ("upstream", cat.upstream)):
                    try:
                        fn(np.array([bad]))
                        ok = False
                    except ValueError:
                        ok = True
                    kind = "CDown" if nm == "downstream" else "CUp"
                    i = add(f"{kind} {head} {cm.coq_z(bad)} " + ("None" if ok else "(Some 0%Z)" if kind == "CDown" else "(Some [])"),
                            dict(base, call=nm, cell=bad, raised=ok), (nm + "-invalid",))
                    if not ok:
                        fail(i, "C06/invalid-cell-accepted", f"{nm}({bad}) did not raise")
        # One object (cat) is taken through all the calls; beside it one FRESH object per outlet is delineated
        # with one of the (inlets, nval) combinations and kept.  Once every call on this grid has been made,
        # every object still has to hold the upstream set of its own outlet.
        combos = [(inlets, nval) for inlets in inlet_sets for nval in nvals]
        calls, kept = [], []
        rec = None

        def hist():
            return [c[1:] for c in calls if c[0] == "reused"]

        for outlet in outlets:
            pick = rng.randrange(len(combos))
            for k, (inlets, nval) in enumerate(combos):
                rec = area_call(cat, G, outlet, inlets, nval, history=hist)
                calls.append(["reused", outlet, rec["inlets_arg"], nval])
                if rec["exp"] is not None and rec["area"] and nval >= 2:
                    paths_call(cat, rec, history=hist)
                if k == pick:
                    # same arguments as the call just made (and just recorded by cm.mark)
                    cat2 = hygrid.Catchment(f"fresh{outlet}", g)
                    rec2 = area_call(cat2, G, outlet, inlets, nval, emit=False, mark=False,
                                     extra={"object": f"fresh Catchment object for outlet {outlet}"})
                    calls.append([f"fresh{outlet}", outlet, rec2["inlets_arg"], nval])
                    kept.append((cat2, rec2, len(calls)))
        later = rng.randrange(len(kept)) if kept else -1
        for j, (cat2, rec2, pos) in enumerate(kept):
            extra = {"how": "other Catchment objects delineated on the same grid meanwhile",
                     "object": calls[pos - 1][0],
                     "later_calls_object_outlet_inlets_nval": calls[pos:]}
            if audit_area(cat2, rec2, extra, emit=True) and j == later and rec2["area"]:
                # flow path lengths asked for late start from the cells of the area
                paths_call(cat2, rec2, extra)
        if rec is not None:
            audit_area(cat, rec, {"how": "read twice, other objects read in between", "object": "reused",
                                  "later_calls_object_outlet_inlets_nval": []}, emit=False)
            # the flow grid of the objects is not an output of delineate_area: whatever the inlet lists and
            # buffer sizes were (errors included), downstream / upstream still answer for the grid supplied
            requery(cat, G, {"how": "same object, after all its delineate_area calls", "object": "reused",
                             "earlier_calls_on_this_object_outlet_inlets_nval": hist()}, "reused")
            if kept:
                cat2, rec2, pos = kept[rng.randrange(len(kept))]
                requery(cat2, G, {"how": "fresh object, after its delineate_area call", "object": calls[pos - 1][0],
                                  "earlier_calls_on_this_object_outlet_inlets_nval": [calls[pos - 1][1:]]}, "fresh")

    # ------------------------------------------------------------------------------------------------
    # default buffer sizes, long chains, large catchments (vectorised oracle, no case terms)

    defaults, dproblems = read_defaults(hygrid)
    ctx.notes["default_buffer_sizes"] = {"read_from_the_signatures": defaults, "pinned": PINNED_NVAL}
    for pb in dproblems:
        # fail-closed: the sizes probed below are chosen around these defaults
        ctx.failure("C06/defaults/unreadable", {"broken": "default buffer size (nval) of an entry point", "what": pb},
                    f"default buffer size no longer readable from the source: {pb}", nofail=True)
    for name, d in defaults.items():
        if d != PINNED_NVAL[name]:
            print(f"NOTE: property=C06 default nval of {name} is {d} (pinned commit: {PINNED_NVAL[name]}); "
                  f"chains / catchments around both sizes are probed with default options", flush=True)

    def big_info(rec):
        fd2 = big_fd(rec)
        nrows, ncols = fd2.shape
        n = nrows * ncols
        down, diag = v_down(fd2.ravel(), nrows, ncols)
        B = {"rec": rec, "nrows": nrows, "ncols": ncols, "n": n, "fd2": fd2, "down": down, "diag": diag,
             "indeg": np.bincount(down[down >= 0], minlength=n),
             "base": {"grid": rec, "flowdir": "harness.props.c06.big_fd(grid).ravel()", "nrows": nrows,
                      "ncols": ncols},
             "cls": (rec["kind"], bool(rec.get("transposed")), min(nrows, 3), min(ncols, 3), n.bit_length()),
             "desc": f"{rec['kind']} grid {nrows}x{ncols}"}
        dtype = rng.choice(DTYPES)
        # a narrower storage type only when it holds every code exactly (grids with invalid codes that alias
        # valid ones - 257, 2^32 + 16 ... - would otherwise be a different grid once stored)
        if not np.array_equal(np.asarray(fd2).astype(dtype).astype(np.int64), np.asarray(fd2, dtype=np.int64)):
            dtype = np.int64
        if dtype is not np.int64:
            B["base"]["flow_grid_dtype"] = np.dtype(dtype).name
        g = hygrid.Grid("fd", ncols, nrows, dtype=dtype)
        g.data = fd2
        B["g"] = g
        root, north, ndiag, _ = v_reach(down, diag)
        B["root"], B["north"], B["ndiag"] = root, north, ndiag
        B["steps"], B["acyclic"] = north + ndiag, down[root] < 0
        return B

    def river_vec(B, start, nval, extra=None):
        """delineate_river judged by the vectorised oracle.  nval None = default options: the trace has to
        be complete up to the documented capacity."""
        name = "delineate_river"
        down, diag, g = B["down"], B["diag"], B["g"]
        cap = PINNED_NVAL[name] if nval is None else nval
        maxlen = max(cap, defaults.get(name, cap)) if nval is None else nval
        replay = dict(B["base"], call=name, start=start, nval="default" if nval is None else nval, **(extra or {}))
        cm.mark(replay)
        stats["big_calls"] += 1
        tail = f"river from cell {start} ({'default options' if nval is None else f'nval={nval}'}) on a {B['desc']}"
        try:
            df = hygrid.delineate_river(g, start) if nval is None else hygrid.delineate_river(g, start, nval=nval)
        except ValueError as e:
            ctx.count(("river-vec-error", B["cls"], nval is None))
            if B["acyclic"][start]:
                report("C06/river/spurious-error", dict(replay, raised=str(e)),
                       f"{tail}: raised {str(e)[:120]!r} although the downstream chain is finite "
                       f"({int(B['steps'][start]) + 1} cells)")
            return None
        cells = np.asarray(df["idxcell"].values, dtype=np.int64)
        dist = np.asarray(df["dist"].values, dtype=np.float64)
        ctx.count(("river-vec", B["cls"], nval is None, min(len(cells), 3), bool(B["acyclic"][start]),
                   len(cells) == cap))
        prob = v_river_problem(down, diag, start, cap, maxlen, cells, dist)
        if prob is not None:
            report("C06/river/not-downstream-chain",
                   dict(replay, impl_rows=len(cells), impl_first_cells=[int(x) for x in cells[:5]],
                        impl_last_cells=[int(x) for x in cells[-3:]],
                        chain_cells=int(B["steps"][start]) + 1 if B["acyclic"][start] else "endless (cycle)"),
                   f"{tail}: {prob}")
        return df

    def downup_vec(B, cat, cells, extra, after):
        """downstream / upstream of `cells` on `cat` against the grid supplied."""
        down, indeg = B["down"], B["indeg"]
        stats["big_calls"] += 2
        ctx.count(("downup-vec", B["cls"], after))
        cm.mark(dict(B["base"], call="downstream/upstream", ncells=len(cells), **extra))
        got = np.asarray(cat.downstream(cells), dtype=np.int64)
        w = np.nonzero(got != down[cells])[0] if got.shape == cells.shape else np.array([0])
        if len(w):
            c = int(cells[w[0]])
            held = int(np.asarray(cat.flowdir.data).ravel()[c])
            report("C06/downstream/wrong" + ("-after-delineation" if after else ""),
                   dict(B["base"], call="downstream", cell=c, impl=int(got[w[0]]), **extra),
                   f"downstream({c}) = {int(got[w[0]])} on a {B['desc']}"
                   + (f" on an object that delineated areas before; the object now holds code {held} for this "
                      f"cell" if after else "")
                   + f"; expected {int(down[c])} (code supplied: {int(B['fd2'].ravel()[c])})")
            return False
        ups = np.asarray(cat.upstream(cells), dtype=np.int64)
        k = v_up_problem(ups, cells, down, indeg)
        if k is not None:
            c = int(cells[k])
            row = [int(v) for v in ups[k]] if ups.ndim == 2 and k < len(ups) else []
            report("C06/upstream/not-inverse" + ("-after-delineation" if after else "-of-downstream"),
                   dict(B["base"], call="upstream", cell=c, impl=row, **extra),
                   f"upstream({c}) = {row} on a {B['desc']}"
                   + (" on an object that delineated areas before" if after else "")
                   + f"; cells draining to it: {[int(x) for x in np.nonzero(down == c)[0]]}")
            return False
        return True

    def area_vec(B, cat, outlet, inlets, nval, history, want=None, paths_budget=0):
        """delineate_area judged by the vectorised oracle; then compute_flowpathlengths when cheap.
        Returns the number of cells expected (None when nothing was required or something was reported)."""
        name = "Catchment.delineate_area"
        n, down, diag = B["n"], B["down"], B["diag"]
        inl = [int(x) for x in inlets] if inlets is not None else []
        if want is None:
            want = v_area(down, diag, outlet, inl)
        mask, cyc, north, ndiag = want
        A = int(mask.sum())
        need = A if A > 1 else 0
        cap = PINNED_NVAL[name] if nval is None else nval
        replay = dict(B["base"], call="delineate_area", outlet=outlet, inlets=inl,
                      nval="default" if nval is None else nval,
                      earlier_calls_on_this_object_outlet_inlets_nval=list(history))
        cm.mark(replay)
        stats["big_calls"] += 1
        tail = (f"delineate_area(outlet={outlet}, inlets={inl}, "
                f"{'default options' if nval is None else f'nval={nval}'}) on a {B['desc']}"
                + (f" (after {len(history)} earlier call(s) on the same object)" if history else ""))
        try:
            if nval is None:
                cat.delineate_area(outlet, as_given(inl) if inlets is not None else None)
            else:
                cat.delineate_area(outlet, as_given(inl) if inlets is not None else None, nval=nval)
            area = np.asarray(cat.idxcells_area, dtype=np.int64)
            filled = np.asarray(cat.idxcells_area_filled, dtype=np.int64)
        except ValueError as e:
            area, err = None, str(e)
        history.append([outlet, inl if inlets is not None else None, "default" if nval is None else nval])
        ctx.count(("area-vec", B["cls"], area is None, len(inl) > 0, len(set(inl)) < len(inl), cyc, min(A, 3),
                   nval is None, bool(len(history) > 1)))
        if area is None:
            if not cyc and cap > need + 1:
                report("C06/area/spurious-error", dict(replay, raised=err),
                       f"{tail} raised {err[:120]!r}; the catchment has {need} cells")
            return None
        if cyc:
            return None
        ok = True
        if need == 0:
            if len(area):
                ok = False
                prob = f"{len(area)} cells (first: {[int(x) for x in area[:5]]}), expected none: nothing drains to the outlet"
        else:
            inside = (area >= 0) & (area < n)
            got = np.zeros(n, dtype=bool)
            got[area[inside]] = True
            if not inside.all() or len(area) != A or not np.array_equal(got, mask):
                ok = False
                miss = np.nonzero(mask & ~got)[0]
                extra_ = np.nonzero(got & ~mask)[0]
                prob = (f"{len(area)} cells ({int(got.sum())} distinct), expected {A}; missing e.g. "
                        f"{[int(x) for x in miss[:5]]}, not draining to the outlet e.g. {[int(x) for x in extra_[:5]]}")
        if not ok:
            report("C06/area/not-upstream-reachability", dict(replay, impl_ncells=len(area)), f"{tail} = {prob}")
            return None
        if need and not np.isin(area, filled).all():
            report("C06/area/filled-not-superset", dict(replay, impl_ncells=len(area)),
                   f"{tail}: the filled area ({len(filled)} cells) does not contain the area ({len(area)} cells)")
            return None
        # flow path lengths (the kernel walks every chain: cost = sum of the chain lengths)
        if need and int((north + ndiag)[mask].sum()) <= paths_budget:
            stats["big_calls"] += 1
            cm.mark(dict(replay, call="compute_flowpathlengths"))
            cat.compute_flowpathlengths()
            fp = np.asarray(cat.flowpathlengths.values, dtype=np.float64)
            wantlen = north[area] + ndiag[area] * SQRT2
            ctx.count(("paths-vec", B["cls"], min(A, 3), bool(ndiag[area].any())))
            if fp.shape != (len(area), 3):
                bad = 0
            else:
                w = np.nonzero((fp[:, 0] != area) | ~(np.abs(fp[:, 2] - wantlen) <= 1e-9 * np.maximum(1.0, wantlen)))[0]
                bad = int(w[0]) if len(w) else None
            if bad is not None:
                x = int(area[bad])
                report("C06/flowpath/length" + ("-outlet" if x == outlet else ""),
                       dict(replay, call="compute_flowpathlengths", cell=x,
                            impl=[float(v) for v in fp[bad]] if fp.ndim == 2 and bad < len(fp) else None),
                       f"flow path length of cell {x} to outlet {outlet} = "
                       f"{float(fp[bad, 2]) if fp.ndim == 2 and bad < len(fp) else None} (start cell reported: "
                       f"{fp[bad, 0] if fp.ndim == 2 and bad < len(fp) else None}), expected {float(wantlen[bad])} "
                       f"({int(north[x])} orthogonal + {int(ndiag[x])} diagonal steps) after {tail}")
                return None
        return need

    def do_big(rec, paths_budget, sample=120000):
        """One large grid: rivers and catchments with DEFAULT options and with buffer sizes around what is
        needed, inlet lists with repeated entries, then everything asked again from the same object."""
        B = big_info(rec)
        n, down, diag = B["n"], B["down"], B["diag"]
        stats["big_grids"] += 1
        cat = hygrid.Catchment("big", B["g"])
        name = "delineate_river"
        # the longest finite chain of the grid
        start = int(np.argmax(np.where(B["acyclic"], B["steps"], -1)))
        L, end = int(B["steps"][start]) + 1, int(B["root"][start])
        if not B["acyclic"][start]:
            start = None
        cells = (np.arange(n, dtype=np.int64) if n <= sample else
                 np.unique(np.concatenate([np.arange(0, min(n, 1000)), np.arange(max(0, n - 1000), n),
                                           np.random.default_rng(rng.randrange(2 ** 31)).integers(0, n, sample)])))
        cells = cells.astype(np.int64)
        downup_vec(B, cat, cells, {}, after=False)
        if start is not None:
            river_vec(B, start, None)
            for nval in sorted(set(rng.sample([L, L + 1, max(1, L - 1), L + 7, max(1, L // 2)], 2))):
                river_vec(B, start, nval)
            if L >= min(PINNED_NVAL[name], defaults.get(name, PINNED_NVAL[name])):
                river_vec(B, start, L + 2)      # a buffer larger than the default one
            other = int(rng.randrange(n))
            river_vec(B, other, None)
        cyc_cells = np.nonzero(~B["acyclic"])[0]
        if len(cyc_cells):
            # a chain that runs into a cycle: an error or a bounded trace
            c = int(cyc_cells[rng.randrange(len(cyc_cells))])
            river_vec(B, c, None)
            river_vec(B, c, rng.choice([1, 7, n + 3]))
        history = []
        if start is None:
            outlet = int(cyc_cells[rng.randrange(len(cyc_cells))])
            area_vec(B, cat, outlet, None, None, history)
            area_vec(B, cat, outlet, None, min(n, 5000), history)
        else:
            outlet = end
            # (a) everything that drains to the end of the longest chain, default options (the outlet is the
            #     end of its chain: the chains computed without outlet are the ones needed)
            full = (B["root"] == end, False, B["north"], B["ndiag"])
            A = area_vec(B, cat, outlet, None, None, history, want=full, paths_budget=paths_budget)
            # (b) inlets on the main chain, written with repeated entries; the part below them is short
            #     enough for the flow path lengths
            K = rng.choice([1, 2, 50, 1500, 2999] + ([7000, 12000] if thorough else []))
            c = start
            chain = np.empty(L, dtype=np.int64)
            dlist = down.tolist()
            for j in range(L):
                chain[j] = c
                c = dlist[c]
            K = min(K, L - 1)
            cut = int(chain[L - 1 - K])
            inl = [cut, cut] + ([int(rng.randrange(n))] if rng.random() < 0.5 else []) + ([cut] if rng.random() < 0.3 else [])
            rng.shuffle(inl)
            area_vec(B, cat, outlet, inl, None, history, paths_budget=paths_budget)
            # the object is asked again: its flow grid is the one supplied
            downup_vec(B, cat, np.unique(np.concatenate([cells, np.array(inl, dtype=np.int64)])),
                       {"earlier_calls_on_this_object_outlet_inlets_nval": list(history)}, after=True)
            # (c) the whole catchment again from the same object, buffer sizes around what is needed
            need = int(full[0].sum())
            need = need if need > 1 else 0
            for nval in sorted(set(rng.sample([need + 2, need + 1, max(1, need), need + 3, None], 2)),
                               key=lambda v: -1 if v is None else v):
                area_vec(B, cat, outlet, None, nval, history, want=full)
            if need + 2 >= min(PINNED_NVAL["Catchment.delineate_area"],
                               defaults.get("Catchment.delineate_area", 10 ** 9)):
                area_vec(B, cat, outlet, None, need + 3, history, want=full)   # larger than the default buffer
            # (d) a small catchment high up the main chain, inlets in any order
            o2 = int(chain[min(L - 1, rng.choice([0, 1, 40, 2500]))])
            area_vec(B, cat, o2, inlet_seq(rng, n, kmax=3, p_repeat=0.5), None, history, paths_budget=paths_budget)
            river_vec(B, start, None, {"after_calls_on_a_catchment_object_of_the_same_grid": list(history)})
        return B

    def do_session(sess):
        """See gen_session.  Every operation is judged when it is made, as a single call would be; then
        after every step each live object is read again through its accessors (idxcells_area,
        idxcells_area_filled, flowpathlengths) and each result handed out by upstream / downstream /
        delineate_river (kept alive, as a caller collecting results would) is looked at again: all of them
        still have to be what the property states for the call that produced them."""
        Gs = [grid_info(*g) for g in sess["grids"]]
        glive = []
        for G, dt in zip(Gs, sess["dtypes"]):
            g = hygrid.Grid("fd", G["ncols"], G["nrows"], dtype=np.dtype(dt).type)
            g.data = np.array(G["fd"], dtype=np.int64).reshape(G["nrows"], G["ncols"])
            glive.append(g)
        objs = {}     # slot -> {"cat", "gi", "rec", "prec", "step"}
        held = []     # results handed out: (kind, step, gi, cells / (start, nval), live object)
        ops = sess["ops"]
        stats["sessions"] += 1

        def sofar(step, **kw):
            return dict({"session": {"grids": sess["grids"], "flow_grid_dtypes": sess["dtypes"],
                                     "ops": ops[:step + 1]}, "read_after_step": step}, **kw)

        def audit(step, final):
            for slot, o in objs.items():
                if o["rec"] is None or o["step"] == step:
                    continue
                extra = sofar(step, how="session", object=f"slot {slot}", delineated_at_step=o["step"])
                if audit_area(o["cat"], o["rec"], extra, emit=final):
                    audit_paths(o["cat"], o["prec"], extra)
                else:
                    o["prec"] = None
            for h in held:
                if h["at"] != step and h["ok"]:
                    judge_held(h, step)
            # the flow grid of every live object: downstream / upstream of every cell asked again (after
            # each delineation of any object, and at the end)
            for slot, o in objs.items():
                if o.get("fdok", True) and (final or ops[step][0] == "area"):
                    o["fdok"] = requery(o["cat"], Gs[o["gi"]],
                                        sofar(step, how="session", object=f"slot {slot}"), "session")

        def judge_held(h, step):
            """h: a result of downstream / upstream / delineate_river, judged when it is returned
            (step == h['at']) and each time it is looked at again afterwards."""
            kind, at, arg, live = h["kind"], h["at"], h["arg"], h["live"]
            G = Gs[h["gi"]]
            fd, nrows, ncols = G["fd"], G["nrows"], G["ncols"]
            again = step != at
            if again:
                stats["results_read_again"] += 1
            tail = f" when read again after later calls (returned at step {at}, read after step {step})" if again else ""
            sfx = "read-again" if again else None
            if kind == "down":
                got = [int(x) for x in live]
                want = [o_down(fd, nrows, ncols, c) for c in arg]
                h["ok"] = got == want
                if not h["ok"]:
                    k = next((j for j in range(min(len(arg), len(got))) if got[j] != want[j]), 0)
                    report("C06/downstream/" + (sfx or "wrong"),
                           sofar(step, **dict(G["base"], call="downstream", cells=arg, returned_at_step=at, impl=got)),
                           f"downstream({arg}) = {got}{tail}, expected {want}",
                           f"CDown {G['head']} {cm.coq_z(arg[k])} (Some {cm.coq_z(got[k] if got else 0)})",
                           ("down-session-bad", again))
            elif kind == "up":
                got = [[int(v) for v in row] for row in live]
                res = [o_up_ok(row, fd, nrows, ncols, c) for c, row in zip(arg, got)]
                h["ok"] = len(got) == len(arg) and all(r[0] for r in res)
                if not h["ok"]:
                    k = next((j for j, r in enumerate(res) if not r[0]), 0)
                    report("C06/upstream/" + (sfx or "not-inverse-of-downstream"),
                           sofar(step, **dict(G["base"], call="upstream", cells=arg, returned_at_step=at, impl=got)),
                           f"upstream({arg}) = {got}{tail}; cells draining to {arg[k]}: {res[k][1]}",
                           f"CUp {G['head']} {cm.coq_z(arg[k])} (Some {cm.coq_zlist(got[k])})",
                           ("up-session-bad", again))
            else:
                start, nval = arg
                rows = river_rows(live)
                h["ok"] = o_river_ok(fd, nrows, ncols, start, nval, rows)
                if not h["ok"]:
                    report("C06/river/read-again",
                           sofar(step, **dict(G["base"], call="delineate_river", start=start, nval=nval,
                                              returned_at_step=at, impl=rows[:6])),
                           f"river from {start}: {rows[:5]}{tail}",
                           river_term(nrows, ncols, fd, (0., 0., 1.), start, nval, rows),
                           ("river-session-bad", again))
            ctx.count((kind + ("-read-again" if again else "-session"), G["cls"], h["ok"]))

        for step, op in enumerate(ops):
            name = op[0]
            stats["session_steps"] += 1
            if name == "new":
                objs[op[1]] = {"cat": hygrid.Catchment(f"s{op[1]}", glive[op[2]]), "gi": op[2], "rec": None,
                               "prec": None, "step": step}
            elif name == "river":
                G = Gs[op[1]]
                df, rows, ok = river_call(G["nrows"], G["ncols"], G["fd"], (0., 0., 1.), op[2], op[3],
                                          extra=sofar(step))
                held.append({"kind": "river", "at": step, "gi": op[1], "arg": (op[2], op[3]), "live": df, "ok": ok})
            else:
                o = objs[op[1]]
                cat, G = o["cat"], Gs[o["gi"]]
                if name == "area":
                    o["rec"] = area_call(cat, G, op[2], op[3], op[4], extra=sofar(step, object=f"slot {op[1]}"))
                    # the flow path lengths the object may still hold belong to the superseded area: not judged
                    o["prec"], o["step"] = None, step
                elif name == "paths":
                    if o["rec"] is not None and o["rec"]["exp"] is not None and o["rec"]["area"]:
                        # the area the lengths start from: the object's own, as delineated
                        if audit_area(cat, o["rec"], sofar(step, how="session", object=f"slot {op[1]}",
                                                           delineated_at_step=o["step"]), emit=False):
                            o["prec"] = paths_call(cat, o["rec"], extra=sofar(step, object=f"slot {op[1]}"))
                elif name in ("down", "up"):
                    cells = op[2]
                    cm.mark(sofar(step))
                    live = (cat.downstream if name == "down" else cat.upstream)(np.array(cells))
                    held.append({"kind": name, "at": step, "gi": o["gi"], "arg": cells, "live": live, "ok": True})
                    judge_held(held[-1], step)
                elif name == "clone":
                    src = objs[op[2]]
                    # a deep copy: what it holds is not what this property is about until it is delineated
                    # again; it must not tie the two objects together
                    objs[op[1]] = {"cat": src["cat"].clone(), "gi": src["gi"], "rec": None, "prec": None,
                                   "step": step}
                else:
                    # readers outside the property: whatever they return or raise is not judged here
                    try:
                        if op[2] == "isin":
                            cat.isin(0), cat.isin(G["n"] - 1, filled=True)
                        elif op[2] == "to_dict":
                            cat.to_dict()
                        elif op[2] == "str":
                            str(cat)
                        else:
                            hygrid.Catchment.from_dict(cat.to_dict())
                    except Exception:
                        pass
            audit(step, final=(step == len(ops) - 1))

    phase("proofs, kernels tie, build")
    # ---- large grids: default options, long chains, buffer sizes around the caps
    thorough = ctx.thorough
    budget = ctx.scale(2 * 10 ** 7, 2 * 10 ** 8)

    def line(L, **kw):
        if rng.random() < 0.5:
            return dict({"kind": "line", "nrows": 1, "ncols": L, "code": rng.choice([1, 16]),
                         "end_sink": rng.random() < 0.5}, **kw)
        return dict({"kind": "line", "nrows": L, "ncols": 1, "code": rng.choice([4, 64]),
                     "end_sink": rng.random() < 0.5}, **kw)

    recipes = []
    big_caps = sorted(set(PINNED_NVAL.values()) | set(defaults.values()))
    for cap in [2 ** 15, 2 ** 16, 100000]:
        for d in ([-2, -1, 0, 1, 2] if thorough else [rng.choice([-2, -1, 0, 1, 2])]):
            recipes.append(line(cap + d))
    for _ in range(ctx.scale(1, 4)):
        recipes.append(line(rng.randint(100001, 400000)))
    for cap in big_caps:
        if 3 <= cap <= 2500000:
            # just below / above the default buffer sizes (the pinned ones and the ones of the code under check)
            for d in ([-2, -1, 0, 1, 2] if thorough else [rng.choice([-2, -1, 0]), rng.choice([1, 2])]):
                recipes.append(line(cap + d))
    for _ in range(ctx.scale(1, 3)):
        recipes.append({"kind": "serpentine", "nrows": rng.randint(320, 400), "ncols": rng.randint(320, 420),
                        "diagonal_turns": rng.random() < 0.5, "end_sink": rng.random() < 0.5,
                        "transposed": rng.random() < 0.5})
        recipes.append({"kind": "zigzag", "nrows": 2, "ncols": rng.randint(100001, 140000),
                        "transposed": rng.random() < 0.5})
        recipes.append({"kind": "converge", "nrows": rng.randint(330, 400), "ncols": rng.randint(330, 400),
                        "diagonal": rng.random() < 0.5, "end_sink": rng.random() < 0.5,
                        "transposed": rng.random() < 0.5})
        recipes.append({"kind": "forest", "nrows": rng.randint(250, 400), "ncols": rng.randint(250, 400),
                        "seed": rng.randrange(2 ** 31)})
        recipes.append({"kind": "ring", "nrows": rng.randint(2, 200), "ncols": rng.randint(2, 300)})
    if thorough:
        recipes += [{"kind": "serpentine", "nrows": 1000, "ncols": 1001, "diagonal_turns": True, "end_sink": True,
                     "transposed": False},
                    {"kind": "zigzag", "nrows": 2, "ncols": 1000001, "transposed": True},
                    {"kind": "converge", "nrows": 1001, "ncols": 1000, "diagonal": True, "end_sink": False,
                     "transposed": False}]
    # small and medium sizes of the same families (cheap; the caps of a changed tree may be anywhere)
    for _ in range(ctx.scale(12, 60)):
        k = rng.choice(["line", "serpentine", "zigzag", "converge", "forest", "ring"])
        if k == "line":
            recipes.append(line(rng.choice([1, 2, 3, rng.randint(4, 300), rng.randint(300, 20000)])))
        elif k == "zigzag":
            recipes.append({"kind": k, "nrows": 2, "ncols": rng.randint(1, 5000), "transposed": rng.random() < 0.5})
        else:
            recipes.append({"kind": k, "nrows": rng.randint(2, 90), "ncols": rng.randint(3, 90),
                            "diagonal_turns": rng.random() < 0.5, "diagonal": rng.random() < 0.5,
                            "end_sink": rng.random() < 0.5, "transposed": rng.random() < 0.5,
                            "seed": rng.randrange(2 ** 31)})
    tbig = {}
    for rec in recipes:
        t0 = time.time()
        B = do_big(rec, budget)
        tbig[f"{rec['kind']} {B['nrows']}x{B['ncols']}"] = round(time.time() - t0, 2)
    ctx.notes["big_grid_seconds"] = dict(sorted(tbig.items(), key=lambda kv: -kv[1])[:8])
    ctx.notes["big_grid_recipes"] = len(recipes)
    phase("large grids / default options")

    # ---- exhaustive tiny grids
    shapes = [(1, 1), (1, 2), (2, 1), (1, 3), (3, 1)]
    for (nrows, ncols) in shapes:
        n = nrows * ncols
        for fd in itertools.product(VALUES, repeat=n):
            subsets = [s for r in range(n + 1) for s in itertools.combinations(range(n), r)]
            # the same sets written with cells listed more than once / in another order
            if rng.random() < 0.5:
                subsets.append(tuple(inlet_seq(rng, n, p_repeat=0.8)))
            do_grid(nrows, ncols, list(fd), range(n), subsets, [n + 2], full=True, dtypes=False)
    for (nrows, ncols) in [(2, 2), (1, 4), (4, 1)]:
        for _ in range(ctx.scale(150, 1500)):
            fd = [rng.choice(VALUES) for _ in range(4)]
            subsets = [(), tuple(inlet_seq(rng, 4, kmax=2, p_repeat=0.5))]
            do_grid(nrows, ncols, fd, range(4), subsets, [rng.choice([1, 2, 3, 4, 6])], full=True)
    phase("exhaustive and sampled tiny grids")
    # ---- random grids
    S = ctx.scale(8, 20)
    for it in range(ctx.scale(120, 1200)):
        nrows = rng.choice([1, 2, 2, 3, rng.randint(1, S)])
        ncols = rng.choice([1, 2, 2, 3, rng.randint(1, S)])
        n = nrows * ncols
        fd = rand_grid(rng, nrows, ncols)
        # invalid codes that a narrower integer type, a mask or a table lookup would take for a valid one:
        # a valid code (or the sink) plus a multiple of 2^8 / 2^16 / 2^32, and the neighbours of the codes
        alias = rng.random() < 0.15
        if alias:
            fd = list(fd)
            for _ in range(rng.randint(1, max(1, n // 3))):
                off = rng.choice([256, 512, -256, 1 << 16, -(1 << 16), 1 << 32, -(1 << 32), 1 << 40, 0])
                fd[rng.randrange(n)] = (rng.choice(CODES + [0]) + off) if off else \
                    rng.choice([-1, 3, 5, 127, 129, 255, 256, 2 ** 31, -2 ** 31, 2 ** 62])
        # outlets: prefer cells with many upstream cells
        outlets = good_outlets(rng, fd, nrows, ncols)
        inlet_sets = [None, tuple(rng.sample(range(n), min(n, rng.randint(1, 3))))]
        # a list with repeated entries / in any order, preferably of cells that drain to the first outlets
        ups = sorted(o_area(fd, nrows, ncols, outlets[0], [])[0]) if rng.random() < 0.7 else None
        inlet_sets.append(tuple(inlet_seq(rng, n, pool=ups, kmax=4, p_repeat=0.6)))
        nvals = [n + 2, rng.choice([1, 2, 3, max(2, n // 2), n, n + 1])]
        do_grid(nrows, ncols, fd, outlets, inlet_sets, nvals, full=(it % 3 == 0), dtypes=not alias)
        # rivers
        for _ in range(2):
            start = rng.randrange(n)
            nval = rng.choice([1, 2, 3, n, n + 5])
            geo = rng.choice([(0., 0., 1.), (10.5, -3.25, 0.25), (rng.uniform(-50, 50), rng.uniform(-50, 50), 10 ** rng.uniform(-2, 2))])
            river_call(nrows, ncols, fd, geo, start, nval)
        if it % 3 == 1:
            # default options on the same grid (chains that run into a cycle end in a bounded trace)
            river_vec(big_info({"kind": "given", "nrows": nrows, "ncols": ncols, "flowdir": fd}),
                      rng.randrange(n), None)
    phase("random grids")
    # ---- sessions: several objects / grids alive at once, everything read again after every step
    for it in range(ctx.scale(150, 1500)):
        do_session(gen_session(rng, S))

    phase("sessions")
    bad, nshards, failed = cm.run_case_files(PID, HEADER, "ccase", "c_ok", terms, shard=3000, max_bytes=400000)
    phase("correspondence case files")
    ctx.notes["phase_s"] = phase_s
    ctx.notes["correspondence_cases"] = len(terms)
    ctx.notes["correspondence_mismatches"] = len(bad)
    ctx.notes["read_again"] = stats
    for k in range(nshards):
        ctx.obligation(f"Cases_{PID}_{k}.agree (model = implementation on the shard)", True)
    cm.settle(ctx, proved, bad, failed, orc_fail, lambda i: replays[i],
              "Model/Grid.v + Model/Catchment.v vs c_grid.c/c_catchment.c + grid.py")
    return ctx.finish()
