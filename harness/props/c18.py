"""C18 - computations leave their arguments untouched and are repeatable.

Three parts (DESIGN 5/C18; "partial by nature"):

 1. theorems about the provenance / copy-discipline model of the wrappers in
    front of the C kernels (coq/Model/Alias.v, coq/Props/C18.v), with the
    kernels' write-sets, the Cython buffer contracts and the list of kernel
    call sites re-extracted from the working tree (harness/extractors/c18.py);
 2. correspondence, checked inside Coq: (a) each conversion idiom of the model
    (astype, np.array, atleast_nd, ascontiguousarray, .values, mask, slice, .T,
    arithmetic ...) applied in numpy/pandas to every input class - result
    descriptor and np.shares_memory against the model's view/copy verdict;
    (b) every kernel entry point is wrapped from outside; for each public
    wrapper and input class the descriptor of every array handed to a kernel,
    the memory it shares (caller argument / grid cells / object state / module
    constant / fresh), whether Cython accepted it - against the model's
    pipeline; and the parameters a kernel was *seen* to modify must be in the
    extracted write-set;
 3. the search that decides the bulk of the property, independent of the model:
    every public function of the property's list x input classes (C-contiguous,
    strided, Fortran; float64/float32/int64/int32; ndarray / pandas / list):
    bit-for-bit snapshots of every argument (and of the buffer a strided view
    lives in) before/after the call, and two consecutive calls under the same
    numpy seed compared exactly; the same on VALUE CLASSES of the samples handed
    over (section "Value classes": ties, censored, rounded, zeros, a constant
    variable, repeated observations, missing / infinite values, negative values,
    extreme magnitudes, 1-3 and hundreds of observations; pandas inputs with a
    time index) for the input classes in which a function can receive the
    caller's own float64 memory, and on further combinations of options
    (OPTION_VARIANTS);
 4. object histories (the quantifier's "histories"; section "object histories"
    below): ONE Grid / Catchment taken through a random sequence of its public
    operations (state-defining calls, derived-state calls, observers, grid-level
    functions, input classes as in 3): after every step every array the caller
    holds - arguments of this and of every earlier call, arrays taken from the
    accessors of the object for the attributes the operation does not define -
    is bit-for-bit unchanged; the same call at two points of the history with
    nothing it reads redefined in between, and on a fresh object that received
    only the state-defining calls, returns exactly the same result.
A call that raises for an input class is not a failure of this property."""
import contextlib
import copy
import ctypes
import math
import os
import random
import re
import struct
import warnings

import numpy as np

from harness import common as cm

PID = "C18"
HEADER = ("From Coq Require Import ZArith List String.\n"
          "From Hy Require Import Base.Num Gen.ConstsC18 Model.Alias.\n"
          "Open Scope string_scope.")

@contextlib.contextmanager
def quiet_stdout():
    """the kernels printf progress lines: keep them out of the check's output"""
    import sys
    sys.stdout.flush()
    libc = ctypes.CDLL(None)
    saved = os.dup(1)
    null = os.open(os.devnull, os.O_WRONLY)
    try:
        os.dup2(null, 1)
        yield
    finally:
        try:
            libc.fflush(None)
        except Exception:
            pass
        sys.stdout.flush()
        os.dup2(saved, 1)
        os.close(saved)
        os.close(null)


# --------------------------------------------------------------------------
# input classes

NPDT = {"f8": np.float64, "f4": np.float32, "i8": np.int64, "i4": np.int32, "b1": np.bool_}
COQDT = {"f8": "DF64", "f4": "DF32", "i8": "DI64", "i4": "DI32", "b1": "DBool"}
DT_OF_NP = {np.dtype(v).str: k for k, v in NPDT.items()}

# (container, dtype, layout): the six classes of the DESIGN first, then extras
CLASSES = [("nd", "f8", "C"), ("nd", "f8", "S"), ("nd", "i8", "C"), ("nd", "i8", "S"),
           ("pd", "f8", "C"), ("pd", "i8", "C"),
           ("nd", "f8", "F"), ("nd", "f4", "C"), ("nd", "i4", "S"), ("list", "f8", "C"),
           ("list", "i8", "C"), ("pd", "f4", "C")]


class Arr:
    """An array-valued argument in its reference form (float64, C order); the
    input class decides dtype, memory layout and container."""

    def __init__(self, a, ints=False, containers=("nd", "pd", "list"), nan_at=None, data=None):
        self.a = np.array(a, dtype=np.float64)
        self.ints = ints
        self.containers = containers
        self.nan_at = nan_at          # flat position that becomes NaN in the float classes
        # a sample of observations (the value classes below apply) as opposed to a structural argument
        # (cell numbers, categories, model parameters, polygon vertices ...)
        self.data = (not ints) if data is None else data


# Value classes: WHAT the observations look like, orthogonal to the input class (container / dtype /
# layout).  Real hydrological samples are full of repeated values (rounded gauge readings, censored
# flows, dry-spell zeros, missing data); code in front of a kernel / scipy often treats exactly those
# specially (jitter against ties, masks of zeros / NaN, rank computations, early exits on constant
# input).  Each class keeps the sample inside the values' own range where it can, so that the call
# stays legal; a call that raises for a class is skipped as for the input classes.
#   ties      a third of the observations of (at least) one variable are copies of other observations
#   censored  one variable censored from below / above at one of its own quantiles
#   rounded   one variable rounded to 0 / 1 decimals
#   zeros     a quarter of one variable exactly 0.0 (sometimes -0.0)
#   constant  one variable constant
#   duprows   whole observations (all variables) repeated
#   nans      missing values first, last and in a quarter of the positions (float classes)
#   infs      a +inf and a -inf among the values of one variable (float classes)
#   shifted   median subtracted: an exact zero, half of the values negative
#   scaled    everything times 2**-40 / 2**40 (thorough: also 2**-300 / 2**300): exact, keeps ties
#   small     n = 1, 2, 3 observations;  large  n = 600 (thorough 1500) observations
VCLASSES = ("ties", "censored", "rounded", "zeros", "constant", "duprows", "nans", "infs", "shifted", "scaled",
            "small", "large")
_VC = {"vc": None, "key": "", "used": False, "thorough": False}    # value class of the call being built


def shape_values(a, vc, vrng, floats=True):
    """the float64 reference values `a` re-shaped into value class `vc` (same shape)"""
    a = np.array(a, dtype=np.float64)
    if vc in (None, "small", "large") or a.ndim == 0 or a.size < 2:
        return a
    if vc == "scaled":
        return a * 2.0 ** vrng.choice([-40, 40, -300, 300] if _VC["thorough"] else [-40, 40])
    flip = a.ndim == 2 and a.shape[1] > a.shape[0]          # observations along the longer axis
    ref = a.T if flip else a
    m = ref.reshape(ref.shape[0], -1).copy()                 # (observations, variables)
    n, p = m.shape
    if n < 2:
        return a
    if vc == "duprows":
        idx = vrng.sample(range(n), max(1, n // 3))
        rest = [i for i in range(n) if i not in idx]
        for i in idx:
            m[i, :] = m[vrng.choice(rest), :]
    else:
        cols = [j for j in range(p) if vrng.random() < 0.5] or [vrng.randrange(p)]
        for j in cols:
            c = m[:, j]
            if vc == "ties":
                idx = vrng.sample(range(n), max(1, n // 3))
                rest = [i for i in range(n) if i not in idx]
                for i in idx:
                    c[i] = c[vrng.choice(rest)]
            elif vc == "censored":
                srt = np.sort(c)
                if vrng.random() < 0.5:
                    c[:] = np.maximum(c, srt[n // 3])
                else:
                    c[:] = np.minimum(c, srt[(2 * n) // 3])
            elif vc == "rounded":
                lo, hi = c.min(), c.max()
                c[:] = np.clip(np.round(c, 0 if hi - lo > 4 else 1), lo, hi)
            elif vc == "zeros":
                idx = vrng.sample(range(n), max(1, n // 4))
                c[idx] = 0.0
                if floats and vrng.random() < 0.3:
                    c[idx[0]] = -0.0
            elif vc == "constant":
                c[:] = c[vrng.randrange(n)]
            elif vc == "nans":
                if floats:
                    c[[0, n - 1] + vrng.sample(range(n), n // 4)] = np.nan
            elif vc == "infs":
                if floats:
                    i, k = vrng.sample(range(n), 2)
                    c[i], c[k] = np.inf, -np.inf
            elif vc == "shifted":
                c[:] = c - np.sort(c)[n // 2]
            else:
                raise ValueError(vc)
    out = m.reshape(ref.shape)
    return np.ascontiguousarray(out.T) if flip else out


def vc_shape(values, rng, floats=True):
    """for builders that make their own containers (grids, time series): the value class of the
    call being built applied to `values`"""
    _VC["used"] = True
    if _VC["vc"] is None:
        return np.array(values, dtype=np.float64)
    return shape_values(values, _VC["vc"], random.Random(f"vc:{_VC['vc']}:{_VC['key']}:{rng.random()}"), floats)


def convert(arr, cls, argname="", vc=None, vkey=""):
    """-> (object handed to the function, list of buffers that must not change)"""
    if cls[0] == "mix":       # an independently drawn class for every argument
        cls = CLASSES[random.Random(f"{cls[1]}:{argname}").randrange(len(CLASSES))]
    cont, dt, lay = cls
    a = arr.a
    vrng = None
    if vc is not None and arr.data:
        vrng = random.Random(f"vc:{vc}:{vkey}:{argname}")
        a = shape_values(a, vc, vrng, floats=dt in ("f8", "f4"))
    if arr.nan_at is not None and dt in ("f8", "f4") and a.size:
        a = a.copy()
        a.flat[arr.nan_at % a.size] = np.nan
    if dt in ("i8", "i4") or arr.ints:
        a = np.round(a)
    a = a.astype(NPDT[dt])
    if cont not in arr.containers:
        cont = "nd"
    if cont == "list":
        return a.tolist(), []
    if cont == "pd":
        import pandas as pd
        # value-class runs: half of the pandas inputs carry a daily time index instead of 0..n-1
        index = (pd.date_range("2001-03-01", periods=a.shape[0], freq="D")
                 if vrng is not None and a.ndim in (1, 2) and vrng.random() < 0.5 else None)
        if a.ndim == 1:
            return pd.Series(a.copy(), index=index), []
        if a.ndim == 2:
            return pd.DataFrame(a.copy(), index=index, columns=[f"c{j}" for j in range(a.shape[1])]), []
        return a.copy(), []
    if lay == "S" and a.ndim in (1, 2):
        shape = tuple(2 * s + 1 for s in a.shape)
        big = np.full(shape, 7, dtype=a.dtype)
        sl = tuple(slice(1, None, 2) for _ in a.shape)
        big[sl] = a
        return big[sl], [big]
    if lay == "F" and a.ndim == 2:
        return np.asfortranarray(a), []
    if lay == "F" and a.ndim == 1:
        big = a[::-1].copy()
        return big[::-1], [big]
    return a.copy(), []


# --------------------------------------------------------------------------
# snapshots (bit-for-bit) and canonical forms of results

def _bits(a):
    a = np.asarray(a)
    if a.dtype == object:
        return repr(a.tolist()).encode()
    return np.ascontiguousarray(a).tobytes()


def snap(obj, depth=0):
    import pandas as pd
    if depth > 4:
        return None
    if isinstance(obj, np.ndarray):
        return ("nd", obj.dtype.str, obj.shape, _bits(obj))
    if isinstance(obj, pd.Series):
        return ("se", str(obj.dtype), obj.shape, _bits(obj.to_numpy()), _bits(obj.index.to_numpy()))
    if isinstance(obj, pd.DataFrame):
        return ("df", tuple(str(t) for t in obj.dtypes), obj.shape,
                tuple(_bits(obj.iloc[:, j].to_numpy()) for j in range(obj.shape[1])),
                tuple(str(c) for c in obj.columns), _bits(obj.index.to_numpy()))
    if isinstance(obj, pd.Index):
        return ("ix", str(obj.dtype), obj.shape, _bits(obj.to_numpy()))
    tn = type(obj).__name__
    if tn == "Grid" and hasattr(obj, "_data"):
        d = obj._data
        return ("grid", d.shape, _bits(np.asarray(d, dtype=np.float64)))
    if tn == "Catchment" and hasattr(obj, "_flowdir"):
        return ("catchment", snap(obj._flowdir, depth + 1))
    if isinstance(obj, (list, tuple)):
        return ("seq", type(obj).__name__, tuple(snap(o, depth + 1) for o in obj))
    if isinstance(obj, dict):
        return ("dict", tuple((str(k), snap(v, depth + 1)) for k, v in obj.items()))
    if isinstance(obj, (bool, int, str, type(None))):
        return ("py", repr(obj))
    if isinstance(obj, (float, np.generic)):
        return ("py", type(obj).__name__, _bits(np.asarray(obj)))
    return None


def snap_diff(before, after):
    """which aspect differs: dtype / shape / values / labels (None = identical)"""
    if before == after:
        return None
    if before is None or after is None or before[0] != after[0]:
        return "type"
    k = before[0]
    if k in ("nd", "se", "ix"):
        if before[1] != after[1]:
            return "dtype"
        if before[2] != after[2]:
            return "shape"
        if before[3] != after[3]:
            return "values"
        return "labels"
    if k == "df":
        if before[2] != after[2] or before[4] != after[4]:
            return "shape"
        if before[1] != after[1]:
            return "dtype"
        if before[3] != after[3]:
            return "values"
        return "labels"
    if k == "grid":
        return "shape" if before[1] != after[1] else "values"
    if k == "catchment":
        return snap_diff(before[1], after[1])
    if k == "seq":
        if len(before[2]) != len(after[2]):
            return "shape"
        for b, a in zip(before[2], after[2]):
            d = snap_diff(b, a)
            if d:
                return d
    if k == "dict":
        if len(before[1]) != len(after[1]):
            return "shape"
        for (kb, b), (ka, a) in zip(before[1], after[1]):
            if kb != ka:
                return "shape"
            d = snap_diff(b, a)
            if d:
                return d
    return "values"


def canon(x, depth=0):
    """canonical, exactly comparable form of a result"""
    import pandas as pd
    if depth > 6:
        return ("deep",)
    s = snap(x) if isinstance(x, (np.ndarray, pd.Series, pd.DataFrame, pd.Index)) else None
    if s is not None:
        return s
    tn = type(x).__name__
    if tn == "Grid" and hasattr(x, "_data"):
        return ("grid", snap(x._data), float(x.xllcorner), float(x.yllcorner), float(x.cellsize),
                int(x.nrows), int(x.ncols))
    if tn == "Catchment":
        return ("catchment", tuple(canon(getattr(x, a, None), depth + 1) for a in
                                   ("_idxcell_outlet", "_idxinlets", "_idxcells_area", "_idxcells_area_filled",
                                    "_idxcells_boundary", "_xycells_boundary", "_flowpathlengths")))
    if isinstance(x, (list, tuple)):
        return ("seq", tuple(canon(o, depth + 1) for o in x))
    if isinstance(x, dict):
        return ("dict", tuple(sorted(((str(k), canon(v, depth + 1)) for k, v in x.items()), key=lambda t: t[0])))
    if isinstance(x, (bool, int, str, type(None))):
        return ("py", repr(x))
    if isinstance(x, (float, np.generic)):
        return ("num", np.asarray(x).dtype.str, _bits(np.asarray(x)))
    return ("obj", tn)


def short(x, n=6):
    try:
        import pandas as pd
        if isinstance(x, np.ndarray):
            return {"dtype": str(x.dtype), "shape": list(x.shape), "head": np.asarray(x).ravel()[:n].tolist()}
        if isinstance(x, pd.Series):
            return {"series": str(x.dtype), "head": x.to_numpy()[:n].tolist()}
        if isinstance(x, pd.DataFrame):
            return {"frame": [str(c) for c in x.columns], "shape": list(x.shape),
                    "head": x.to_numpy()[:2].tolist()}
        if isinstance(x, (list, tuple)):
            return [short(o, n) for o in list(x)[:4]]
        if type(x).__name__ == "Grid":
            return {"grid": short(x._data)}
    except Exception:
        pass
    return repr(x)[:80]


# --------------------------------------------------------------------------
# catalogue of public functions (property's quantifier)

class Spec:
    def __init__(self, name, build, call, site=None, margs=(), selfkind=None, seeded=False,
                 classes=None, state=None, skipargs=()):
        self.name, self.build, self.call = name, build, call
        self.site, self.margs, self.selfkind = site, tuple(margs), selfkind
        self.seeded, self.classes, self.state = seeded, classes, state
        self.skipargs = set(skipargs)      # documented output buffers


def _flow_grid(rng, nrows, ncols):
    """acyclic flow directions (ESRI codes) by descending random heights"""
    esri = {32: (-1, -1), 64: (-1, 0), 128: (-1, 1), 16: (0, -1), 1: (0, 1), 8: (1, -1), 4: (1, 0), 2: (1, 1)}
    h = [[rng.random() + 0.3 * (r + c) for c in range(ncols)] for r in range(nrows)]
    fd = np.zeros((nrows, ncols))
    for r in range(nrows):
        for c in range(ncols):
            opts = [code for code, (dr, dc) in esri.items()
                    if 0 <= r + dr < nrows and 0 <= c + dc < ncols and h[r + dr][c + dc] < h[r][c]]
            fd[r, c] = rng.choice(opts) if opts else 0
    return fd


def build_catalogue(ctx):
    """list of Spec; every `build(rng, n)` returns a dict of arguments; values
    that are `Arr` are converted according to the input class."""
    import pandas as pd
    from hydrodiy.stat import metrics, sutils, armodels, transform
    from hydrodiy.data import dutils, qualitycontrol, signatures
    from hydrodiy.gis import grid as hygrid, gutils
    S = []

    def vec(rng, n, kind="normal"):
        if kind == "normal":
            return [rng.gauss(0, 2) for _ in range(n)]
        if kind == "pos":
            return [rng.uniform(0.5, 9.5) for _ in range(n)]
        if kind == "posint":
            return [float(rng.randint(1, 9)) for _ in range(n)]
        if kind == "unit":
            return [rng.uniform(0.02, 0.98) for _ in range(n)]
        if kind == "cat2":
            return [float(rng.random() < 0.5) for _ in range(n)]
        raise ValueError(kind)

    def mat(rng, n, p, kind="normal"):
        return [vec(rng, p, kind) for _ in range(n)]

    def maybe(rng, n):
        return rng.randrange(n) if rng.random() < 0.3 else None

    def obs_ens(rng, n, p=5, kind="pos"):
        return {"obs": Arr(vec(rng, n, kind), nan_at=maybe(rng, n)), "ens": Arr(mat(rng, n, p, kind), nan_at=maybe(rng, n * p))}

    def obs_sim(rng, n, kind="pos"):
        if kind == "pos" and rng.random() < 0.4:
            kind = "normal"      # series with negative values (censoring / masking code paths)
        return {"obs": Arr(vec(rng, n, kind), nan_at=maybe(rng, n)), "sim": Arr(vec(rng, n, kind), nan_at=maybe(rng, n))}

    # ---------------- stat.metrics
    S.append(Spec("metrics.pit", obs_ens, lambda a: metrics.pit(a["obs"], a["ens"])))
    S.append(Spec("metrics.pit[random]", obs_ens, lambda a: metrics.pit(a["obs"], a["ens"], random=True), seeded=True))
    for kd in ("weak", "strict", "mean"):
        S.append(Spec(f"metrics.pit[kind={kd},censor]", obs_ens,
                      lambda a, kd=kd: metrics.pit(a["obs"], a["ens"], kind=kd, censor=3.0)))
    S.append(Spec("metrics.pit[random,censor]", obs_ens,
                  lambda a: metrics.pit(a["obs"], a["ens"], random=True, cst=0.4, censor=3.0), seeded=True))
    S.append(Spec("metrics.crps", obs_ens, lambda a: metrics.crps(a["obs"], a["ens"]),
                  site="metrics.crps", margs=("obs", "ens")))
    S.append(Spec("metrics.anderson_darling_test", lambda rng, n: {"unifdata": Arr(vec(rng, n, "unit"))},
                  lambda a: metrics.anderson_darling_test(a["unifdata"]),
                  site="metrics.anderson_darling_test", margs=("unifdata",)))
    S.append(Spec("metrics.cramer_von_mises_test", lambda rng, n: {"data": Arr(vec(rng, n, "unit"))},
                  lambda a: metrics.cramer_von_mises_test(a["data"])))
    for tp in ("CV", "KS", "AD"):
        S.append(Spec(f"metrics.alpha[{tp}]", obs_ens,
                      lambda a, tp=tp: metrics.alpha(a["obs"], a["ens"], type=tp), seeded=True,
                      site="metrics.alpha" if tp == "AD" else None, margs=("obs", "ens")))
    S.append(Spec("metrics.alpha[KS,sudo_perc_threshold]", lambda rng, n: obs_ens(rng, n, kind="normal"),
                  lambda a: metrics.alpha(a["obs"], a["ens"], type="KS", sudo_perc_threshold=60), seeded=True))
    S.append(Spec("metrics.iqr[coverage]", lambda rng, n: {"ens": Arr(mat(rng, n, 6, "pos")), "ref": Arr(mat(rng, n, 7, "pos"))},
                  lambda a: metrics.iqr(a["ens"], a["ref"], coverage=80.)))
    S.append(Spec("metrics.iqr", lambda rng, n: {"ens": Arr(mat(rng, n, 6, "pos")), "ref": Arr(mat(rng, n, 7, "pos"))},
                  lambda a: metrics.iqr(a["ens"], a["ref"])))
    for nm, fn in (("bias", metrics.bias), ("nse", metrics.nse), ("kge", metrics.kge)):
        S.append(Spec(f"metrics.{nm}", obs_sim, lambda a, fn=fn: fn(a["obs"], a["sim"])))
        S.append(Spec(f"metrics.{nm}[log,excludenull]", obs_sim,
                      lambda a, fn=fn: fn(a["obs"], a["sim"], trans=transform.get_transform("Log", nu=0.5),
                                          excludenull=True)))
    S.append(Spec("metrics.bias[normalised]", obs_sim, lambda a: metrics.bias(a["obs"], a["sim"], type="normalised")))
    S.append(Spec("metrics.dscore", lambda rng, n: {"obs": Arr(vec(rng, n, "pos")), "sim": Arr(mat(rng, n, 4, "pos"))},
                  lambda a: metrics.dscore(a["obs"], a["sim"]), site="metrics.dscore", margs=("obs", "sim")))
    S.append(Spec("metrics.dscore[deterministic]", obs_sim, lambda a: metrics.dscore(a["obs"], np.atleast_2d(a["sim"]).T
                                                                                       if not isinstance(a["sim"], list) else a["sim"])))
    for tp in ("Pearson", "Spearman"):
        S.append(Spec(f"metrics.corr[{tp}]", obs_ens,
                      lambda a, tp=tp: metrics.corr(a["obs"], a["ens"], type=tp, stat="mean", excludenull=True)))
    S.append(Spec("metrics.corr[censor,median]", obs_ens,
                  lambda a: metrics.corr(a["obs"], a["ens"], type="Spearman", stat="median", censor=3.0,
                                         trans=transform.get_transform("Log", nu=0.5))))
    S.append(Spec("metrics.dscore[eps]", lambda rng, n: {"obs": Arr(vec(rng, n, "pos")), "sim": Arr(mat(rng, n, 4, "pos"))},
                  lambda a: metrics.dscore(a["obs"], a["sim"], eps=0.5)))
    S.append(Spec("metrics.absolute_peak_error[neventmax]", lambda rng, n: obs_sim(rng, max(n, 40)),
                  lambda a: metrics.absolute_peak_error(a["obs"], a["sim"], winerase=3, winpeakbefore=1,
                                                        winpeakafter=1, neventmax=3)))
    S.append(Spec("metrics.absolute_peak_error", lambda rng, n: obs_sim(rng, max(n, 40)),
                  lambda a: metrics.absolute_peak_error(a["obs"], a["sim"], winerase=6, winpeakbefore=2,
                                                        winpeakafter=3)))
    S.append(Spec("metrics.relative_percentile_error", obs_sim,
                  lambda a: metrics.relative_percentile_error(a["obs"], a["sim"], [10, 90], neval=7)))
    S.append(Spec("metrics.relative_percentile_error[modified]", obs_sim,
                  lambda a: metrics.relative_percentile_error(a["obs"], a["sim"], [5, 95], modified=True, neval=5)))
    S.append(Spec("metrics.confusion_matrix", lambda rng, n: {"obs": Arr(vec(rng, n, "cat2"), ints=True),
                                                                "sim": Arr(vec(rng, n, "cat2"), ints=True)},
                  lambda a: metrics.confusion_matrix(a["obs"], a["sim"])))
    S.append(Spec("metrics.binary", lambda rng, n: {"conf_mat": Arr([[rng.randint(5, 40), rng.randint(1, 9)],
                                                                      [rng.randint(1, 9), rng.randint(5, 40)]],
                                                                     ints=True)},
                  lambda a: metrics.binary(a["conf_mat"])))

    # ---------------- stat.sutils
    S.append(Spec("sutils.acf", lambda rng, n: {"data": Arr(vec(rng, n))},
                  lambda a: sutils.acf(a["data"], maxlag=3)))
    S.append(Spec("sutils.acf[idx]", lambda rng, n: {"data": Arr(vec(rng, n)), "idx": np.array([rng.random() < 0.8 for _ in range(n)])},
                  lambda a: sutils.acf(a["data"], maxlag=2, idx=a["idx"])))
    S.append(Spec("sutils.lhs", lambda rng, n: {"pmin": Arr([0., -1., 2.], data=False), "pmax": Arr([1., 3., 5.], data=False)},
                  lambda a: sutils.lhs(7, a["pmin"], a["pmax"]), seeded=True))
    S.append(Spec("sutils.lhs_norm", lambda rng, n: {"mean": Arr([0., 1.], containers=("nd",), data=False),
                                                      "cov": Arr([[2., 0.5], [0.5, 1.]], data=False)},
                  lambda a: sutils.lhs_norm(9, a["mean"], a["cov"]), seeded=True))
    S.append(Spec("sutils.standard_normal", lambda rng, n: {"x": Arr(vec(rng, n))},
                  lambda a: sutils.standard_normal(a["x"])))
    for rm in ("min", "first", "dense"):
        S.append(Spec(f"sutils.standard_normal[rank_method={rm}]", lambda rng, n: {"x": Arr(vec(rng, n))},
                      lambda a, rm=rm: sutils.standard_normal(a["x"], cst=0.3, rank_method=rm)))
    S.append(Spec("sutils.standard_normal[sorted]", lambda rng, n: {"x": Arr(sorted(vec(rng, n)))},
                  lambda a: sutils.standard_normal(a["x"], sorted=True)))
    S.append(Spec("sutils.pareto_front[orientation=-1]", lambda rng, n: {"data": Arr(mat(rng, n, 3, "posint"))},
                  lambda a: sutils.pareto_front(a["data"], orientation=-1)))
    S.append(Spec("sutils.lstsq[Rtest,rtest]",
                  lambda rng, n: {"X": Arr(mat(rng, max(n, 12), 2, "pos")), "y": Arr(vec(rng, max(n, 12), "pos")),
                                  "R": Arr([[1., 1., 0.]], data=False, containers=("nd",)),
                                  "r": Arr([1.], data=False, containers=("nd",))},
                  lambda a: sutils.lstsq(a["X"], a["y"], add_intercept=True, Rtest=[a["R"]], rtest=[a["r"]], rcond=1e-8)))
    S.append(Spec("sutils.semicorr", lambda rng, n: {"unorm": Arr(mat(rng, max(n, 30), 2))},
                  lambda a: sutils.semicorr(a["unorm"])))
    S.append(Spec("sutils.pareto_front", lambda rng, n: {"data": Arr(mat(rng, n, 3, "posint"))},
                  lambda a: sutils.pareto_front(a["data"]), site="sutils.pareto_front", margs=("data",)))
    for ai in (False, True):
        S.append(Spec(f"sutils.lstsq[add_intercept={ai}]",
                      lambda rng, n: {"X": Arr(mat(rng, max(n, 12), 2, "pos")), "y": Arr(vec(rng, max(n, 12), "pos"))},
                      lambda a, ai=ai: sutils.lstsq(a["X"], a["y"], add_intercept=ai)))

    # ---------------- stat.armodels
    S.append(Spec("armodels.armodel_sim", lambda rng, n: {"params": Arr([0.5, -0.25], data=False), "innov": Arr(vec(rng, n))},
                  lambda a: armodels.armodel_sim(a["params"], a["innov"], 0.5, 1.0),
                  site="armodels.armodel_sim", margs=("params", "innov")))
    S.append(Spec("armodels.armodel_residual", lambda rng, n: {"params": Arr([0.5, -0.25], data=False), "inputs": Arr(vec(rng, n))},
                  lambda a: armodels.armodel_residual(a["params"], a["inputs"]),
                  site="armodels.armodel_residual", margs=("params", "inputs")))
    S.append(Spec("armodels.armodel_sim[sim_ini]", lambda rng, n: {"params": Arr([0.5, -0.25], data=False),
                                                                    "innov": Arr(vec(rng, n), nan_at=maybe(rng, n))},
                  lambda a: armodels.armodel_sim(a["params"], a["innov"], 0.5, sim_ini=2.0)))
    S.append(Spec("armodels.armodel_residual[sim_mean,sim_ini]",
                  lambda rng, n: {"params": Arr([0.5, -0.25], data=False), "inputs": Arr(vec(rng, n), nan_at=maybe(rng, n))},
                  lambda a: armodels.armodel_residual(a["params"], a["inputs"], sim_mean=0.3, sim_ini=1.0)))
    S.append(Spec("armodels.armodel_sim[scalar params]", lambda rng, n: {"innov": Arr(vec(rng, n))},
                  lambda a: armodels.armodel_sim(0.6, a["innov"])))
    S.append(Spec("armodels.yule_walker", lambda rng, n: {"acf": Arr([1., 0.5, 0.25, 0.125], data=False)},
                  lambda a: armodels.yule_walker(a["acf"])))

    # ---------------- stat.transform
    tsetup = {
        "Identity": {}, "Logit": {"lower": 0., "logdelta": math.log(12.)}, "Log": {"nu": 0.5},
        "BoxCox2": {"nu": 0.5, "lam": 0.3}, "BoxCox1lam": {"nu": 0.5, "lam": 0.3},
        "BoxCox1nu": {"nu": 0.5, "lam": 0.3}, "BoxCox2sym": {"nu": 0.5, "lam": 0.3},
        "YeoJohnson": {"nu": 0.1, "scale": 1.5, "lam": 0.7}, "Reciprocal": {"nu": 0.5},
        "Sinh": {"nu": 0.2, "scale": 1.5}, "LogSinh": {"loga": -1., "logb": 0.5, "xmax": 10.},
        "Manly": {"lam": 0.3, "xmax": 10.}, "Softmax": {}}
    for tn, kw in tsetup.items():
        def mk(tn=tn, kw=kw):
            return transform.get_transform(tn, **dict(kw))
        if tn == "Softmax":
            def bx(rng, n):
                return {"x": Arr([[rng.uniform(0.02, 0.3) for _ in range(3)] for _ in range(n)])}
        else:
            def bx(rng, n):
                return {"x": Arr(vec(rng, n, "pos"))}
        S.append(Spec(f"transform.{tn}.forward", bx, lambda a, mk=mk: mk().forward(a["x"])))
        S.append(Spec(f"transform.{tn}.jacobian", bx, lambda a, mk=mk: mk().jacobian(a["x"])))

        def by(rng, n, mk=mk, bx=bx):
            x = bx(rng, n)["x"].a
            with np.errstate(all="ignore"):
                y = np.asarray(mk().forward(x), dtype=np.float64)
            return {"y": Arr(np.where(np.isfinite(y), y, 0.5))}
        S.append(Spec(f"transform.{tn}.backward", by, lambda a, mk=mk: mk().backward(a["y"])))
        if tn != "Softmax":
            S.append(Spec(f"transform.{tn}.backward_censored", by,
                          lambda a, mk=mk: mk().backward_censored(a["y"], censor=1.0)))
        S.append(Spec(f"transform.{tn}.params_logprior", lambda rng, n: {},
                      lambda a, mk=mk: mk().params_logprior(), classes=[("nd", "f8", "C")]))
        S.append(Spec(f"transform.{tn}.params_sample", lambda rng, n: {},
                      lambda a, mk=mk: mk().params_sample(11), seeded=True, classes=[("nd", "f8", "C")]))

    # ---------------- data.dutils
    S.append(Spec("dutils.sequence_true", lambda rng, n: {"values": Arr(vec(rng, n, "cat2"), ints=True)},
                  lambda a: dutils.sequence_true(a["values"])))
    S.append(Spec("dutils.sequence_true[bool]", lambda rng, n: {"values": np.array([rng.random() < 0.5 for _ in range(n)])},
                  lambda a: dutils.sequence_true(a["values"]), classes=[("nd", "f8", "C")]))
    S.append(Spec("dutils.cast", lambda rng, n: {"x": Arr(vec(rng, n, "posint")), "y": Arr(vec(rng, n, "posint"))},
                  lambda a: dutils.cast(a["x"], a["y"])))

    def days(rng, n, freq="D"):
        start = pd.Timestamp(2003, rng.randint(1, 12), rng.randint(1, 28))
        return pd.date_range(start, periods=n, freq=freq)
    S.append(Spec("dutils.dayofyear", lambda rng, n: {"days": days(rng, 400)},
                  lambda a: dutils.dayofyear(a["days"]), classes=[("nd", "f8", "C")]))
    for ts in ("D", "MS", "AS", "AS-JUL", "h"):
        S.append(Spec(f"dutils.compute_aggindex[{ts}]", lambda rng, n: {"time": days(rng, 90, "h" if ts == "h" else "D")},
                      lambda a, ts=ts: dutils.compute_aggindex(a["time"], ts), classes=[("nd", "f8", "C")]))

    def agg(rng, n):
        idx, k = [], 200001
        for _ in range(n):
            k += rng.random() < 0.3
            idx.append(float(k))
        v = vec(rng, n, "pos")
        if rng.random() < 0.5:
            v[rng.randrange(n)] = float("nan")
        return {"aggindex": Arr(idx, ints=True), "inputs": Arr(v)}
    for op in (0, 1, 2, 3):
        S.append(Spec(f"dutils.aggregate[op={op}]", agg,
                      lambda a, op=op: dutils.aggregate(a["aggindex"], a["inputs"], operator=op, maxnan=1),
                      site="dutils.aggregate", margs=("aggindex", "inputs")))
    S.append(Spec("dutils.flathomogen", agg, lambda a: dutils.flathomogen(a["aggindex"], a["inputs"], maxnan=1),
                  site="dutils.flathomogen", margs=("aggindex", "inputs")))
    for lg in (-2, 0, 3):
        S.append(Spec(f"dutils.lag[{lg}]", lambda rng, n: {"data": Arr(vec(rng, n))},
                      lambda a, lg=lg: dutils.lag(a["data"], lg)))
    S.append(Spec("dutils.lag[missing=]", lambda rng, n: {"data": Arr(vec(rng, n))},
                  lambda a: dutils.lag(a["data"], 2, missing=-999.)))
    S.append(Spec("dutils.lag[2d]", lambda rng, n: {"data": Arr(mat(rng, n, 3))}, lambda a: dutils.lag(a["data"], 1)))

    def monthly(rng, n, dt):
        idx = pd.date_range("2001-01-01", periods=30, freq="MS")
        v = np.round(vc_shape(vec(rng, 30, "pos"), rng, dt.startswith("f")) * 10)
        if dt.startswith("f") and rng.random() < 0.5:
            v[rng.randrange(30)] = np.nan
        return pd.Series(v.astype(NPDT[dt]), index=idx)
    for dt in ("f8", "i8"):
        S.append(Spec(f"dutils.water_year_end[{dt}]", lambda rng, n, dt=dt: {"x": monthly(rng, n, dt)},
                      lambda a: dutils.water_year_end(a["x"]), classes=[("pd", dt, "C")]))
        for interp in ("flat", "cubic"):
            S.append(Spec(f"dutils.monthly2daily[{interp},{dt}]", lambda rng, n, dt=dt: {"se": monthly(rng, n, dt)},
                          lambda a, interp=interp: dutils.monthly2daily(a["se"], interpolation=interp),
                          classes=[("pd", dt, "C")]))

        def irregular(rng, n, dt=dt):
            t = pd.Timestamp("2010-03-01 00:10:00")
            ts = []
            for _ in range(25):
                t = t + pd.Timedelta(minutes=rng.choice([7, 20, 45, 90, 180]))
                ts.append(t)
            idx = pd.DatetimeIndex(ts)
            if rng.random() < 0.5:
                idx = idx.as_unit("ns")
            v = vc_shape(vec(rng, 25, "pos"), rng, dt.startswith("f"))
            return {"se": pd.Series((v if dt.startswith("f") and _VC["vc"] else np.round(v)).astype(NPDT[dt]), index=idx)}
        for P in (3600, 1800):
            S.append(Spec(f"dutils.var2h[{P},{dt}]", irregular,
                          lambda a, P=P: dutils.var2h(a["se"], nbsec_per_period=P),
                          classes=[("pd", dt, "C")], site="dutils.var2h", margs=("se",)))

    # ---------------- data.qualitycontrol, data.signatures
    S.append(Spec("qualitycontrol.ismisscens", lambda rng, n: {"x": Arr([v if rng.random() < 0.8 else 0. for v in vec(rng, n, "pos")])},
                  lambda a: qualitycontrol.ismisscens(a["x"])))
    S.append(Spec("qualitycontrol.ismisscens[censor,eps]", lambda rng, n: {"x": Arr(vec(rng, n, "pos"), nan_at=maybe(rng, n))},
                  lambda a: qualitycontrol.ismisscens(a["x"], censor=4.0, eps=0.5)))
    S.append(Spec("qualitycontrol.ismisscens[2d]", lambda rng, n: {"x": Arr(mat(rng, n, 3, "pos"))},
                  lambda a: qualitycontrol.ismisscens(a["x"])))

    def lin(rng, n):
        v = vec(rng, n, "posint")
        for j in range(2, min(n, 7)):
            v[j] = v[1] + (j - 1) * 2.0
        return {"data": Arr(v, nan_at=(0 if rng.random() < 0.4 else None))}
    S.append(Spec("qualitycontrol.islinear", lin, lambda a: qualitycontrol.islinear(a["data"], npoints=1),
                  site="qualitycontrol.islinear", margs=("data",)))
    S.append(Spec("qualitycontrol.islinear[npoints=3,thresh]", lin,
                  lambda a: qualitycontrol.islinear(a["data"], npoints=3, tol=1e-3, thresh=2.0)))
    S.append(Spec("signatures.eckhardt[options]", lambda rng, n: {"flow": Arr(vec(rng, max(n, 30), "pos"))},
                  lambda a: signatures.eckhardt(a["flow"], thresh=0.9, tau=10, BFI_max=0.5, timestep_type=0)))
    S.append(Spec("signatures.fdcslope[trans]", lambda rng, n: {"x": Arr(vec(rng, max(n, 60), "pos"))},
                  lambda a: signatures.fdcslope(a["x"], q1=50, q2=90, trans=transform.get_transform("Log", nu=0.5))))
    S.append(Spec("signatures.goue[trans]", agg,
                  lambda a: signatures.goue(a["aggindex"], a["inputs"], trans=transform.get_transform("Log", nu=0.5))))
    S.append(Spec("signatures.eckhardt", lambda rng, n: {"flow": Arr(vec(rng, max(n, 30), "pos"))},
                  lambda a: signatures.eckhardt(a["flow"]), site="signatures.eckhardt", margs=("flow",)))
    S.append(Spec("signatures.fdcslope", lambda rng, n: {"x": Arr(vec(rng, max(n, 60), "pos"))},
                  lambda a: signatures.fdcslope(a["x"], q1=60, q2=95)))
    S.append(Spec("signatures.goue", agg, lambda a: signatures.goue(a["aggindex"], a["values"])
                  if "values" in a else signatures.goue(a["aggindex"], a["inputs"]),
                  site="signatures.goue", margs=("aggindex", "inputs")))

    # ---------------- gis
    def mkgrid(data, dt="f8", name="g", csz=1.0, xll=0., yll=0.):
        data = np.asarray(data, dtype=np.float64)
        g = hygrid.Grid(name, data.shape[1], data.shape[0], cellsize=csz, xllcorner=xll, yllcorner=yll,
                        dtype=NPDT[dt])
        g.data = np.round(data) if dt.startswith("i") else data
        return g

    def gridarg(rng, n, dt="f8", nr=5, nc=6):
        return mkgrid(vc_shape([[float(rng.randint(1, 30)) for _ in range(nc)] for _ in range(nr)], rng,
                               dt.startswith("f")), dt)

    for gdt in ("f8", "i8", "f4", "i4"):
        GC = [("nd", gdt, "C")]
        tag = f"[grid {gdt}]"

        def xy(rng, n):
            # mostly inside the 5x6 unit-cell grid; some coordinates exactly on the outer
            # edges / cell edges and a few outside (kernels have special code for those)
            def cx():
                r = rng.random()
                return rng.choice([0.0, 6.0, 3.0, -0.5, 6.5]) if r < 0.2 else rng.uniform(0.1, 5.9)

            def cy():
                r = rng.random()
                return rng.choice([0.0, 5.0, 2.0, -0.5, 5.5]) if r < 0.2 else rng.uniform(0.1, 4.9)
            return Arr([[cx(), cy()] for _ in range(n)])
        for cls_extra in (None,):
            S.append(Spec("Grid.coord2cell" + tag, lambda rng, n, gdt=gdt: {"self": gridarg(rng, n, gdt), "xycoords": xy(rng, n)},
                          lambda a: a["self"].coord2cell(a["xycoords"]),
                          site="grid.Grid.coord2cell", margs=("xycoords",), selfkind="grid",
                          classes=None if gdt == "f8" else GC))
            S.append(Spec("Grid.slice" + tag, lambda rng, n, gdt=gdt: {"self": gridarg(rng, n, gdt), "xyslice": xy(rng, n)},
                          lambda a: a["self"].slice(a["xyslice"]),
                          site="grid.Grid.slice", margs=("xyslice",), selfkind="grid",
                          classes=None if gdt == "f8" else GC))
        if gdt != "f8":
            continue

        def cells(rng, n):
            return Arr([float(rng.randrange(30)) for _ in range(n)], ints=True)
        S.append(Spec("Grid.cell2coord", lambda rng, n: {"self": gridarg(rng, n), "idxcells": cells(rng, n)},
                      lambda a: a["self"].cell2coord(a["idxcells"]),
                      site="grid.Grid.cell2coord", margs=("idxcells",), selfkind="grid"))
        S.append(Spec("Grid.cell2rowcol", lambda rng, n: {"self": gridarg(rng, n), "idxcells": cells(rng, n)},
                      lambda a: a["self"].cell2rowcol(a["idxcells"]),
                      site="grid.Grid.cell2rowcol", margs=("idxcells",), selfkind="grid"))
    S.append(Spec("Grid.neighbours", lambda rng, n: {"self": gridarg(rng, n)}, lambda a: a["self"].neighbours(8),
                  site="grid.Grid.neighbours", selfkind="grid", classes=[("nd", "f8", "C")]))
    S.append(Spec("Grid.data[setter]", lambda rng, n: {"self": gridarg(rng, n), "value": Arr(mat(rng, 5, 6, "posint"))},
                  lambda a: (setattr(a["self"], "data", a["value"]), a["self"].data.copy())[1], skipargs=("self",)))
    S.append(Spec("Grid.__setitem__", lambda rng, n: {"self": gridarg(rng, n), "index": Arr([3., 7., 11.], ints=True),
                                                        "value": Arr([2., 4., 8.])},
                  lambda a: (a["self"].__setitem__(a["index"], a["value"]), a["self"].data.copy())[1], skipargs=("self",)))
    S.append(Spec("Grid.__getitem__", lambda rng, n: {"self": gridarg(rng, n), "index": Arr([3., 7., 11.], ints=True)},
                  lambda a: a["self"][a["index"]]))
    for gdt in ("f8", "i8"):
        GC = [("nd", gdt, "C")]
        tag = f"[grid {gdt}]"
        S.append(Spec("Grid.clip" + tag, lambda rng, n, gdt=gdt: {"self": gridarg(rng, n, gdt)},
                      lambda a: a["self"].clip(1.2, 1.3, 4.5, 3.9), classes=GC))
        S.append(Spec("Grid.apply" + tag, lambda rng, n, gdt=gdt: {"self": gridarg(rng, n, gdt)},
                      lambda a: a["self"].apply(np.sqrt), classes=GC))
        # callbacks that work in place on the array they receive: the grid itself must keep its values
        S.append(Spec("Grid.apply[in-place multiply]" + tag, lambda rng, n, gdt=gdt: {"self": gridarg(rng, n, gdt)},
                      lambda a: a["self"].apply(lambda x: np.multiply(x, 2.0, out=x)), classes=GC))

        def _censor(x):
            x[x < 15] = 0
            return x
        S.append(Spec("Grid.apply[in-place mask]" + tag, lambda rng, n, gdt=gdt: {"self": gridarg(rng, n, gdt)},
                      lambda a: a["self"].apply(_censor), classes=GC))
        S.append(Spec("Grid.clone" + tag, lambda rng, n, gdt=gdt: {"self": gridarg(rng, n, gdt)},
                      lambda a: a["self"].clone(np.float32), classes=GC))
        S.append(Spec("Grid.interpolate" + tag,
                      lambda rng, n, gdt=gdt: {"self": gridarg(rng, n, gdt),
                                               "grid": mkgrid(np.zeros((4, 4)), gdt, csz=1.25, xll=0.3, yll=0.2)},
                      lambda a: a["self"].interpolate(a["grid"]), classes=GC))
        S.append(Spec("Grid.same_geometry" + tag,
                      lambda rng, n, gdt=gdt: {"self": gridarg(rng, n, gdt), "grd": gridarg(rng, n, gdt)},
                      lambda a: a["self"].same_geometry(a["grd"]), classes=GC))
        S.append(Spec("Grid.to_dict/from_dict" + tag, lambda rng, n, gdt=gdt: {"self": gridarg(rng, n, gdt)},
                      lambda a: hygrid.Grid.from_dict(a["self"].to_dict()), classes=GC))
        S.append(Spec("grid.gsmooth" + tag,
                      lambda rng, n, gdt=gdt: {"grid": gridarg(rng, n, gdt, 12, 13),
                                               "mask": mkgrid([[float(rng.random() < 0.8) for _ in range(13)]
                                                               for _ in range(12)], "i8")},
                      lambda a: hygrid.gsmooth(a["grid"], a["mask"], coastwin=3, sigma=0.3), classes=GC))
    poly = [[0.6, 0.7], [5.2, 0.9], [4.8, 4.4], [2.5, 2.2], [0.9, 4.1]]
    S.append(Spec("Grid.cells_inside_polygon", lambda rng, n: {"self": gridarg(rng, n), "polygon": Arr(poly, data=False)},
                  lambda a: a["self"].cells_inside_polygon(a["polygon"]),
                  site="grid.Grid.cells_inside_polygon", margs=("polygon",), selfkind="grid"))
    S.append(Spec("gutils.points_inside_polygon",
                  lambda rng, n: {"points": Arr([[rng.uniform(0, 6), rng.uniform(0, 5)] for _ in range(n)]),
                                  "polygon": Arr(poly, data=False)},
                  lambda a: gutils.points_inside_polygon(a["points"], a["polygon"]),
                  site="gutils.points_inside_polygon", margs=("points", "polygon")))
    S.append(Spec("gutils.points_inside_polygon[inside=]",
                  lambda rng, n: {"points": Arr([[rng.uniform(0, 6), rng.uniform(0, 5)] for _ in range(n)]),
                                  "polygon": Arr(poly, data=False), "inside": np.ones(n, dtype=np.int32)},
                  lambda a: gutils.points_inside_polygon(a["points"], a["polygon"], inside=a["inside"]).copy(),
                  skipargs=("inside",)))

    def catch(rng, n, gdt="i8", delineate=True, nr=7, nc=8):
        fd = _flow_grid(rng, nr, nc)
        g = mkgrid(fd, gdt, name="fd")
        c = hygrid.Catchment("c", g)
        if delineate:
            # outlet = a cell with many upstream cells
            best, bestn = 0, -1
            for cell in range(nr * nc):
                try:
                    c.delineate_area(cell, nval=200)
                    k = len(c.idxcells_area)
                except ValueError:
                    k = -1
                if k > bestn:
                    best, bestn = cell, k
            c.delineate_area(best, nval=200)
        return g, c

    for gdt in ("i8", "f8", "i4"):
        GC = [("nd", gdt, "C")]
        tag = f"[grid {gdt}]"
        S.append(Spec("Catchment.__init__" + tag, lambda rng, n, gdt=gdt: {"flowdir": catch(rng, n, gdt, False)[0]},
                      lambda a: hygrid.Catchment("c", a["flowdir"]).flowdir, classes=GC))
        S.append(Spec("grid.delineate_river" + tag, lambda rng, n, gdt=gdt: {"flowdir": catch(rng, n, gdt, False)[0]},
                      lambda a: hygrid.delineate_river(a["flowdir"], 50, nval=40), classes=GC,
                      site="grid.delineate_river", margs=("flowdir",)))
        S.append(Spec("grid.accumulate" + tag,
                      lambda rng, n, gdt=gdt: {"flowdir": catch(rng, n, gdt, False)[0],
                                               "to_accumulate": gridarg(rng, n, gdt, 7, 8)},
                      lambda a: hygrid.accumulate(a["flowdir"], a["to_accumulate"], nprint=1000), classes=GC,
                      site="grid.accumulate", margs=("flowdir", "to_accumulate")))
        S.append(Spec("grid.accumulate[default field]" + tag, lambda rng, n, gdt=gdt: {"flowdir": catch(rng, n, gdt, False)[0]},
                      lambda a: hygrid.accumulate(a["flowdir"], nprint=1000), classes=GC))
        S.append(Spec("grid.slope" + tag,
                      lambda rng, n, gdt=gdt: {"flowdir": catch(rng, n, gdt, False)[0],
                                               "altitude": gridarg(rng, n, gdt, 7, 8)},
                      lambda a: hygrid.slope(a["flowdir"], a["altitude"], nprint=1000), classes=GC,
                      site="grid.slope", margs=("flowdir", "altitude")))

    def cself(rng, n, **kw):
        return {"self": catch(rng, n)[1], **kw}
    S.append(Spec("Catchment.upstream", lambda rng, n: cself(rng, n, idx=Arr([float(rng.randrange(56)) for _ in range(n)], ints=True)),
                  lambda a: a["self"].upstream(a["idx"]), site="grid.Catchment.upstream", margs=("idx",), selfkind="catchment"))
    S.append(Spec("Catchment.downstream", lambda rng, n: cself(rng, n, idx=Arr([float(rng.randrange(56)) for _ in range(n)], ints=True)),
                  lambda a: a["self"].downstream(a["idx"]), site="grid.Catchment.downstream", margs=("idx",), selfkind="catchment"))

    def area_call(a):
        c = a["self"]
        c.delineate_area(int(c.idxcell_outlet), a["inlets"], nval=200)
        return canon(c)
    S.append(Spec("Catchment.delineate_area", lambda rng, n: cself(rng, n, inlets=Arr([float(rng.randrange(56)) for _ in range(2)], ints=True)),
                  area_call, site="grid.Catchment.delineate_area", margs=("inlets",), selfkind="catchment"))

    def bnd_call(a):
        c = a["self"]
        c.delineate_boundary(a.get("mask"))
        return canon(c)

    def bnd_build(rng, n, with_mask):
        d = cself(rng, n)
        if with_mask:
            c = d["self"]
            m = np.zeros(56)
            m[c.idxcells_area_filled] = 1
            d["mask"] = Arr(m, ints=True, containers=("nd",))
        return d
    S.append(Spec("Catchment.delineate_boundary", lambda rng, n: bnd_build(rng, n, False), bnd_call,
                  site="grid.Catchment.delineate_boundary", selfkind="catchment", classes=[("nd", "f8", "C")]))
    S.append(Spec("Catchment.delineate_boundary[mask]", lambda rng, n: bnd_build(rng, n, True), bnd_call,
                  site="grid.Catchment.delineate_boundary[mask]", margs=("mask",), selfkind="catchment"))

    def fp_call(a):
        a["self"].compute_flowpathlengths()
        return a["self"].flowpathlengths
    S.append(Spec("Catchment.compute_flowpathlengths", cself, fp_call, site="grid.Catchment.compute_flowpathlengths",
                  selfkind="catchment", classes=[("nd", "f8", "C")]))
    for gdt in ("f8", "i8"):
        S.append(Spec(f"Catchment.intersect[grid {gdt}]",
                      lambda rng, n, gdt=gdt: cself(rng, n, grid=mkgrid(np.ones((3, 3)), gdt, csz=3.0, xll=-0.5, yll=-0.5)),
                      lambda a: a["self"].intersect(a["grid"]), site="grid.Catchment.intersect", selfkind="catchment",
                      classes=[("nd", gdt, "C")]))
    S.append(Spec("Catchment.extent/isin/to_dict", cself,
                  lambda a: (a["self"].extent(), a["self"].isin(5), a["self"].to_dict()), classes=[("nd", "f8", "C")]))

    def fromdict(a):
        c = hygrid.Catchment.from_dict(a["dic"])
        c.delineate_boundary()
        return canon(c)

    def fromdict_build(rng, n):
        c = catch(rng, n)[1]
        dic = c.to_dict()
        area = np.array(dic["idxcells_area_filled"], dtype=np.float64)
        rng2 = random.Random(rng.random())
        perm = list(range(len(area)))
        rng2.shuffle(perm)
        dic["idxcells_area"] = Arr(np.array(dic["idxcells_area"], dtype=np.float64), ints=True, containers=("nd", "list"))
        dic["idxcells_area_filled"] = Arr(area[perm], ints=True, containers=("nd", "list"))
        return {"dic": dic}
    S.append(Spec("Catchment.from_dict+delineate_boundary", fromdict_build, fromdict))
    S.append(Spec("Catchment.__add__/__sub__",
                  lambda rng, n: {"self": catch(rng, n)[1], "other": catch(rng, n)[1]},
                  lambda a: (canon(a["self"] + a["other"]), canon(a["self"] - a["other"])), classes=[("nd", "f8", "C")]))
    S.append(Spec("grid.voronoi", lambda rng, n: {"catchment": catch(rng, n)[1],
                                                   "xypoints": Arr([[rng.uniform(0, 8), rng.uniform(0, 7)] for _ in range(4)])},
                  lambda a: hygrid.voronoi(a["catchment"], a["xypoints"]),
                  site="grid.voronoi", margs=("catchment", "xypoints")))

    # ---------------- plot
    import matplotlib
    matplotlib.use("Agg")
    import matplotlib.pyplot as plt
    from hydrodiy.plot import putils, boxplot, violinplot

    def with_ax(f):
        def g(a):
            fig, ax = plt.subplots()
            try:
                return f(ax, a)
            finally:
                plt.close(fig)
        return g
    for gdt in ("f8", "i8"):
        S.append(Spec(f"Grid.plot/plot_values[grid {gdt}]", lambda rng, n, gdt=gdt: {"self": gridarg(rng, n, gdt, 3, 4)},
                      with_ax(lambda ax, a: (a["self"].plot(ax), len(a["self"].plot_values(ax)))[1]),
                      classes=[("nd", gdt, "C")]))

    def cplot(ax, a):
        c = a["self"]
        c.delineate_boundary()
        c.plot_area(ax)
        c.plot_boundary(ax)
        return c.compute_area(lambda x, y: (1000. * x, 1000. * y))
    S.append(Spec("Catchment.plot_area/plot_boundary/compute_area", cself, with_ax(cplot), classes=[("nd", "f8", "C")]))
    S.append(Spec("putils.kde", lambda rng, n: {"xy": Arr(mat(rng, max(n, 15), 2))},
                  lambda a: putils.kde(a["xy"], ngrid=6), seeded=True))
    S.append(Spec("putils.kde[transposed]", lambda rng, n: {"xy": Arr(np.array(mat(rng, max(n, 15), 2)).T)},
                  lambda a: putils.kde(a["xy"], ngrid=5), seeded=True))
    S.append(Spec("putils.kde[eps=0]", lambda rng, n: {"xy": Arr(mat(rng, max(n, 15), 2))},
                  lambda a: putils.kde(a["xy"], ngrid=5, eps=0.)))
    S.append(Spec("putils.ecdfplot", lambda rng, n: {"df": Arr(mat(rng, n, 3), containers=("pd",))},
                  with_ax(lambda ax, a: sorted(putils.ecdfplot(ax, a["df"], label_stat="mean").keys())),
                  classes=[("pd", "f8", "C"), ("pd", "i8", "C"), ("pd", "f4", "C")]))
    for al in (False, True):
        S.append(Spec(f"putils.qqplot[addline={al}]", lambda rng, n: {"data": Arr(vec(rng, n))},
                      with_ax(lambda ax, a, al=al: putils.qqplot(ax, a["data"], addline=al, censor=-1.0))))
    S.append(Spec("boxplot.boxplot_stats", lambda rng, n: {"data": Arr([v if rng.random() < 0.9 else float("nan") for v in vec(rng, n)])},
                  lambda a: boxplot.boxplot_stats(a["data"], 50., 90.)))
    S.append(Spec("boxplot.Boxplot", lambda rng, n: {"data": Arr(mat(rng, n, 3))},
                  with_ax(lambda ax, a: (lambda b: (b.draw(ax=ax), b.stats)[1])(boxplot.Boxplot(a["data"])))))
    S.append(Spec("boxplot.Boxplot[narrow,options,logscale]", lambda rng, n: {"data": Arr(mat(rng, n, 3, "pos"))},
                  with_ax(lambda ax, a: (lambda b: (b.draw(ax=ax, logscale=True, xoffset=0.5), b.stats)[1])(
                      boxplot.Boxplot(a["data"], style="narrow", show_mean=True, show_text=True, center_text=False,
                                      width_from_count=True, box_coverage=40., whiskers_coverage=80.)))))
    S.append(Spec("boxplot.Boxplot[by]", lambda rng, n: {"data": Arr(vec(rng, max(n, 24))),
                                                          "by": Arr([float(j % 3) for j in range(max(n, 24))], ints=True)},
                  with_ax(lambda ax, a: (lambda b: (b.draw(ax=ax), b.show_count(), b.stats)[2])(
                      boxplot.Boxplot(a["data"], by=a["by"])))))
    S.append(Spec("violinplot.Violin", lambda rng, n: {"data": Arr(mat(rng, max(n, 20), 2))},
                  with_ax(lambda ax, a: (lambda v: (v.draw(ax=ax), v.stats, v.kde_x, v.kde_y)[1:])(
                      violinplot.Violin(a["data"]))), seeded=True))
    S.append(Spec("violinplot.Violin[npoints,nresample,ylim]", lambda rng, n: {"data": Arr(mat(rng, max(n, 20), 2))},
                  with_ax(lambda ax, a: (lambda v: (v.draw(ax=ax, ylim=(-3., 3.)), v.stats, v.kde_x, v.kde_y)[1:])(
                      violinplot.Violin(a["data"], show_text=False, npoints_kde=30, nresample_kde=10))), seeded=True))
    S.append(Spec("putils.qqplot[censor=None]", lambda rng, n: {"data": Arr(vec(rng, n))},
                  with_ax(lambda ax, a: putils.qqplot(ax, a["data"], addline=True))))
    S.append(Spec("putils.ecdfplot[cst]", lambda rng, n: {"df": Arr(mat(rng, n, 3), containers=("pd",))},
                  with_ax(lambda ax, a: sorted(putils.ecdfplot(ax, a["df"], label_stat="median", cst=0.3).keys())),
                  classes=[("pd", "f8", "C"), ("pd", "i8", "C"), ("pd", "f4", "C")]))
    S.append(Spec("putils.kde[eps large,ngrid]", lambda rng, n: {"xy": Arr(mat(rng, max(n, 15), 2))},
                  lambda a: putils.kde(a["xy"], ngrid=9, eps=1e-3), seeded=True))
    return S


# further combinations of options of functions that are already in the catalogue with their default / main options
OPTION_VARIANTS = frozenset(
    [f"metrics.pit[kind={kd},censor]" for kd in ("weak", "strict", "mean")]
    + [f"sutils.standard_normal[rank_method={rm}]" for rm in ("min", "first", "dense")]
    + ["metrics.pit[random,censor]", "metrics.alpha[KS,sudo_perc_threshold]", "metrics.iqr[coverage]",
       "metrics.corr[censor,median]", "metrics.dscore[eps]", "metrics.absolute_peak_error[neventmax]",
       "sutils.standard_normal[sorted]", "sutils.pareto_front[orientation=-1]", "sutils.lstsq[Rtest,rtest]",
       "armodels.armodel_sim[sim_ini]", "armodels.armodel_residual[sim_mean,sim_ini]",
       "armodels.armodel_sim[scalar params]", "dutils.lag[missing=]", "qualitycontrol.ismisscens[censor,eps]",
       "qualitycontrol.islinear[npoints=3,thresh]", "signatures.eckhardt[options]", "signatures.fdcslope[trans]",
       "signatures.goue[trans]", "boxplot.Boxplot[narrow,options,logscale]", "violinplot.Violin[npoints,nresample,ylim]",
       "putils.qqplot[censor=None]", "putils.ecdfplot[cst]", "putils.kde[eps large,ngrid]"])


# --------------------------------------------------------------------------
# kernel probes (correspondence (b))

class Probe:
    def __init__(self, repo):
        from harness.extractors import c18 as ex
        self.funs, self.writes, self.entries, self.sites = ex.facts(repo)
        self.records = None          # list filled during one top-level call
        self.holders = []            # [(prov term, lambda -> list of ndarrays)]
        self.write_outside = []      # (entry, param) modified although not in the write-set
        self.installed = []

    def positions(self, repo):
        """position of every parameter of every def of the .pyx files"""
        import re
        from harness.extract_consts import _read
        from harness.extractors.c18 import _match, _split_args
        pos = {}
        for pkg in ("data", "stat", "gis"):
            txt = re.sub(r"#[^\n]*", "", _read(repo, f"src/hydrodiy/{pkg}/c_hydrodiy_{pkg}.pyx").replace("\t", "    "))
            for m in re.finditer(r"(?m)^def\s+([A-Za-z_][A-Za-z0-9_]*)\s*\(", txt):
                pc = _match(txt, m.end() - 1, "(", ")")
                names = []
                for p in _split_args(txt[m.end():pc - 1]):
                    p = re.sub(r"\s+not\s+None\s*$", "", p.strip())
                    names.append(p.split()[-1])
                pos[f"{pkg}.{m.group(1)}"] = names
        return pos

    def install(self, repo):
        import importlib
        pos = self.positions(repo)
        for ename, (kern, plist) in self.entries.items():
            pkg, fn = ename.split(".")
            mod = importlib.import_module(f"c_hydrodiy_{pkg}")
            orig = getattr(mod, fn)
            names = pos[ename]
            setattr(mod, fn, self._wrap(ename, orig, plist, names))
            self.installed.append((mod, fn, orig))

    def uninstall(self):
        for mod, fn, orig in self.installed:
            setattr(mod, fn, orig)
        self.installed = []

    def provenance(self, v):
        for term, get in self.holders:
            for buf in get():
                try:
                    if isinstance(buf, np.ndarray) and buf.size and v.size and np.shares_memory(v, buf, max_work=10 ** 6):
                        return term
                except Exception:
                    if np.may_share_memory(v, buf):
                        return term
        return "PFresh"

    def _wrap(self, ename, orig, plist, names):
        probe = self

        def wrapped(*args, **kw):
            if probe.records is None:
                return orig(*args, **kw)
            vals = dict(zip(names, args))
            vals.update(kw)
            params, before = [], {}
            for an, ct, nd, wr in plist:
                v = vals.get(an)
                if isinstance(v, np.ndarray) and type(v) is np.ndarray:
                    d = (DT_OF_NP.get(v.dtype.str), v.ndim, bool(v.flags.c_contiguous))
                    params.append((an, d, probe.provenance(v)))
                    before[an] = v.copy()
                else:
                    params.append((an, None, None))
            accepted = True
            try:
                r = orig(*args, **kw)
            except (TypeError, ValueError):
                accepted = False
                probe.records.append((ename, accepted, params))
                raise
            for an, ct, nd, wr in plist:
                if an in before:
                    v = vals[an]
                    if _bits(v) != _bits(before[an]) and not wr:
                        probe.write_outside.append((ename, an))
            probe.records.append((ename, accepted, params))
            return r
        return wrapped


def mem_of(obj):
    """buffers of a caller-side object (evaluated when a kernel is entered)"""
    import pandas as pd
    if isinstance(obj, np.ndarray):
        return [obj]
    if isinstance(obj, pd.Series):
        return [np.asarray(obj)]
    if isinstance(obj, pd.DataFrame):
        try:
            return [obj.to_numpy(copy=False)]
        except Exception:
            return []
    tn = type(obj).__name__
    if tn == "Grid":
        return [obj._data]
    if tn == "Catchment":
        return [obj._flowdir._data] + [x for x in (obj._idxcells_area, obj._idxcells_area_filled)
                                       if isinstance(x, np.ndarray)]
    return []


def coq_desc(obj):
    """input class of a caller-side object as a Coq `desc` (None: not modelled)"""
    import pandas as pd
    def lay(a):
        if a.flags.c_contiguous:
            return "LC"
        return "LF" if a.flags.f_contiguous else "LS"
    def nd(k):
        return {0: "N0", 1: "N1", 2: "N2"}.get(k)
    if isinstance(obj, np.ndarray):
        dt = DT_OF_NP.get(obj.dtype.str)
        if dt is None or nd(obj.ndim) is None:
            return None
        return f"(mkd CNd {COQDT[dt]} {nd(obj.ndim)} {lay(obj)})"
    if isinstance(obj, pd.Series):
        dt = DT_OF_NP.get(np.asarray(obj).dtype.str)
        return None if dt is None else f"(mkd CSeries {COQDT[dt]} N1 LC)"
    if isinstance(obj, pd.DataFrame):
        v = obj.to_numpy(copy=False)
        dt = DT_OF_NP.get(v.dtype.str)
        return None if dt is None else f"(mkd CFrame {COQDT[dt]} N2 LF)"
    if isinstance(obj, list):
        a = np.array(obj)
        dt = DT_OF_NP.get(a.dtype.str)
        if dt is None or nd(a.ndim) is None:
            return None
        return f"(mkd CList {COQDT[dt]} {nd(a.ndim)} LC)"
    if isinstance(obj, (int, float)):
        return f"(mkd CScalar {'DI64' if isinstance(obj, int) else 'DF64'} N0 LC)"
    tn = type(obj).__name__
    if tn == "Grid":
        dt = DT_OF_NP.get(obj._data.dtype.str)
        return None if dt is None else f"(mkd CGrid {COQDT[dt]} N2 LC)"
    if tn == "Catchment":
        return "(mkd CGrid DI64 N2 LC)"
    return None


def coq_pdesc(d):
    if d is None:
        return "None"
    dt, nd, cc = d
    dts = "None" if dt is None else f"(Some {COQDT[dt]})"
    nds = {0: "N0", 1: "N1", 2: "N2"}.get(nd, "N2")
    return f"(Some ({dts}, {nds}, {cm.coq_bool(cc)}))"


# --------------------------------------------------------------------------
# op-level correspondence (a)

OPS = [
    ("OAtleast1d", lambda x: np.atleast_1d(x)), ("OAtleast2d", lambda x: np.atleast_2d(x)),
    ("(OAstype DF64)", lambda x: x.astype(np.float64)), ("(OAstype DI64)", lambda x: x.astype(np.int64)),
    ("(OAstype DI32)", lambda x: x.astype(np.int32)),
    ("ONpArray", lambda x: np.array(x)), ("OSqueeze", lambda x: x.squeeze()),
    ("OAsContig", lambda x: np.ascontiguousarray(x)),
    ("(OAsContigDt DF64)", lambda x: np.ascontiguousarray(x, dtype=np.float64)),
    ("(OAsContigDt DI64)", lambda x: np.ascontiguousarray(x, dtype=np.int64)),
    ("OValues", lambda x: x.values), ("OId", lambda x: x), ("OArith", lambda x: 0. * x),
    ("OSlice", lambda x: x[1:]), ("OTranspose", lambda x: x.T), ("OCopy", lambda x: x.copy()),
    ("ONewArray", lambda x: np.roll(x, 1, axis=0)),
    ("OMask", None), ("OGridData", lambda x: x.data),
]
METHOD_OPS = {"(OAstype DF64)", "(OAstype DI64)", "(OAstype DI32)", "OSqueeze", "OArith", "OSlice", "OTranspose",
              "OMask", "OCopy"}


def op_cases(ctx, add):
    """apply every idiom to every input class; compare with the model's [apply_op]"""
    import pandas as pd
    from hydrodiy.gis.grid import Grid
    rng = ctx.rng
    inputs = []
    for dt in NPDT:
        for nd in (1, 2):
            base = np.array([[rng.randint(1, 9) for _ in range(3)] for _ in range(4)], dtype=np.float64)
            base = base[:, 0].copy() if nd == 1 else base
            for cont, lay in (("nd", "C"), ("nd", "S"), ("nd", "F"), ("pd", "C"), ("list", "C")):
                if dt == "b1":
                    a = Arr((base > 4).astype(float), ints=True)
                else:
                    a = Arr(base, ints=True)
                if cont == "nd" and lay == "F" and nd == 1:
                    continue
                if cont == "list" and dt in ("f4", "i4"):
                    continue
                obj, _ = convert(a, (cont, dt, lay))
                inputs.append(obj)
        if dt != "b1":
            g = Grid("g", 3, 4, dtype=NPDT[dt])
            g.data = np.arange(12.).reshape(4, 3)
            inputs.append(g)
    inputs += [2.5, 3]
    for obj in inputs:
        din = coq_desc(obj)
        if din is None:
            continue
        isnd = isinstance(obj, np.ndarray)
        for oname, f in OPS:
            if oname in METHOD_OPS and not isnd:
                continue            # method idioms are modelled on ndarrays (G)
            isgrid = type(obj).__name__ == "Grid"
            if isgrid != (oname in ("OGridData", "OId")) and (isgrid or oname == "OGridData"):
                continue            # grids: only .data / identity; .data only on grids
            if oname == "OMask":
                def f(x):
                    m = np.array([True, False, True, True])
                    return x[m] if x.ndim == 1 else x[m, :]
            with warnings.catch_warnings():
                warnings.simplefilter("ignore")
                try:
                    r = f(obj)
                except Exception:
                    r = None
            if r is None:
                obs = "None"
            elif isinstance(r, np.ndarray) and type(r) is np.ndarray:
                d = (DT_OF_NP.get(r.dtype.str), r.ndim, bool(r.flags.c_contiguous))
                sh = any(np.shares_memory(r, b) for b in mem_of(obj)) if r.size else False
                obs = f"(Some (true, {coq_pdesc(d)}, {cm.coq_bool(sh)}))"
            else:
                obs = "(Some (false, None, false))"
            add(f"COp {oname} {din} {obs}", {"kind": "op", "op": oname, "input": din, "observed": obs},
                ("op", oname, din))


# --------------------------------------------------------------------------
# object histories (the quantifier's "histories"): ONE Grid / Catchment object taken
# through a sequence of public operations.
#
# Every operation declares the attributes of the object it reads and the attributes it
# (re)defines - `defines` is deliberately generous (a re-delineation may reset everything
# derived).  Three clauses, all instances of the property's two sentences:
#  H1 (untouched) after every step: every array the caller holds is bit-for-bit what it was
#     before the step - the arrays passed to this or to ANY EARLIER call of the history
#     (with the buffer around a strided view), and, for every attribute the operation does
#     not define, both the array handed out by the public accessor before the step and the
#     value the accessor gives after it; grid arguments keep their cell values;
#  H2 (repeatable) the same operation with the same arguments at two steps between which no
#     operation defined anything it reads returns the same result, exactly;
#  H3 (repeatable, fresh object) at the end of the history the observers give, on a fresh
#     object that received only the state-defining calls of the history (same arguments,
#     same order; every pure observer and every derived-state operation left out), exactly
#     what they give on the object that went through the whole history.
# A step that raises is not a failure (H1 is still checked after it).

def _hgrid(hygrid, data, dt="f8", name="g", csz=1.0, xll=0., yll=0.):
    data = np.asarray(data, dtype=np.float64)
    g = hygrid.Grid(name, data.shape[1], data.shape[0], cellsize=csz, xllcorner=xll, yllcorner=yll,
                    dtype=NPDT[dt])
    g.data = np.round(data) if dt.startswith("i") else data
    return g


class HOp:
    def __init__(self, name, key, run, reads=(), defines=(), args=(), primary=False, keeps_values=True):
        self.name, self.key, self.run = name, key, run
        self.reads, self.defines = frozenset(reads), frozenset(defines)
        self.args = tuple(args)            # labels of the pool arguments handed to this call
        self.desc = (name if key is None or isinstance(key, tuple) and key[:1] == ("nd",) else
                     f"{name}{key!r}" if isinstance(key, tuple) else f"{name}({key!r})")
        self.primary = primary             # defines primary state: replayed on the fresh object (H3)
        self.keeps_values = keeps_values   # a Grid object keeps its cell values across this call


CATCH_ATTRS = ("idxcell_outlet", "idxinlets", "idxcells_area", "idxcells_area_filled", "idxcells_boundary",
               "xycells_boundary", "flowpathlengths", "flowdir", "flowdir.data")
CATCH_DERIVED = frozenset(CATCH_ATTRS) - {"flowdir", "flowdir.data"}
GRID_ATTRS = ("data", "dtype", "limits", "nodata")


def _get_state(obj):
    """what a caller can take out of the object through its public accessors"""
    out = {}
    if type(obj).__name__ == "Catchment":
        for nm in CATCH_ATTRS[:-2]:
            try:
                out[nm] = getattr(obj, nm)
            except Exception:
                out[nm] = None
        out["flowdir"] = obj.flowdir                 # compared by cell values
        out["flowdir.data"] = obj.flowdir.data       # the array itself, bit for bit
    else:
        out["data"] = obj.data
        out["dtype"] = np.dtype(obj.dtype).str
        out["limits"] = (float(obj.mindata), float(obj.maxdata))
        out["nodata"] = repr(obj.nodata)
    return out


class History:
    """one object, its pool of caller-side arguments, and the bookkeeping of H1-H3"""

    def __init__(self, ctx, kind, replay, orc_fail):
        self.ctx, self.kind, self.replay, self.orc_fail = ctx, kind, replay, orc_fail
        self.track = []              # [label, object, snapshot]: caller-side arrays, for the whole history
        self.version = {}
        self.seen = {}               # (op name, op key, versions of its reads) -> (result, step)
        self.steps = []              # names of the operations run so far
        self.descs = []              # the same with the arguments drawn (outlet, pool index, options)
        self.primary = []            # HOp to replay on the fresh object
        self.obj = None
        self.nfail = 0

    def hold(self, label, obj, guards=()):
        self.track.append([label, obj, snap(obj)])
        self.replay.setdefault("arguments", {})[label] = short(obj, 12)
        for k, b in enumerate(guards):
            self.track.append([f"{label} (buffer around the strided view)", b, snap(b)])
        return obj

    def fail(self, key, what, **extra):
        self.nfail += 1
        rp = dict(self.replay, steps=list(self.descs), **extra)
        self.orc_fail.add(-1 - len(self.orc_fail))
        self.ctx.failure(key, rp, what)

    def step(self, op):
        obj, fn = self.obj, op.name.split("[")[0]
        st0 = _get_state(obj)
        sn0 = {k: snap(v) for k, v in st0.items()}
        vals0 = snap(obj) if self.kind == "grid" else None
        sig = (op.name, op.key, tuple(sorted((a, self.version.get(a, 0)) for a in op.reads)))
        self.steps.append(op.name)
        self.descs.append(op.desc)
        k = len(self.steps)
        cm.mark({"history": self.replay, "step": k, "steps": self.descs})
        res, err, shown = None, None, None
        with warnings.catch_warnings():
            warnings.simplefilter("ignore")
            with np.errstate(all="ignore"), quiet_stdout():
                try:
                    raw = op.run(obj)
                    res, shown = canon(raw), short(raw, 40)
                except Exception as e:
                    err = e
        status = "ok" if err is None else "raised:" + type(err).__name__
        tail = "" if err is None else "/then-raised"
        hist = f"step {k} of a history on one {type(obj).__name__} ({' -> '.join(self.steps[-4:])})"
        # ---- H1: caller-side arrays
        for t in self.track:
            d = snap_diff(t[2], snap(t[1]))
            if d:
                when = "passed to this call" if t[0] in op.args else "passed to an earlier call of the history"
                self.fail(f"C18/{fn}/argument-mutated:{re.sub(r'[0-9@]+$', '', t[0].split(' ')[0])}{tail}",
                          f"{op.name} changed `{t[0]}` ({d}), an argument {when}; {hist}",
                          argument=t[0], aspect=d, before=repr(t[2])[:200], after=short(t[1]), outcome=status)
                t[2] = snap(t[1])
        # ---- H1: the object's arrays that the operation does not define
        st1 = _get_state(obj)
        for a in st0:
            if a in op.defines:
                continue
            d = snap_diff(sn0[a], snap(st0[a])) or snap_diff(sn0[a], snap(st1[a]))
            if d:
                self.fail(f"C18/{fn}/argument-mutated:self.{a}{tail}",
                          f"{op.name} changed `{a}` of the object it was called on ({d}): the array the caller took "
                          f"from the accessor before the call and/or the accessor's value after it; {hist}",
                          argument=f"self.{a}", aspect=d, before=short(_unsnap(sn0[a])), held_after=short(st0[a]),
                          accessor_after=short(st1[a]), outcome=status)
        if vals0 is not None and op.keeps_values:
            d = snap_diff(vals0, snap(obj))
            if d:
                self.fail(f"C18/{fn}/argument-mutated:self{tail}",
                          f"{op.name} changed the cell values of the grid it was called with ({d}); {hist}",
                          argument="self", aspect=d, after=short(obj), outcome=status)
        for a in op.defines:
            self.version[a] = self.version.get(a, 0) + 1
        if op.primary:
            self.primary.append(op)
        self.ctx.count(("hist", self.kind, op.name, status.split(":")[0]))
        if err is not None:
            return None
        # ---- H2
        old = self.seen.get(sig)
        if old is None:
            self.seen[sig] = (res, k, shown)
        elif old[0] != res:
            self.fail(f"C18/{fn}/not-repeatable",
                      f"{op.name}: the same call at steps {old[1]} and {k} of a history on one {type(obj).__name__} "
                      f"returned different results although no call in between "
                      f"({', '.join(sorted(set(self.steps[old[1]:k - 1]))) or 'none'}) defines anything it reads",
                      first=old[2], second=shown, first_step=old[1], second_step=k)
        return res, shown

    def against_fresh(self, fresh, observers):
        """H3"""
        def quiet(f):
            with warnings.catch_warnings():
                warnings.simplefilter("ignore")
                with np.errstate(all="ignore"), quiet_stdout():
                    try:
                        raw = f()
                        return canon(raw), short(raw, 40)
                    except Exception:
                        return None
        for op in self.primary:
            quiet(lambda op=op: op.run(fresh))
        for op in observers:
            r1 = self.step(op)
            r2 = quiet(lambda op=op: op.run(fresh))
            if r1 is None or r2 is None:
                continue
            if r1[0] != r2[0]:
                left_out = sorted(set(self.steps) - {o.name for o in self.primary} - {o.name for o in observers})
                self.fail(f"C18/{op.name.split('[')[0]}/not-repeatable",
                          f"{op.name} on the object that went through the history differs from the same call on a fresh "
                          f"object that received the same state-defining calls "
                          f"({', '.join(o.name for o in self.primary)}) without the other ones ({', '.join(left_out)})",
                          after_history=r1[1], fresh=r2[1],
                          state_defining_calls=[o.desc for o in self.primary])


def _unsnap(s):
    """readable form of a snapshot (for replays)"""
    try:
        if s and s[0] == "nd":
            return np.frombuffer(s[3], dtype=np.dtype(s[1])).reshape(s[2])
    except Exception:
        pass
    return repr(s)[:120]


def catchment_history(ctx, hygrid, crng, cls, fdt, nsteps, replay, orc_fail):
    nr, nc = crng.choice([(6, 7), (7, 8), (8, 7)])
    fd = _flow_grid(crng, nr, nc)
    H = History(ctx, "catchment", replay, orc_fail)
    replay["flowdir"] = fd.astype(int).tolist()
    g = H.hold("flowdir", _hgrid(hygrid, fd, fdt, name="fd"))
    H.hold("flowdir.data", g.data)
    # outlets with a sizeable area (found on a scratch object)
    scout, areas = hygrid.Catchment("scout", g), {}
    with quiet_stdout():
        for cell in range(nr * nc):
            try:
                scout.delineate_area(cell, nval=200)
                areas[cell] = [int(x) for x in scout.idxcells_area]
            except ValueError:
                pass
    big = sorted(areas, key=lambda c: (-len(areas[c]), c))[:6]
    outlets = crng.sample(big, min(3, len(big)))
    replay["outlets"] = outlets

    def arg(label, arr):
        o, guards = convert(arr, cls, label)
        return H.hold(label, o, guards)
    inlets = {}
    for o in outlets:
        up = areas[o][1:]
        inlets[o] = [None]
        if len(up) >= 3:
            inlets[o].append(arg(f"idxinlets{o}", Arr([float(c) for c in crng.sample(up, crng.choice([1, 2]))], ints=True)))
    idxs = [arg(f"idx{j}", Arr([float(crng.randrange(nr * nc)) for _ in range(5)], ints=True)) for j in range(2)]
    pts = arg("xypoints", Arr([[crng.uniform(0, nc), crng.uniform(0, nr)] for _ in range(4)]))
    igrids = []
    for j, (dt, csz) in enumerate((("f8", 2.0), ("i8", 3.0))):
        k = int(max(nr, nc) // csz) + 2
        igrids.append(H.hold(f"grid{j}", _hgrid(hygrid, np.ones((k, k)), dt, name=f"ig{j}", csz=csz, xll=-0.5, yll=-0.5)))
    other = hygrid.Catchment("other", g)
    with quiet_stdout():
        other.delineate_area(big[-1], nval=200)
    for a, v in _get_state(other).items():
        H.hold(f"other.{a}", v)

    def proj(x, y):
        return 1000. * x, 1000. * y
    H.obj = hygrid.Catchment("c", g)
    ALLC = frozenset(CATCH_ATTRS)
    AREA = {"idxcells_area", "idxcells_area_filled", "flowdir", "flowdir.data"}
    FD = {"flowdir", "flowdir.data"}

    def op_area(o, inl, j):
        def run(c):
            c.delineate_area(o, inl, nval=200)
            return c.idxcells_area, c.idxcells_area_filled
        return HOp("Catchment.delineate_area", (o, j), run, reads=FD, defines=CATCH_DERIVED,
                   args=() if inl is None else (f"idxinlets{o}",), primary=True)

    def op_boundary(mask=None, label=None):
        def run(c):
            c.delineate_boundary() if mask is None else c.delineate_boundary(mask)
            return c.idxcells_boundary, c.xycells_boundary
        return HOp("Catchment.delineate_boundary" + ("" if mask is None else "[mask]"),
                   None if mask is None else snap(mask), run, reads=AREA,
                   defines={"idxcells_boundary", "xycells_boundary"}, args=() if mask is None else (label,))

    def run_fp(c):
        c.compute_flowpathlengths()
        return c.flowpathlengths
    op_fp = HOp("Catchment.compute_flowpathlengths", None, run_fp, reads=AREA | {"idxcell_outlet"},
                defines={"flowpathlengths"})

    def op_intersect(j, filled):
        return HOp("Catchment.intersect", (j, filled), lambda c: c.intersect(igrids[j], filled=filled), reads=AREA,
                   args=(f"grid{j}",))
    op_todict = HOp("Catchment.to_dict", None, lambda c: c.to_dict(), reads=ALLC)
    op_extent = HOp("Catchment.extent", None, lambda c: c.extent(), reads=AREA)
    op_area_arrays = HOp("Catchment.idxcells_area", None, lambda c: (c.idxcells_area, c.idxcells_area_filled), reads=AREA)
    op_voronoi = HOp("grid.voronoi", None, lambda c: hygrid.voronoi(c, pts), reads=AREA, args=("xypoints",))

    def choose():
        r = crng.random() * 22.6
        if r < 2:
            o = crng.choice(outlets)
            j = crng.randrange(len(inlets[o]))
            return op_area(o, inlets[o][j], j)
        if r < 5:
            return op_boundary()
        if r < 6:
            try:
                filled = H.obj.idxcells_area_filled
            except ValueError:
                return op_boundary()
            m = np.zeros(nr * nc)
            m[np.asarray(filled)] = 1
            label = f"mask@{len(H.steps) + 1}"
            mask = arg(label, Arr(m, ints=True, containers=("nd",)))
            return op_boundary(mask, label)
        if r < 8:
            return op_fp
        if r < 12:
            return op_intersect(crng.randrange(2), crng.random() < 0.3)
        if r < 14:
            return op_todict
        if r < 15:
            return op_extent
        if r < 16:
            cell, filled = crng.choice(areas[outlets[0]]), crng.random() < 0.5
            return HOp("Catchment.isin", (cell, filled), lambda c: c.isin(cell, filled=filled), reads=AREA)
        if r < 17:
            j = crng.randrange(2)
            return HOp("Catchment.upstream", j, lambda c: c.upstream(idxs[j]), reads=FD, args=(f"idx{j}",))
        if r < 18:
            j = crng.randrange(2)
            return HOp("Catchment.downstream", j, lambda c: c.downstream(idxs[j]), reads=FD, args=(f"idx{j}",))
        if r < 19:
            return HOp("Catchment.compute_area", None, lambda c: c.compute_area(proj),
                       reads=FD | {"idxcells_boundary", "xycells_boundary"})
        if r < 20:
            return op_voronoi
        if r < 20.5:
            return HOp("Catchment.clone", None, lambda c: c.clone(), reads=ALLC)
        if r < 21:
            return HOp("Catchment.__add__", None, lambda c: c + other, reads=ALLC)
        if r < 21.5:
            return HOp("Catchment.__sub__", None, lambda c: c - other, reads=ALLC)
        if r < 22:
            def rt(c):
                c2 = hygrid.Catchment.from_dict(c.to_dict())
                c2.delineate_boundary()
                return c2
            return HOp("Catchment.from_dict", None, rt, reads=ALLC)
        if r < 22.3:
            return HOp("grid.accumulate", None, lambda c: hygrid.accumulate(c.flowdir, nprint=1000), reads=FD)
        cell = crng.choice(areas[outlets[0]])
        return HOp("grid.delineate_river", cell, lambda c: hygrid.delineate_river(c.flowdir, cell, nval=40), reads=FD)

    o = outlets[0]
    H.step(op_area(o, None, 0))
    for _ in range(nsteps):
        H.step(choose())
    H.against_fresh(hygrid.Catchment("c", g),
                    [op_area_arrays, op_intersect(0, False), op_intersect(1, True), op_todict, op_extent, op_voronoi,
                     op_fp, op_boundary()])
    return H


def grid_history(ctx, hygrid, crng, cls, gdt, nsteps, replay, orc_fail):
    from hydrodiy.gis import gutils  # noqa: F401
    nr, nc = 5, 6
    H = History(ctx, "grid", replay, orc_fail)
    vc = replay.get("vc")              # value class of the cell values / of the arrays of values of the pool
    vkey = f"hist:{replay['sub']}"

    def arg(label, arr):
        o, guards = convert(arr, cls, label, vc, vkey)
        return H.hold(label, o, guards)

    def cells():
        return [[float(crng.randint(1, 30)) for _ in range(nc)] for _ in range(nr)]
    first = cells()
    if vc is not None:
        first = shape_values(first, vc, random.Random(f"vc:{vc}:{vkey}:first"), floats=gdt.startswith("f")).tolist()
    replay["data"] = [[repr(v) for v in row] for row in first] if vc == "nans" else first
    values = [arg(f"value{j}", Arr(cells())) for j in range(2)]
    index = arg("index", Arr([float(c) for c in crng.sample(range(nr * nc), 4)], ints=True))
    newvals = arg("newvalues", Arr([float(crng.randint(1, 30)) for _ in range(4)]))
    xy = arg("xycoords", Arr([[crng.uniform(0.1, nc - 0.1), crng.uniform(0.1, nr - 0.1)] for _ in range(6)]))
    cellidx = arg("idxcells", Arr([float(crng.randrange(nr * nc)) for _ in range(5)], ints=True))
    poly = arg("polygon", Arr([[0.6, 0.7], [5.2, 0.9], [4.8, 4.4], [2.5, 2.2], [0.9, 4.1]]))
    target = H.hold("grid", _hgrid(hygrid, np.zeros((4, 4)), gdt, name="target", csz=1.25, xll=0.3, yll=0.2))
    fdir = H.hold("flowdir", _hgrid(hygrid, _flow_grid(crng, nr, nc), "i8", name="fd"))
    ALLG = frozenset(GRID_ATTRS)
    DATA = frozenset({"data"})

    def setdata(j):
        def run(g):
            g.data = values[j]
            return g.data.copy()
        return HOp("Grid.data[setter]", j, run, reads={"dtype", "limits"}, defines=DATA, args=(f"value{j}",),
                   primary=True, keeps_values=False)

    def run_setitem(g):
        g[index] = newvals
        return g.data.copy()

    def run_fill(g, v):
        g.fill(v)
        return g.data.copy()

    def run_dtype(g, t):
        g.dtype = NPDT[t]
        return g.data.copy()

    def run_limits(g):
        g.mindata = 3
        g.maxdata = 27
        return g.data.copy()

    def _censor(x):
        x[x < 15] = 0
        return x

    def run_catchment(g):
        c = hygrid.Catchment("c", g)
        c.flowdir.fill(1)           # what is done to the catchment's flow directions must not reach the grid
        return c.flowdir
    observers = [
        HOp("Grid.coord2cell", None, lambda g: g.coord2cell(xy), reads=ALLG, args=("xycoords",)),
        HOp("Grid.slice", None, lambda g: g.slice(xy), reads=ALLG, args=("xycoords",)),
        HOp("Grid.cell2coord", None, lambda g: g.cell2coord(cellidx), reads=ALLG, args=("idxcells",)),
        HOp("Grid.cell2rowcol", None, lambda g: g.cell2rowcol(cellidx), reads=ALLG, args=("idxcells",)),
        HOp("Grid.__getitem__", None, lambda g: g[index], reads=ALLG, args=("index",)),
        HOp("Grid.clip", None, lambda g: g.clip(1.2, 1.3, 4.5, 3.9), reads=ALLG),
        HOp("Grid.apply", "sqrt", lambda g: g.apply(np.sqrt), reads=ALLG),
        HOp("Grid.apply[in-place multiply]", None, lambda g: g.apply(lambda x: np.multiply(x, 2, out=x)), reads=ALLG),
        HOp("Grid.apply[in-place mask]", None, lambda g: g.apply(_censor), reads=ALLG),
        HOp("Grid.clone", "f4", lambda g: g.clone(np.float32), reads=ALLG),
        HOp("Grid.clone", None, lambda g: g.clone(), reads=ALLG),
        HOp("Grid.interpolate", None, lambda g: g.interpolate(target), reads=ALLG, args=("grid",)),
        HOp("Grid.to_dict/from_dict", None, lambda g: hygrid.Grid.from_dict(g.to_dict()), reads=ALLG),
        HOp("Grid.cells_inside_polygon", None, lambda g: g.cells_inside_polygon(poly), reads=ALLG, args=("polygon",)),
        HOp("Grid.data", None, lambda g: g.data, reads=ALLG),
        HOp("Catchment.__init__", None, run_catchment, reads=ALLG),
    ]
    # grid-level functions retype the grids they are given (documented): the cell values stay
    retyping = [
        HOp("grid.accumulate", None, lambda g: hygrid.accumulate(fdir, g, nprint=1000), reads=ALLG,
            defines={"data", "dtype"}, args=("flowdir",), primary=True),
        HOp("grid.slope", None, lambda g: hygrid.slope(fdir, g, nprint=1000), reads=ALLG,
            defines={"data", "dtype"}, args=("flowdir",), primary=True),
    ]

    def choose():
        r = crng.random()
        if r < 0.12:
            return setdata(crng.randrange(2))
        if r < 0.20:
            return HOp("Grid.__setitem__", None, run_setitem, reads=ALLG, defines=DATA, args=("index", "newvalues"),
                       primary=True, keeps_values=False)
        if r < 0.25:
            v = crng.randint(1, 30)
            return HOp("Grid.fill", v, lambda g: run_fill(g, v), reads=ALLG, defines=DATA, primary=True,
                       keeps_values=False)
        if r < 0.29:
            t = crng.choice(["f8", "i8", "f4", "i4"])
            return HOp("Grid.dtype[setter]", t, lambda g: run_dtype(g, t), reads=ALLG, defines={"data", "dtype", "nodata"},
                       primary=True, keeps_values=False)
        if r < 0.32:
            return HOp("Grid.mindata/maxdata[setter]", None, run_limits, reads=ALLG, defines={"data", "limits"},
                       primary=True, keeps_values=False)
        if r < 0.38:
            return crng.choice(retyping)
        return crng.choice(observers)

    def fresh():
        return _hgrid(hygrid, first, gdt)
    H.obj = fresh()
    for _ in range(nsteps):
        H.step(choose())
    H.against_fresh(fresh(), observers)
    return H


def run_histories(ctx, rng, orc_fail):
    from hydrodiy.gis import grid as hygrid
    todo = []
    rp = ctx.replay.get("replay") if ctx.replay else None
    if isinstance(rp, dict) and "history" in rp:
        todo.append((rp["history"], tuple(rp["cls"]), rp["dtype"], rp["sub"], rp["nsteps"], rp.get("vc")))
    ncatch, ngrid = ctx.scale(36, 240), ctx.scale(28, 160)
    pool = CLASSES + [("mix", str(rng.randrange(10 ** 6)), "") for _ in range(ctx.scale(4, 12))]
    for k in range(ncatch):
        todo.append(("catchment", pool[k % len(pool)], ("i8", "f8", "i4")[k % 3 if k % 7 else rng.randrange(3)],
                     rng.randrange(10 ** 9), rng.choice([10, 14, 18]), None))
    # grid histories: every other one on cell values of a value class (constant grid, zeros, missing cells,
    # extreme magnitudes, repeated rows ...): the same classes as for the single calls
    hvc = [v for v in VCLASSES if v not in ("small", "large")]
    hoff = rng.randrange(len(hvc))
    for k in range(ngrid):
        todo.append(("grid", pool[k % len(pool)], ("f8", "i8", "f4", "i4")[rng.randrange(4)],
                     rng.randrange(10 ** 9), rng.choice([10, 14, 18]), hvc[(k // 2 + hoff) % len(hvc)] if k % 2 else None))
    nsteps_run, nfail, nbuild = 0, 0, 0
    for kind, cls, dt, sub, nsteps, vc in todo:
        crng = random.Random(f"hist:{kind}:{sub}")
        replay = {"history": kind, "cls": list(cls), "dtype": dt, "sub": sub, "nsteps": nsteps}
        if vc is not None:
            replay["vc"] = vc
        fn = catchment_history if kind == "catchment" else grid_history
        try:
            with warnings.catch_warnings():
                warnings.simplefilter("ignore")
                H = fn(ctx, hygrid, crng, cls, dt, nsteps, replay, orc_fail)
        except Exception as e:              # a history that cannot be built is a harness problem, not a verdict
            nbuild += 1
            ctx.notes.setdefault("build_failures", []).append(f"history {kind} {cls} {dt}: {type(e).__name__}: {e}"[:200])
            continue
        nsteps_run += len(H.steps)
        nfail += H.nfail
    ctx.notes["histories_run"] = len(todo) - nbuild
    ctx.notes["history_steps"] = nsteps_run
    ctx.obligation("object histories ran (generator not degenerate)", nsteps_run >= 8 * len(todo) and nbuild == 0)


# --------------------------------------------------------------------------

def run(ctx):
    ctx.rule = ("every public function of the property's list (catalogue in harness/props/c18.py) x input classes "
                "(ndarray C-contiguous / strided view inside a larger buffer / Fortran order; float64, float32, int64, "
                "int32; pandas Series/DataFrame; nested lists) x data seeds, and x value classes of the samples (ties, censored, "
                "rounded, zeros, constant variable, repeated observations, NaN, +-inf, negative, scaled by 2**+-40, n = 1..3, "
                "n = 600; also as cell values of the grid histories): bit-for-bit snapshot of every argument "
                "and of the surrounding buffer before/after, two consecutive calls under the same numpy seed compared "
                "exactly; object histories: one Grid / Catchment through a random sequence of public operations, after "
                "every step the arrays passed to this or an earlier call and the arrays taken from the object's accessors "
                "(attributes the operation does not define) bit-for-bit unchanged, the same call repeated later in the "
                "history (nothing it reads redefined in between) and on a fresh object given only the state-defining calls "
                "compared exactly; kernel entry points wrapped: descriptor, shared memory and acceptance of every array handed "
                "to a kernel compared inside Coq with the provenance model; non-trivial = distinct (function, class, "
                "outcome) signature")
    ctx.trusted = cm.STD_TRUST + [
        "np.shares_memory / byte-wise snapshots as the observable of aliasing; kernel entry points observed by replacing "
        "attributes of the imported c_hydrodiy_* modules (no hook in the library)",
        "the write-set analysis of harness/extractors/c18.py (syntactic stores through pointer parameters, closed over "
        "the call graph), validated on every run by the kernels' observed writes",
        "the provenance semantics of the numpy/pandas idioms in Model/Alias.v, validated per idiom and input class by "
        "correspondence"]
    ctx.tested_not_proved = [
        "functions that never reach a C kernel (pure numpy/pandas/scipy/matplotlib code: most of metrics, sutils, "
        "transform, plot helpers, Grid bookkeeping): explored by the before/after search only",
        "repeatability of results (two consecutive calls, same seed): tested on the implementation; proved only in "
        "the model, for the kernel wrappers, with kernels as deterministic functions of their parameters "
        "(C18_second_call_same)",
        "value-preservation of Grid.dtype conversions performed on grid arguments (delineate_river, accumulate, slope)",
        "numpy/pandas view-or-copy behaviour itself (model of the idioms validated by correspondence on the installed versions)"]
    proved = cm.prove(ctx)
    terms, replays, orc_fail = collect(ctx)
    bad, nshards, failed = cm.run_case_files(PID, HEADER, "acase", "a_ok", terms, shard=400, max_bytes=250000)
    ctx.notes["correspondence_cases"] = len(terms)
    ctx.notes["correspondence_mismatches"] = len(bad)
    for k in range(nshards):
        ctx.obligation(f"Cases_{PID}_{k}.agree (model = implementation on the shard)", True)
    cm.settle(ctx, proved, bad, failed, orc_fail, lambda i: replays[i],
              "Model/Alias.v vs numpy/pandas idioms, the Cython entry points and the Python wrappers")
    return ctx.finish()


def collect(ctx):
    """run the implementation: idiom cases, the search, the kernel observations"""
    cm.use_impl()
    import pandas as pd  # noqa: F401
    rng = ctx.rng
    terms, replays = [], []
    orc_fail = set()

    def add(term, replay, sig):
        terms.append(term)
        replays.append(replay)
        ctx.count(sig)
        return len(terms) - 1

    probe = Probe(cm.REPO)
    probe.install(cm.REPO)
    from hydrodiy.gis import grid as hygrid
    catalogue = build_catalogue(ctx)
    ctx.notes["catalogue_size"] = len(catalogue)

    # ---- (a) idioms
    op_cases(ctx, add)
    n_op = len(terms)

    # ---- the search (3) + pipeline observations (b)
    outcome = {}           # function -> {"ok": n, "raised": n}
    todo = []
    corpus = cm.load_corpus(PID)
    for c in corpus:
        todo.append((c["fn"], tuple(c["cls"]), c["sub"], c.get("n", 9), c.get("vc")))
    if ctx.replay and isinstance(ctx.replay.get("replay"), dict) and "fn" in ctx.replay["replay"]:
        c = ctx.replay["replay"]
        todo.insert(0, (c["fn"], tuple(c["cls"]), c["sub"], c.get("n", 9), c.get("vc")))
    nseeds = ctx.scale(2, 8)
    nmix = ctx.scale(2, 12)
    for spec in catalogue:
        classes = spec.classes or (CLASSES + [("mix", str(rng.randrange(10 ** 6)), "") for _ in range(nmix)])
        variant = spec.name in OPTION_VARIANTS and not ctx.thorough
        if variant and not spec.classes:
            # quick tier: the option variants of a function on five input classes (all of them in the thorough
            # tier); the value classes below are run on them as on every other entry of the catalogue
            classes = [("nd", "f8", "C"), ("nd", "f8", "S"), ("nd", "f8", "F"), ("pd", "f8", "C"),
                       CLASSES[rng.randrange(len(CLASSES))]]
        for cls in classes:
            for k in range(1 if variant else nseeds):
                n = rng.choice([8, 9, 12]) if not ctx.thorough else rng.choice([5, 8, 13, 40, 150])
                todo.append((spec.name, cls, rng.randrange(10 ** 9), n, None))
    # value classes (ties, censored, rounded, zeros, constant variable, repeated observations, missing values,
    # negative values, extreme magnitudes, extreme sizes) x input classes in which the function may receive the
    # caller's own float64 memory (ndarray C / strided / Fortran, pandas) and a few converting ones.  They run
    # after the plain calls, which tell which functions take a sample of observations at all.
    _VC["thorough"] = bool(ctx.thorough)
    direct = [("nd", "f8", "C"), ("nd", "f8", "S"), ("nd", "f8", "F")]
    other = [("pd", "f8", "C"), ("nd", "f4", "C"), ("list", "f8", "C")]
    off = rng.randrange(12)
    for si, spec in enumerate(catalogue):
        for vi, vc in enumerate(VCLASSES):
            r = si + vi + off
            if spec.classes:
                classes = [spec.classes[r % len(spec.classes)]]
            elif ctx.thorough:
                classes = direct + other + [("mix", str(rng.randrange(10 ** 6)), "")]
            else:       # quick: one direct class per (function, value class), a converting one for every third
                classes = [direct[r % 3]]
                if r % 3 == 0:
                    classes.append((other + [("mix", str(rng.randrange(10 ** 6)), "")])[(r // 3) % 4])
            for cls in classes:
                n = (rng.choice([1, 2, 3]) if vc == "small" else ctx.scale(600, 1500) if vc == "large" else
                     rng.choice([8, 9, 12, 20]) if not ctx.thorough else rng.choice([5, 8, 13, 40, 150]))
                todo.append((spec.name, cls, rng.randrange(10 ** 9), n, vc))
    byname = {s.name: s for s in catalogue}
    pipe_seen = set()
    takes_sample = {}      # function -> a build of it contained a sample of observations
    nvc = {}

    for (fname, cls, sub, n, vc) in todo:
        spec = byname.get(fname)
        if spec is None:
            continue
        if vc is not None and takes_sample.get(fname) is False:
            continue           # nothing to re-shape in the arguments of this function
        crng = random.Random(f"{fname}:{sub}")
        replay = {"fn": fname, "cls": list(cls), "sub": sub, "n": n}
        if vc is not None:
            replay["vc"] = vc
        vkey = f"{fname}:{sub}"
        _VC.update(vc=vc, key=vkey, used=False)
        with warnings.catch_warnings():
            warnings.simplefilter("ignore")
            with np.errstate(all="ignore"):
                try:
                    raw = spec.build(crng, n)
                except Exception as e:      # a builder that fails is a harness problem, not a verdict
                    _VC.update(vc=None)
                    outcome.setdefault(fname, {"ok": 0, "raised": 0, "build_failed": 0})
                    outcome[fname]["build_failed"] = outcome[fname].get("build_failed", 0) + 1
                    ctx.notes.setdefault("build_failures", []).append(f"{fname}: {type(e).__name__}: {e}"[:200])
                    continue
        built_own = _VC["used"]
        _VC.update(vc=None)
        args, guards = {}, {}
        has_sample = [built_own]

        def conv(v, nm):
            if isinstance(v, Arr):
                has_sample[0] = has_sample[0] or (v.data and v.a.size > 1)
                o, extra = convert(v, cls, nm, vc, vkey)
                return o, extra
            if isinstance(v, dict):
                out, extra = {}, []
                for kk, vv in v.items():
                    o, e = conv(vv, f"{nm}.{kk}")
                    out[kk] = o
                    extra += e
                return out, extra
            return v, []
        for kname, v in raw.items():
            o, extra = conv(v, kname)
            args[kname] = o
            guards[kname] = extra
        if vc is None:
            takes_sample[fname] = takes_sample.get(fname, False) or has_sample[0]
        elif not has_sample[0]:
            continue
        if vc is not None:
            nvc[vc] = nvc.get(vc, 0) + 1
        before = {kname: (snap(o), [snap(b) for b in guards[kname]]) for kname, o in args.items()}
        shown = {kname: short(o, 6 if vc is None else 40) for kname, o in args.items()}
        replay["arguments"] = shown
        seed = crng.randrange(2 ** 31)

        def one_call():
            np.random.seed(seed)
            random.seed(seed)
            with warnings.catch_warnings():
                warnings.simplefilter("ignore")
                with np.errstate(all="ignore"), quiet_stdout():
                    return spec.call(args)

        # holders for the probes
        probe.holders = []
        for i, an in enumerate(spec.margs):
            obj = args.get(an)
            probe.holders.append((f"(PArg {i})", (lambda obj=obj: mem_of(obj))))
        if spec.selfkind == "grid":
            probe.holders.append(("PGrid", (lambda g=args["self"]: [g._data])))
        if spec.selfkind == "catchment":
            c = args["self"]
            probe.holders.append(("PGrid", (lambda c=c: [c._flowdir._data])))
            probe.holders.append(("PState", (lambda c=c: [x for x in (c._idxcells_area, c._idxcells_area_filled,
                                                                       c._idxcells_boundary)
                                                           if isinstance(x, np.ndarray)])))
        probe.holders.append(("PGlobal", (lambda: [hygrid.FLOWDIRCODE])))
        probe.records = []
        cm.mark({"call": fname, "class": list(cls), "vc": vc, "arguments": shown})
        res1, err = None, None
        try:
            res1 = canon(one_call())
        except Exception as e:
            err = e
        recs = probe.records
        probe.records = None
        oc = outcome.setdefault(fname, {"ok": 0, "raised": 0})
        oc["ok" if err is None else "raised"] += 1
        if err is not None:
            oc.setdefault("why", {})["/".join(cls[:1] if cls[0] == "mix" else cls)] = f"{type(err).__name__}: {err}"[:90]
        status = "ok" if err is None else "raised:" + type(err).__name__

        # -- arguments unchanged?
        mutated = False
        for kname, o in args.items():
            if kname in spec.skipargs:
                continue
            b0, g0 = before[kname]
            d = snap_diff(b0, snap(o))
            gd = None
            for gb, gbuf in zip(g0, guards[kname]):
                gd = gd or snap_diff(gb, snap(gbuf))
            if d or gd:
                mutated = True
                what = (f"{fname} changed its argument `{kname}` ({d or 'memory around the strided view'}) "
                        f"for input class {cls}" + ("" if vc is None else f", value class `{vc}`")
                        + ("" if err is None else f" before raising {type(err).__name__}"))
                key = f"C18/{fname.split('[')[0]}/argument-mutated:{kname}" + ("" if err is None else "/then-raised")
                rp = dict(replay, argument=kname, aspect=d or "surrounding-buffer", before=shown[kname],
                          after=short(o, 6 if vc is None else 40), outcome=status)
                full = _unsnap(b0)
                if isinstance(full, np.ndarray) and full.size <= 400 and isinstance(o, np.ndarray) and o.shape == full.shape:
                    rp["before_full"] = [repr(float(x)) if full.dtype.kind == "f" else int(x) for x in full.ravel()]
                    rp["changed_positions"] = [[int(i) for i in ix] for ix in
                                               np.argwhere(~((full == o) | ((full != full) & (o != o))))[:20]]
                orc_fail.add(-1 - len(orc_fail))
                ctx.failure(key, rp, what)
        ctx.count((fname, cls if cls[0] != "mix" else ("mix",), status.split(":")[0], mutated, vc))
        if len(ctx.samples) < 6 and err is None and rng.random() < 0.02:
            ctx.sample({"fn": fname, "class": list(cls), "arguments": shown, "outcome": status})

        # -- pipeline observation -> Coq case.  The layout classes of the model assume shapes without unit axes
        # (an array with an axis of length <= 1 is C- and Fortran-contiguous at once, `squeeze` drops the axis:
        # notes/C18.md, G): such arguments (value class `small`, n = 1) are decided by the search alone.
        def unit_axis(o):
            try:
                return any(k <= 1 for k in np.shape(o))
            except Exception:
                return False
        if spec.site and recs and not any(unit_axis(args.get(an)) for an in spec.margs):
            descs = [coq_desc(args.get(an)) for an in spec.margs]
            selfd = coq_desc(args["self"]) if spec.selfkind else None
            if all(d is not None for d in descs):
                calls = []
                for ename, accepted, params in recs:
                    ps = "; ".join(f"({cm.coq_string(an)}, {coq_pdesc(d)}, {pv or 'PFresh'})" for an, d, pv in params)
                    calls.append(f"({cm.coq_string(ename)}, {cm.coq_bool(accepted)}, [{ps}])")
                sig = (spec.site, tuple(descs), selfd, tuple(calls))
                if sig not in pipe_seen:
                    pipe_seen.add(sig)
                    t = (f"CPipe {cm.coq_string(spec.site)} [{'; '.join(descs)}] "
                         f"{'None' if selfd is None else '(Some ' + selfd + ')'} [{'; '.join(calls)}]")
                    add(t, dict(replay, kind="pipeline", site=spec.site, observed=[(e, a, [(p[0], p[1], p[2]) for p in ps_])
                                                                                    for e, a, ps_ in recs]),
                        ("pipe", spec.site, tuple(descs), selfd))
        if err is not None or mutated:
            continue

        # -- repeatable?
        try:
            res2 = canon(one_call())
        except Exception as e:
            res2 = ("raised", type(e).__name__)
        if res1 != res2:
            key = f"C18/{fname.split('[')[0]}/not-repeatable"
            rp = dict(replay, first=repr(res1)[:300], second=repr(res2)[:300])
            orc_fail.add(-1 - len(orc_fail))
            ctx.failure(key, rp, f"{fname}: two consecutive calls with the same arguments and seed differ (class {cls}"
                        + ("" if vc is None else f", value class `{vc}`") + ")")
        # the second call must leave the arguments alone as well
        for kname, o in args.items():
            if kname in spec.skipargs:
                continue
            if snap_diff(before[kname][0], snap(o)):
                key = f"C18/{fname.split('[')[0]}/argument-mutated:{kname}"
                rp = dict(replay, argument=kname, after=short(o), call="second")
                orc_fail.add(-1 - len(orc_fail))
                ctx.failure(key, rp, f"{fname} changed its argument `{kname}` on the second call (class {cls})")
    probe.uninstall()

    # ---- object histories (H1-H3)
    run_histories(ctx, rng, orc_fail)

    # kernels seen to modify a parameter outside the extracted write-set
    for ename, an in sorted(set(probe.write_outside)):
        add(f"CWrite {cm.coq_string(ename)} {cm.coq_string(an)}", {"kind": "observed-write", "entry": ename, "param": an},
            ("write", ename, an))
    never = sorted(f for f, oc in outcome.items() if oc["ok"] == 0)
    ctx.notes["functions_run"] = len(outcome)
    ctx.notes["functions_never_completed"] = never
    ctx.notes["value_class_calls"] = dict(sorted(nvc.items()))
    ctx.notes["functions_taking_a_sample"] = sum(1 for v in takes_sample.values() if v)
    ctx.obligation("every value class ran on the functions taking a sample of observations (generator not degenerate)",
                   all(nvc.get(v, 0) >= 0.5 * ctx.notes["functions_taking_a_sample"] for v in VCLASSES)
                   and ctx.notes["functions_taking_a_sample"] >= 0.5 * len(catalogue))
    ctx.notes["calls_completed"] = sum(oc["ok"] for oc in outcome.values())
    ctx.notes["calls_raised"] = sum(oc["raised"] for oc in outcome.values())
    ctx.notes["idiom_cases"] = n_op
    ctx.notes["pipeline_cases"] = len(pipe_seen)
    ctx.obligation("every catalogued function ran (catalogue not degenerate)", len(outcome) >= 0.9 * len(catalogue))
    ctx.notes["outcomes"] = {f: oc for f, oc in sorted(outcome.items()) if oc["raised"] or oc.get("build_failed")}
    return terms, replays, orc_fail
