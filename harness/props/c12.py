"""C12 - bounded parameter vectors keep their invariants under any history.

Structure (see notes/HOWTO.md):
  1. cm.prove: Gen/ConstsC12.v (extractors/c12.py), Props/C12.vo, theorem list.
  2. correspondence: operation sequences on hydrodiy.data.containers.Vector, the
     whole observable state after the constructor and after every operation,
     compared inside Coq with Model/Vector.v (binary64 instance), exactly;
     the transform parameter tables extracted from transform.py against the live
     transform objects.
  3. oracle, independent of the model, on the same runs: invariants, frame,
     rejection, hit flag, clone / dictionary round trip (state and independence).
     Histories also contain read-only uses of the SAME object ("look": export
     to a dictionary + round trip, clone, reads by name / through the properties,
     printing, to_series) after which the history continues with the original,
     not with the copy; a history that assigns after an export / a copy ends with
     an export and a clone of its final state.  An export / a copy must reproduce the state read from the attributes
     at that moment whatever was exported, copied or assigned before, and a
     read-only use must leave the vector as it was.
  4. search on the transform classes: read-only calls interleaved with
     assignments must leave params / constants (values and bounds) unchanged.
  5. a bounded vector reached THROUGH ITS OWNER (every class of transform.__all__,
     also built with constructor keywords, and the base class Transform holding
     generated vectors of every flag combination): every assignment route
     (attribute / item on the transform, attribute / item on trans.params and
     trans.constants, .values = list / tuple / array / strided view, reset of the
     transform and of the vector, unknown names, wrong lengths, constructor and
     get_transform keywords) x values inside, on, just outside (1e-6), far
     outside (1e6, 1e300) the bounds, NaN, +-inf, +-0, handed over as float /
     int / numpy scalars, on a fresh owner and inside long histories (owner_sweep,
     exhaustive for one assignment; transform_search, random interleavings).
     Judged on both vectors read back with the clauses of 3 (values within
     bounds, NaN only when allowed, frame, a rejected assignment leaves all
     untouched, stored value = plain clip, hit flag exact, the vector not
     addressed and another owner of the same class untouched, the caller's
     array not kept, reads through the owner give the stored values).
  6. by-key assignments and reads with an UNKNOWN key drawn from the object's own
     vocabulary (every dunder-free word of dir(Vector) / dir(transform): "_values",
     "_mins", "values", "reset", "clone", "nval", ...) next to ordinary unknown keys,
     on bare vectors, on a transform, on trans.params / trans.constants
     (vocab_sweep): crash-proof snapshot (an unreadable state is a violation), a
     rejected assignment / a read leaves all untouched, frame, invariants, an
     assignment naming no component changes no value / flag, methods still
     callable, clone / round trip / reset still work.
"""
import itertools
import math
from fractions import Fraction as Fr

import numpy as np

from harness import common as cm

PID = "C12"
HEADER = ("From Coq Require Import ZArith List String PrimFloat.\n"
          "From Hy Require Import Base.Num Gen.ConstsC12 Model.Vector.\n"
          "Open Scope string_scope.")

NAN = float("nan")
INF = float("inf")
TOL = Fr(1, 10 ** 6)          # the property's "at least 1e-6 away from a bound"
NAMEPOOL = ["a", "b", "c", "d", "lam", "nu", "x1", "alpha_2", "Scale"]
FOREIGN = ["zz", "other"]     # identifiers that are neither names nor members of Vector
FIELDS = ("names", "mins", "maxs", "defaults", "values", "hit", "cb", "chb", "an")
# read-only uses of a vector (the history continues with the same object)
LOOKS = ("dict", "clone", "read", "str", "series")
LOOK_FN = {"dict": "from_dict", "clone": "clone", "read": "read", "str": "str", "series": "to_series"}


# ----------------------------------------------------------------------------
# observation of the implementation

def snap(v):
    return {"names": [str(x) for x in v.names],
            "mins": [float(x) for x in v.mins], "maxs": [float(x) for x in v.maxs],
            "defaults": [float(x) for x in v.defaults], "values": [float(x) for x in v.values],
            "hit": bool(v.hitbounds), "cb": bool(v.check_bounds),
            "chb": bool(v.check_hitbounds), "an": bool(v.accept_nan)}


def same_num(a, b):
    return (math.isnan(a) and math.isnan(b)) or a == b


def same_list(a, b):
    return len(a) == len(b) and all(same_num(x, y) for x, y in zip(a, b))


def same_field(k, a, b):
    if k == "names":
        return a == b
    if k in ("mins", "maxs", "defaults", "values"):
        return same_list(a, b)
    return a == b


def diff_fields(a, b):
    return [k for k in FIELDS if not same_field(k, a[k], b[k])]


def construct(Vector, ctor, as_array=False):
    def arg(x):
        if x is None:
            return None
        return np.array(x, dtype=np.float64) if as_array else list(x)
    args = [arg(ctor[k]) for k in ("defaults", "mins", "maxs")]
    v = Vector(list(ctor["names"]), args[0], args[1], args[2], check_bounds=ctor["cb"],
               check_hitbounds=ctor["chb"], accept_nan=ctor["an"])
    return v, args


def apply_op(Vector, v, op):
    """-> (current vector, outcome code 0 ok / 1 ValueError / 2 other, exception text)"""
    kind = op[0]
    try:
        if kind == "attr":
            setattr(v, op[1], op[2])
        elif kind == "key":
            v[op[1]] = op[2]
        elif kind == "all":
            v.values = list(op[1])
        elif kind == "reset":
            v.reset()
        elif kind == "clone":
            v = v.clone()
        elif kind == "dict":
            v = Vector.from_dict(v.to_dict())
        else:
            raise RuntimeError(f"unknown op {op}")
        return v, 0, ""
    except ValueError as e:
        return v, 1, f"ValueError: {e}"
    except RuntimeError:
        raise
    except Exception as e:   # any other exception class: reported through the outcome code
        return v, 2, f"{type(e).__name__}: {e}"


# ----------------------------------------------------------------------------
# Coq terms

def c_slist(xs):
    return "[" + "; ".join(cm.coq_string(x) for x in xs) + "]"


def c_state(o):
    return (f"(mkV {c_slist(o['names'])} {cm.coq_flist(o['mins'])} {cm.coq_flist(o['maxs'])} "
            f"{cm.coq_flist(o['defaults'])} {cm.coq_flist(o['values'])} {cm.coq_bool(o['hit'])} "
            f"{cm.coq_bool(o['cb'])} {cm.coq_bool(o['chb'])} {cm.coq_bool(o['an'])})")


def c_op(op):
    k = op[0]
    if k == "attr":
        return f"(OSetAttr {cm.coq_string(op[1])} {cm.coq_float(op[2])})"
    if k == "key":
        return f"(OSetKey {cm.coq_string(op[1])} {cm.coq_float(op[2])})"
    if k == "all":
        return f"(OSetAll {cm.coq_flist(op[1])})"
    return {"reset": "OReset", "clone": "OClone", "dict": "ODict"}[k]


def c_hist(ctor, s0, ops, trace):
    # a read-only use ("look") is not an operation of the value-semantics model: the model sees the
    # history without it (that it leaves the state unchanged is the oracle's clause; if it did not,
    # the next state would disagree with the model as well)
    keep = [i for i, o in enumerate(ops) if o[0] != "look"]
    if trace:
        trace = [trace[i] for i in keep]
    ops = [ops[i] for i in keep]
    exp0 = "None" if s0 is None else f"(Some {c_state(s0)})"
    return (f"VHist {c_slist(ctor['names'])} {cm.coq_option(ctor['defaults'], cm.coq_flist)} "
            f"{cm.coq_option(ctor['mins'], cm.coq_flist)} {cm.coq_option(ctor['maxs'], cm.coq_flist)} "
            f"{cm.coq_bool(ctor['cb'])} {cm.coq_bool(ctor['chb'])} {cm.coq_bool(ctor['an'])} {exp0} "
            f"[{'; '.join(c_op(o) for o in ops)}] "
            f"[{'; '.join('(' + cm.coq_z(c) + ', ' + c_state(s) + ')' for c, s in trace)}]")


# ----------------------------------------------------------------------------
# the property's quantifier: values on a bound or at least 1e-6 away from it

def in_quant(x, lo, hi):
    if math.isnan(x) or math.isinf(x):
        return True
    for b in (lo, hi):
        if math.isfinite(b) and x != b and abs(Fr(x) - Fr(b)) < TOL:
            return False
    return True


def expected_store(x, lo, hi):
    """what an accepted assignment of x must store, and whether that is a clip
    (plain comparisons on exact binary64 values; independent of the model)"""
    if math.isnan(x):
        return x, False
    if x < lo:
        return lo, True
    if x > hi:
        return hi, True
    return x, False


# ----------------------------------------------------------------------------
# generators

BOUND_KINDS = ["finite", "free", "lower", "upper", "point"]


def gen_bounds(rng, kind):
    lo = rng.choice([0.0, -2.5, 1e-3, 10.0, 0.1, -1e4, 1e-10])
    w = rng.choice([1.0, 0.5, 100.0, 3.0, 1e-3, 2.5e-5])
    if kind == "finite":
        return lo, lo + w
    if kind == "free":
        return -INF, INF
    if kind == "lower":
        return lo, INF
    if kind == "upper":
        return -INF, lo
    return lo, lo    # point


def class_values(lo, hi):
    """representatives {class: value} of the alphabet below / on lower / inside /
    on upper / above / NaN for one component (classes that do not exist for
    these bounds are absent; an infinite bound is 'on' it)"""
    out = {}
    if math.isfinite(lo):
        for d in (0.5, 1e-6, 2e-6, 1.0):
            if in_quant(lo - d, lo, hi) and lo - d < lo:
                out["below"] = lo - d
                break
    out["onlo"] = lo
    if lo < hi:
        if math.isfinite(lo) and math.isfinite(hi):
            mid = lo + (hi - lo) / 2
        elif math.isfinite(lo):
            mid = lo + 1.5
        elif math.isfinite(hi):
            mid = hi - 1.5
        else:
            mid = 0.25
        if lo < mid < hi and in_quant(mid, lo, hi):
            out["inside"] = mid
    out["onhi"] = hi
    if math.isfinite(hi):
        for d in (0.5, 1e-6, 2e-6, 1.0):
            if in_quant(hi + d, lo, hi) and hi + d > hi:
                out["above"] = hi + d
                break
    out["nan"] = NAN
    return out


def rand_value(rng, lo, hi):
    """a random value for a component, inside the quantifier"""
    for _ in range(50):
        r = rng.random()
        cv = class_values(lo, hi)
        if r < 0.45:
            x = cv[rng.choice(sorted(cv))]
        elif r < 0.55:
            x = rng.choice([INF, -INF, 0.0, -0.0, 1e300, -1e300, 5e-324])
        elif r < 0.8 and math.isfinite(lo) and math.isfinite(hi) and lo < hi:
            x = lo + (hi - lo) * rng.random()
        else:
            base = rng.choice([b for b in (lo, hi) if math.isfinite(b)] or [0.0])
            x = base + rng.choice([-1, 1]) * rng.choice([1e-6, 1.5e-6, 1e-3, 1.0, 37.5, 1e6, rng.random()])
        if in_quant(x, lo, hi):
            return float(x)
    return lo if math.isfinite(lo) else 0.0


def gen_ctor(rng, n=None, kinds=None, flags=None, an=None, clean=False):
    """constructor arguments.  clean=True: always accepted by the constructor."""
    if n is None:
        n = rng.choice([0, 1, 1, 2, 2, 3, 4])
    names = rng.sample(NAMEPOOL, n)
    if kinds is None:
        kinds = [rng.choice(BOUND_KINDS) for _ in range(n)]
    bnds = [gen_bounds(rng, k) for k in kinds]
    mins = [b[0] for b in bnds]
    maxs = [b[1] for b in bnds]
    if an is None:
        an = rng.random() < 0.4
    if flags is None:
        flags = rng.choice([(True, False), (True, True), (True, True), (False, False)])
    defaults = []
    for lo, hi in bnds:
        cv = class_values(lo, hi)
        pick = rng.choice([c for c in ("onlo", "inside", "inside", "onhi") if c in cv
                           and math.isfinite(cv[c])] or ["zero"])
        x = 0.0 if pick == "zero" else cv[pick]
        if not (lo <= x <= hi):
            x = lo if math.isfinite(lo) else hi
        if an and rng.random() < 0.3:
            x = NAN
        defaults.append(x)
    ctor = {"names": names, "defaults": defaults, "mins": mins, "maxs": maxs,
            "cb": flags[0], "chb": flags[1], "an": an}
    if not clean:
        r = rng.random()
        # omitted arguments
        if r < 0.10:
            ctor["defaults"] = None
        elif r < 0.16:
            ctor["mins"] = None
            ctor["defaults"] = None
        elif r < 0.22:
            ctor["maxs"] = None
            ctor["defaults"] = None
        elif r < 0.26:
            ctor["mins"] = ctor["maxs"] = ctor["defaults"] = None
        # arguments the constructor must refuse
        elif r < 0.29 and n >= 2:
            ctor["names"] = [names[0]] * 2 + names[2:]
        elif r < 0.32 and n >= 1:
            i = rng.randrange(n)
            if math.isfinite(mins[i]):
                ctor["defaults"] = defaults[:i] + [mins[i] - 1.0] + defaults[i + 1:]
        elif r < 0.35 and n >= 1:
            i = rng.randrange(n)
            if math.isfinite(mins[i]):
                ctor["maxs"] = maxs[:i] + [mins[i] - 0.5] + maxs[i + 1:]
        elif r < 0.37:
            ctor["cb"], ctor["chb"] = False, True
        elif r < 0.40 and n >= 1:
            ctor["an"] = False
            ctor["defaults"] = [NAN] + list(defaults[1:])
        elif r < 0.43:
            ctor["defaults"] = list(defaults) + [0.0]
        elif r < 0.45 and n >= 1:
            ctor["mins"] = mins[:-1]
    return ctor


def op_alphabet(names, mins, maxs, full_product=True, rng=None, nall=6, looks=("dict", "clone")):
    """the operation alphabet of the exhaustive enumeration for one vector"""
    n = len(names)
    ops = []
    cvs = [class_values(lo, hi) for lo, hi in zip(mins, maxs)]
    for i, nm in enumerate(names):
        for c in ("below", "onlo", "inside", "onhi", "above", "nan"):
            if c in cvs[i]:
                ops.append(("attr", nm, cvs[i][c]))
                ops.append(("key", nm, cvs[i][c]))
    ops.append(("attr", FOREIGN[0], 1.0))
    ops.append(("key", FOREIGN[0], 1.0))
    if full_product:
        for combo in itertools.product(*[[cv[c] for c in ("below", "onlo", "inside", "onhi", "above", "nan")
                                          if c in cv] for cv in cvs]):
            ops.append(("all", list(combo)))
    else:
        for _ in range(nall):
            ops.append(("all", [cv[rng.choice(sorted(cv))] for cv in cvs]))
    ops.append(("all", [0.5] * (n + 1)))
    if n >= 1:
        ops.append(("all", [0.5] * (n - 1)))
    ops += [("reset",), ("clone",), ("dict",)]
    if n >= 1:
        # read-only uses of the same object (an empty vector has nothing an export could miss:
        # its exhaustive depth-3 alphabet is left as it was)
        ops += [("look", w) for w in looks]
    return ops


def rand_op(rng, st):
    """a random operation on a vector whose current state is st"""
    names, mins, maxs = st["names"], st["mins"], st["maxs"]
    n = len(names)
    r = rng.random()
    if r < 0.30 and n:
        i = rng.randrange(n)
        return (rng.choice(["attr", "key"]), names[i], rand_value(rng, mins[i], maxs[i]))
    if r < 0.33:
        return ("attr", rng.choice(FOREIGN), rng.choice([1.0, NAN, -3.0]))
    if r < 0.37:
        return ("key", rng.choice(FOREIGN + ["", "A"]), 1.0)
    if r < 0.62:
        return ("all", [rand_value(rng, lo, hi) for lo, hi in zip(mins, maxs)])
    if r < 0.67:
        m = rng.choice([k for k in (n - 1, n + 1, n + 2, 0) if k >= 0 and k != n])
        return ("all", [0.25] * m)
    if r < 0.74:
        return ("reset",)
    if r < 0.81:
        return ("clone",)
    if r < 0.87:
        return ("dict",)
    return ("look", rng.choice(["dict", "dict", "dict", "clone", "clone", "read", "read", "str", "series"]))


# ----------------------------------------------------------------------------
# oracle on one history (independent of the model)

def mutate_in_place(v):
    """edit every array a vector exposes (used on throw-away copies only)"""
    for arr in (v.values, v.mins, v.maxs, v.defaults):
        if len(arr):
            arr[...] = np.where(np.isnan(arr), 7.0, arr + 3.0)
    if len(v.names):
        v.names[...] = "q"


def scribble_dict(dct):
    """edit everything an export holds (the dictionary belongs to the caller)"""
    for e in dct["data"]:
        for k in ("value", "min", "max", "default"):
            e[k] = 4321.0
        e["name"] = "q"
    dct["data"].append({"name": "extra", "value": 1.0, "min": 0.0, "max": 2.0, "default": 1.0})
    dct["nval"] = dct["nval"] + 1
    dct["hitbounds"] = not dct["hitbounds"]


class Hist:
    """runs one history on the implementation, records the trace for the
    correspondence check and applies the oracle"""

    def __init__(self, ctx, Vector, fail, probe_every=6):
        self.ctx, self.Vector, self.fail = ctx, Vector, fail
        self.nprobe, self.probe_every = 0, probe_every

    def invariants(self, fn, st, replay):
        n = len(st["names"])
        if any(len(st[k]) != n for k in ("mins", "maxs", "defaults", "values")):
            self.fail(f"C12/{fn}/length-changed", replay, f"after {fn}: arrays of different lengths {st}")
            return
        for i in range(n):
            x, lo, hi = st["values"][i], st["mins"][i], st["maxs"][i]
            if math.isnan(x):
                if not st["an"]:
                    self.fail(f"C12/{fn}/nan-stored", replay,
                              f"after {fn}: NaN stored in '{st['names'][i]}' although accept_nan is False")
            elif not (lo <= x <= hi):
                self.fail(f"C12/{fn}/value-outside-bounds", replay,
                          f"after {fn}: value {x!r} of '{st['names'][i]}' outside [{lo!r}, {hi!r}]")

    def frame(self, fn, s0, st, replay):
        """names, bounds, defaults and flags are the same after a step as before it
        (hence the same as at construction, by induction over the history)"""
        for k, mode in (("names", "names-changed"), ("mins", "bounds-changed"), ("maxs", "bounds-changed"),
                        ("defaults", "defaults-changed"), ("cb", "flags-changed"), ("chb", "flags-changed"),
                        ("an", "flags-changed")):
            if not same_field(k, s0[k], st[k]):
                if fn in ("clone", "from_dict"):
                    mode = {"flags-changed": "flags-not-reproduced"}.get(mode, "state-not-reproduced")
                self.fail(f"C12/{fn}/{mode}", replay,
                          f"after {fn}: {k} = {st[k]!r}, was {s0[k]!r} before")

    def copy_state(self, fn, before, got, replay):
        """a clone / round trip of a vector in state `before` is in state `got`: every field"""
        self.frame(fn, before, got, replay)
        d = diff_fields(before, got)
        if "hit" in d:
            self.fail(f"C12/{fn}/hitbounds-not-reproduced", replay,
                      f"{fn}: hitbounds {before['hit']} -> {got['hit']}")
        if "values" in d:
            self.fail(f"C12/{fn}/state-not-reproduced", replay,
                      f"{fn}: values {before['values']} -> {got['values']}")

    def dict_content(self, before, dct, replay):
        """to_dict() of a vector whose attributes read `before`"""
        n = len(before["names"])
        ok = (dct["nval"] == n and bool(dct["hitbounds"]) == before["hit"]
              and bool(dct["check_bounds"]) == before["cb"]
              and bool(dct["check_hitbounds"]) == before["chb"]
              and bool(dct["accept_nan"]) == before["an"] and len(dct["data"]) == n
              and all(str(e["name"]) == before["names"][i]
                      and same_num(float(e["value"]), before["values"][i])
                      and same_num(float(e["min"]), before["mins"][i])
                      and same_num(float(e["max"]), before["maxs"][i])
                      and same_num(float(e["default"]), before["defaults"][i])
                      for i, e in enumerate(dct["data"])))
        if not ok:
            self.fail("C12/to_dict/content", replay, f"to_dict() = {dct} for state {before}")

    def look(self, v, what, before, replay):
        """one read-only use of vector v, whose attributes read `before`; v stays the current object.
        An export / a copy made now reproduces `before` whatever was exported, copied or assigned
        earlier; the use itself, and later edits of what it handed out, leave v as it was.
        -> exception text"""
        Vector = self.Vector
        fn = LOOK_FN[what]
        exc = ""
        handed = None
        try:
            if what == "dict":
                dct = v.to_dict()
                self.dict_content(before, dct, replay)
                w = Vector.from_dict(dct)
                if w is v:
                    self.fail("C12/from_dict/not-independent", replay, "from_dict returned the source object")
                else:
                    self.copy_state(fn, before, snap(w), replay)
                    handed = (dct, w)
            elif what == "clone":
                w = v.clone()
                if w is v:
                    self.fail("C12/clone/not-independent", replay, "clone returned the same object")
                else:
                    self.copy_state(fn, before, snap(w), replay)
                    handed = (None, w)
            elif what == "read":
                if v.nval != len(before["names"]):
                    self.fail("C12/read/nval-differs", replay, f"nval = {v.nval} for names {before['names']}")
                for i, nm in enumerate(before["names"]):
                    for how, x in (("attribute", getattr(v, nm)), ("key", v[nm])):
                        if not same_num(float(x), before["values"][i]):
                            self.fail("C12/read/by-name-differs", replay,
                                      f"'{nm}' read by {how} is {float(x)!r}, values[{i}] is "
                                      f"{before['values'][i]!r}")
            elif what == "str":
                str(v)
            elif what == "series":
                v.to_series()
            else:
                raise RuntimeError(f"unknown look {what}")
        except RuntimeError:
            raise
        except Exception as e:
            exc = f"{type(e).__name__}: {e}"
            if what in ("dict", "clone"):
                self.fail(f"C12/{fn}/raises", replay, f"{fn}() raised on a valid vector: {exc}")
            # (whether printing / to_series succeed is not the property's business)
        after = snap(v)
        d = diff_fields(before, after)
        if d:
            self.fail(f"C12/{fn}/source-changed", replay,
                      f"the read-only use {what} changed {d} of the vector: {before} -> {after}")
        elif handed is not None:
            # what was handed out belongs to the caller: editing it must not reach the vector
            try:
                if handed[0] is not None:
                    scribble_dict(handed[0])
                mutate_in_place(handed[1])
            except ValueError:
                pass
            d = diff_fields(before, snap(v))
            if d:
                self.fail(f"C12/{fn}/not-independent", replay,
                          f"editing the {'export and the ' if handed[0] is not None else ''}copy "
                          f"changed {d} of the source")
        return exc

    def run(self, ctor, ops, tag):
        Vector, ctx = self.Vector, self.ctx
        base = {"ctor": ctor, "ops": [list(o) for o in ops]}
        try:
            v, args = construct(Vector, ctor, as_array=True)
            s0 = snap(v)
        except ValueError:
            return None, []
        # --- constructor: invariants; the arguments are not aliased
        self.invariants("init", s0, base)
        if s0["hit"] or not same_list(s0["values"], s0["defaults"]) or s0["names"] != ctor["names"] \
                or (s0["cb"], s0["chb"], s0["an"]) != (ctor["cb"], ctor["chb"], ctor["an"]):
            self.fail("C12/init/state", base, f"fresh vector is {s0}")
        for a in args:
            if a is not None and len(a):
                a[...] = 12345.0
        if diff_fields(s0, snap(v)):
            self.fail("C12/init/aliases-argument", base,
                      "editing the arrays passed to the constructor changes the vector")
        trace = []
        cur = s0
        for k, op in enumerate(ops):
            before, vb = cur, v
            if op[0] == "look":
                replay = dict(base, ops=[list(o) for o in ops[:k + 1]], failing_step=k, before=before)
                self.look(v, op[1], before, replay)
                cur = snap(v)
                trace.append((0, cur))      # (dropped from the Coq term, see c_hist)
                continue
            v, code, exc = apply_op(Vector, v, op)
            after = snap(v)
            trace.append((code, after))
            kind = op[0]
            fn = {"attr": "setattr", "key": "setitem", "all": "values", "reset": "reset",
                  "clone": "clone", "dict": "from_dict"}[kind]
            replay = dict(base, ops=[list(o) for o in ops[:k + 1]], failing_step=k, before=before,
                          after=after, outcome=exc or "accepted")
            self.invariants(fn, after, replay)
            self.frame(fn, before, after, replay)
            n = len(before["names"])
            if code != 0:
                d = diff_fields(before, after)
                if d or v is not vb:
                    self.fail(f"C12/{fn}/rejected-but-state-changed", replay,
                              f"{fn} raised ({exc}) but {d} changed")
                if kind in ("clone", "dict", "reset"):
                    self.fail(f"C12/{fn}/raises", replay, f"{fn}() raised on a valid vector: {exc}")
                # (the class of the exception of a failing assignment is not the property's business:
                #  it is compared by the correspondence only)
            elif kind in ("attr", "key") and op[1] in before["names"]:
                i = before["names"].index(op[1])
                want, clipped = expected_store(op[2], before["mins"][i], before["maxs"][i])
                wantvals = before["values"][:i] + [want] + before["values"][i + 1:]
                if not same_list(after["values"], wantvals):
                    self.fail(f"C12/{fn}/stored-value-wrong", replay,
                              f"{fn}({op[1]}, {op[2]!r}) stored {after['values']}, expected {wantvals}")
                elif before["chb"] and after["hit"] != clipped:
                    self.fail(f"C12/{fn}/hitbounds-wrong", replay,
                              f"{fn}({op[1]}, {op[2]!r}): hitbounds={after['hit']} but clipped={clipped}")
            elif kind in ("all", "reset"):
                given = list(op[1]) if kind == "all" else before["defaults"]
                if len(given) == n:
                    ws = [expected_store(x, lo, hi) for x, lo, hi in zip(given, before["mins"], before["maxs"])]
                    if not same_list(after["values"], [w[0] for w in ws]):
                        self.fail(f"C12/{fn}/stored-value-wrong", replay,
                                  f"{fn} {given} stored {after['values']}, expected {[w[0] for w in ws]}")
                    elif before["chb"] and after["hit"] != any(w[1] for w in ws):
                        self.fail(f"C12/{fn}/hitbounds-wrong", replay,
                                  f"{fn} {given}: hitbounds={after['hit']} but clipped={any(w[1] for w in ws)}")
            if code == 0 and kind in ("all", "reset", "attr", "key") and not before["chb"] and after["hit"]:
                self.fail(f"C12/{fn}/hitbounds-set-without-check", replay,
                          "hitbounds became True although check_hitbounds is False")
            if code == 0 and kind in ("clone", "dict"):
                d = diff_fields(before, after)
                if "hit" in d:
                    self.fail(f"C12/{fn}/hitbounds-not-reproduced", replay,
                              f"{fn}: hitbounds {before['hit']} -> {after['hit']}")
                if "values" in d:
                    self.fail(f"C12/{fn}/state-not-reproduced", replay,
                              f"{fn}: values {before['values']} -> {after['values']}")
                if v is not vb:
                    d = diff_fields(before, snap(vb))
                    if d:
                        self.fail(f"C12/{fn}/source-changed", replay,
                                  f"{fn} changed {d} of the vector it copies")
                if v is vb:
                    self.fail(f"C12/{fn}/not-independent", replay, f"{fn} returned the same object")
                else:
                    self.nprobe += 1
                    if len(v.values) and np.shares_memory(v.values, vb.values):
                        self.fail(f"C12/{fn}/not-independent", replay,
                                  f"{fn}: the copy and the original share their values array")
                if v is not vb and self.nprobe % self.probe_every == 1:
                    # independence (every probe_every-th copy): edit a throw-away copy in place, the
                    # source must not move, and the other way round
                    try:
                        a = vb.clone() if kind == "clone" else Vector.from_dict(vb.to_dict())
                        sa = snap(vb)
                        mutate_in_place(a)
                        if diff_fields(sa, snap(vb)):
                            raise AssertionError("editing the copy changed the original")
                        b = vb.clone() if kind == "clone" else Vector.from_dict(vb.to_dict())
                        c = b.clone() if kind == "clone" else Vector.from_dict(b.to_dict())
                        sc = snap(c)
                        mutate_in_place(b)
                        if diff_fields(sc, snap(c)):
                            raise AssertionError("editing the original changed the copy")
                        ctx.count()
                    except AssertionError as e:
                        self.fail(f"C12/{fn}/not-independent", replay, f"{fn}: {e}")
                    except ValueError:
                        pass
                if kind == "dict":
                    self.dict_content(before, vb.to_dict(), replay)
            cur = after
        # --- the end of a history: the final state can be exported and copied.  (Only where that says
        # something new: the vector - or the one it was copied from - has been exported / copied before
        # and assigned to since; otherwise it is the history "..., dict" / "..., clone" of the alphabet.)
        seen = ("look", "clone", "dict")
        if ops and ops[-1][0] not in seen and any(o[0] in seen for o in ops[:-1]):
            for what in ("dict", "clone"):
                self.look(v, what, cur, dict(base, ops=[list(o) for o in ops] + [["look", what]],
                                             failing_step=len(ops), before=cur))
        ctx.count((tag, len(s0["names"]), s0["chb"], s0["an"], min(len(ops), 4),
                   any(o[0] == "look" for o in ops)))
        return s0, trace


# ----------------------------------------------------------------------------
# transforms: read-only calls must not move params / constants

RO_CALLS = ["forward", "backward", "jacobian", "params_sample", "params_logprior", "str"]


def tsnap(t):
    out = {}
    for role in ("params", "constants"):
        v = getattr(t, role)
        out[role] = {"values": [float(x) for x in v.values], "mins": [float(x) for x in v.mins],
                     "maxs": [float(x) for x in v.maxs]}
    return out


def t_call(ctx, fail, t, cname, call, arg, log, seed, spec=None):
    """one read-only call on transform t; params / constants must not move"""
    before = tsnap(t)
    log.append(["call", call, arg])
    np.random.seed(seed)
    try:
        with np.errstate(all="ignore"):
            if call == "str":
                str(t)
            elif call == "params_sample":
                t.params_sample(int(arg))
            elif call == "params_logprior":
                t.params_logprior()
            else:
                getattr(t, call)(np.array(arg, dtype=np.float64))
        exc = ""
    except Exception as e:   # a failing read-only call is not C12's business ...
        exc = f"{type(e).__name__}: {e}"
    after = tsnap(t)         # ... but it must not have moved anything either
    ctx.count(("transform", cname, call, bool(exc)))
    owner = "Transform"
    meth = {"str": "__str__"}.get(call, call)
    for klass in type(t).__mro__:
        if meth in vars(klass):
            owner = klass.__name__
            break
    for role in ("params", "constants"):
        for fld, mode in (("values", "values-changed"), ("mins", "bounds-changed"),
                          ("maxs", "bounds-changed")):
            if not same_list(before[role][fld], after[role][fld]):
                fail(f"C12/{owner}.{meth}/{role}-{mode}",
                     {"transform": cname, "spec": spec, "log": [list(e) for e in log], "before": before,
                      "after": after, "exception": exc},
                     f"{cname}().{call}(...) changed {role}.{fld}: "
                     f"{before[role][fld]} -> {after[role][fld]}")


# ----------------------------------------------------------------------------
# a bounded vector reached THROUGH ITS OWNER (a transform): every assignment route, judged by the
# property's clauses on the vector read back
#
#   t-attr   trans.<name> = x            t-key    trans[<name>] = x
#   v-attr   trans.<role>.<name> = x     v-key    trans.<role>[<name>] = x
#   v-all    trans.<role>.values = [...] (list / tuple / array / strided view; also of a wrong length)
#   t-reset  trans.reset()               v-reset  trans.<role>.reset()
#   constructor keywords / get_transform keywords (owner_construct)
#
# Owners: the 13 classes of transform.__all__ (constructor keywords varied) and the base class
# Transform(name, params, constants) holding generated vectors (all flag combinations, so that the
# hit-flag clause is exact there as well).

ROLES = ("params", "constants")
OLD_HOW = {"attr": "t-attr", "key": "t-key", "vec-key": "v-key", "all": "v-all", "reset": "t-reset"}
OWNER_FN = {"v-attr": "transform-vector.setattr", "v-key": "transform-vector.setitem",
            "v-all": "transform-vector.values", "v-reset": "transform-vector.reset"}
OWNER_METH = {"t-attr": "__setattr__", "t-key": "__setitem__", "t-reset": "reset"}
SCALAR_ROUTES = ("t-attr", "t-key", "v-attr", "v-key")
VEC_REPS = ("list", "tuple", "array", "view")


def osnap(t):
    return {role: snap(getattr(t, role)) for role in ROLES}


def odiff(a, b):
    return [f"{role}.{k}" for role in ROLES for k in diff_fields(a[role], b[role])]


def make_owner(tr, spec):
    """the owner described by a (JSON) spec"""
    cname = spec["transform"]
    if cname == "Transform":
        from hydrodiy.data.containers import Vector
        vs = [construct(Vector, spec["vectors"][role])[0] for role in ROLES]
        return tr.Transform("generic", vs[0], vs[1])
    kw = dict(spec.get("kwargs") or {})
    if spec.get("via") != "get_transform" and not spec.get("values"):
        return getattr(tr, cname)(**kw)
    kw.update(spec.get("values") or {})
    return tr.get_transform(cname, **kw)


def generic_spec(rng, np_, nc, flags_p, an_p, flags_c, an_c, kinds_p=None, kinds_c=None):
    """Transform(name, params, constants) with generated vectors of disjoint names"""
    p = gen_ctor(rng, n=np_, kinds=kinds_p, flags=flags_p, an=an_p, clean=True)
    c = gen_ctor(rng, n=nc, kinds=kinds_c, flags=flags_c, an=an_c, clean=True)
    c["names"] = rng.sample([x for x in NAMEPOOL if x not in p["names"]], nc)
    return {"transform": "Transform", "vectors": {"params": p, "constants": c}}


def scalar_reps(val):
    """the representations in which the number val can be handed over unchanged"""
    reps = ["float", "f64"]
    if math.isfinite(val) and val == int(val) and abs(val) < 2 ** 53 and (val != 0 or math.copysign(1, val) > 0):
        reps.append("int")
    with np.errstate(all="ignore"):
        if math.isnan(val) or float(np.float32(val)) == val:
            reps.append("f32")
    return reps


def conv_scalar(val, rep):
    if rep == "int":
        return int(val)
    if rep == "f64":
        return np.float64(val)
    if rep == "f32":
        return np.float32(val)
    return float(val)


def conv_vector(vals, rep):
    """-> (object handed to the setter, array to scribble on afterwards or None)"""
    if rep == "tuple":
        return tuple(float(x) for x in vals), None
    if rep == "array":
        a = np.array(vals, dtype=np.float64)
        return a, a
    if rep == "view":
        base = np.zeros(2 * len(vals), dtype=np.float64)
        base[::2] = vals
        return base[::2], base
    return [float(x) for x in vals], None


def owner_values(lo, hi):
    """{class: value} for one component: inside, on, just outside, far outside, NaN, +-inf, +-0,
    sign-flipped - all on a bound or at least 1e-6 away from it"""
    out = dict(class_values(lo, hi))
    cand = []
    if math.isfinite(lo):
        cand += [("just-below", lo - 1e-6), ("just-below", lo - 2e-6), ("far-below", lo - 1e6),
                 ("below-unit", lo - 1.0)]
    if math.isfinite(hi):
        cand += [("just-above", hi + 1e-6), ("just-above", hi + 2e-6), ("far-above", hi + 1e6),
                 ("above-unit", hi + 1.0)]
    cand += [("huge-neg", -1e300), ("huge-pos", 1e300), ("neg-inf", -INF), ("pos-inf", INF),
             ("zero", 0.0), ("neg-zero", -0.0), ("minus-two", -2.0), ("minus-three", -3.0), ("tiny", 5e-324)]
    for c, x in cand:
        if c not in out and in_quant(x, lo, hi):
            out[c] = float(x)
    return out


def owner_defining(t, meth):
    for klass in type(t).__mro__:
        if meth in vars(klass):
            return klass.__name__
    return "Transform"


def owner_judge_state(fail, fn, st, rp):
    """the clauses on a freshly observed pair of vectors (no history needed)"""
    for role in ROLES:
        H = Hist(None, None, lambda key, r, what, role=role: fail(role_key(key, role), r, what))
        H.invariants(fn, st[role], rp)
        s = st[role]
        n = len(s["names"])
        if any(len(s[k]) != n for k in ("mins", "maxs", "defaults", "values")):
            continue
        for i in range(n):
            lo, hi, d = s["mins"][i], s["maxs"][i], s["defaults"][i]
            if math.isnan(lo) or math.isnan(hi) or not lo <= hi:
                fail(f"C12/{fn}/{role}-bounds-inconsistent", rp, f"{fn}: bounds [{lo!r}, {hi!r}] of '{s['names'][i]}'")
            elif (math.isnan(d) and not s["an"]) or (not math.isnan(d) and not lo <= d <= hi):
                fail(f"C12/{fn}/{role}-default-outside-bounds", rp,
                     f"{fn}: default {d!r} of '{s['names'][i]}' for bounds [{lo!r}, {hi!r}]")


def state_valid(st):
    """the values clause on one observed state"""
    bad = []
    Hist(None, None, lambda key, r, what: bad.append(key)).invariants("x", st, None)
    return not bad


def role_key(key, role):
    head, mode = key.rsplit("/", 1)
    return f"{head}/{role}-{mode}"


def t_assign(ctx, fail, t, cname, role, how, name, val, log, rep=None, spec=None, bystander=None):
    """one assignment to a parameter / constant of transform t by the route `how`, judged on both
    vectors read back: values within bounds, NaN only when allowed, names / bounds / defaults / flags as
    before, a rejected assignment leaves everything untouched, an accepted one stores the plain clip of
    what was given (other components and the other vector untouched), the hit flag says whether that
    was a clip (never raised without check_hitbounds), the caller's array is not kept, another owner
    built the same way does not move, reads through the owner give the stored values"""
    how = OLD_HOW.get(how, how)
    before = osnap(t)
    if bystander is not None and not isinstance(bystander, tuple):
        bystander = (bystander, osnap(bystander))
    vec = getattr(t, role)
    log.append(["assign", role, how, name, val, rep])
    given = None          # what a whole-vector route was given
    scribble = None
    exc = ""
    try:
        if how == "t-attr":
            setattr(t, name, conv_scalar(val, rep))
        elif how == "t-key":
            t[name] = conv_scalar(val, rep)
        elif how == "v-attr":
            setattr(vec, name, conv_scalar(val, rep))
        elif how == "v-key":
            vec[name] = conv_scalar(val, rep)
        elif how == "v-all":
            if isinstance(val, (list, tuple)):
                given = [float(z) for z in val]
            else:               # one component replaced in the current values
                given = list(before[role]["values"])
                given[before[role]["names"].index(name)] = float(val)
            obj, scribble = conv_vector(given, rep)
            vec.values = obj
        elif how == "t-reset":
            t.reset()
        elif how == "v-reset":
            vec.reset()
        else:
            raise RuntimeError(f"unknown route {how}")
    except RuntimeError:
        raise
    except Exception as e:
        exc = f"{type(e).__name__}: {e}"
    after = osnap(t)
    if how in OWNER_METH:
        fn = f"{owner_defining(t, OWNER_METH[how])}.{OWNER_METH[how]}"
    else:
        fn = OWNER_FN[how]
    rp = None             # the replay is built when a clause fails (the log of a long history is long)
    raw_fail = fail
    made = []

    def fail(key, _r, what):
        if not made:
            made.append({"transform": cname, "spec": spec, "log": [list(e) for e in log], "before": before,
                         "after": after, "outcome": exc or "accepted"})
        raw_fail(key, made[0], what)

    ctx.count(("owner", cname, role, how, "raised" if exc else "accepted"))

    def rfail(rl):
        return lambda key, r, what: fail(role_key(key, rl), r, what)

    # --- every vector of the owner: invariants and frame
    for rl in ROLES:
        H = Hist(None, None, rfail(rl))
        if state_valid(before[rl]):     # (a breach is blamed on the step that brought it about)
            H.invariants(fn, after[rl], rp)
        H.frame(fn, before[rl], after[rl], rp)
    other = [rl for rl in ROLES if rl != role][0]
    b, a = before[role], after[role]
    n = len(b["names"])
    if exc:
        d = odiff(before, after)
        if d:
            fail(f"C12/{fn}/{role}-rejected-but-state-changed", rp, f"{how} raised ({exc}) but {d} changed")
        if how in ("t-reset", "v-reset"):
            fail(f"C12/{fn}/{role}-raises", rp, f"{how} raised on a valid vector: {exc}")
    else:
        # the vector that was not addressed keeps its state (t.reset(): whether the constants are reset
        # as well is not the property's business - they only have to stay valid)
        if how != "t-reset" and diff_fields(before[other], after[other]):
            fail(f"C12/{fn}/{other}-other-vector-changed", rp,
                 f"{how} on {role} changed {diff_fields(before[other], after[other])} of {other}")
        want = None
        if how in SCALAR_ROUTES and name in b["names"]:
            i = b["names"].index(name)
            w, clipped = expected_store(float(val), b["mins"][i], b["maxs"][i])
            want = b["values"][:i] + [w] + b["values"][i + 1:]
        elif how in SCALAR_ROUTES:
            # a name the vector does not have (accepted as an ordinary attribute of the owner)
            want, clipped = list(b["values"]), b["hit"]
        elif how == "v-all" and len(given) == n:
            ws = [expected_store(x, lo, hi) for x, lo, hi in zip(given, b["mins"], b["maxs"])]
            want, clipped = [w[0] for w in ws], any(w[1] for w in ws)
        elif how == "v-reset" or (how == "t-reset" and role == "params"):
            ws = [expected_store(x, lo, hi) for x, lo, hi in zip(b["defaults"], b["mins"], b["maxs"])]
            want, clipped = [w[0] for w in ws], any(w[1] for w in ws)
        if want is not None and len(a["values"]) == n:
            if not same_list(a["values"], want):
                fail(f"C12/{fn}/{role}-stored-value-wrong", rp,
                     f"{how}({name}, {val!r}) stored {a['values']}, expected {want}")
            elif b["chb"] and a["hit"] != clipped:
                fail(f"C12/{fn}/{role}-hitbounds-wrong", rp,
                     f"{how}({name}, {val!r}): hitbounds={a['hit']} but clipped={clipped}")
        if not b["chb"] and a["hit"]:
            fail(f"C12/{fn}/{role}-hitbounds-set-without-check", rp,
                 "hitbounds became True although check_hitbounds is False")
        if scribble is not None:
            scribble[...] = 12345.0
            if odiff(after, osnap(t)):
                fail(f"C12/{fn}/{role}-aliases-argument", rp,
                     "editing the array given to the values setter afterwards changes the vector")
    # --- reads through the owner give what the vectors hold
    now = after if (exc or scribble is None) else osnap(t)
    for rl in ROLES:
        for i, nm in enumerate(now[rl]["names"]):
            try:
                got = [("attribute", float(getattr(t, nm))), ("key", float(t[nm]))]
            except Exception as e:
                got = []
                fail(f"C12/{fn}/{rl}-read-raises", rp, f"reading '{nm}' through the owner raised {type(e).__name__}: {e}")
            for hw, x in got:
                if not same_num(x, now[rl]["values"][i]):
                    fail(f"C12/{fn}/{rl}-read-differs", rp,
                         f"'{nm}' read through the owner by {hw} is {x!r}, {rl}.values[{i}] is "
                         f"{now[rl]['values'][i]!r}")
    # --- another owner built the same way is a different object with its own vectors
    if bystander is not None:
        d = odiff(bystander[1], osnap(bystander[0]))
        if d:
            fail(f"C12/{fn}/{role}-bystander-changed", rp,
                 f"{how} on one {cname} changed {d} of another {cname} object")
    return exc


def owner_construct(ctx, fail, tr, spec):
    """constructor keywords / get_transform keywords: the vectors of what comes out obey the clauses,
    and a keyword naming a parameter / constant left the plain clip of its value (bounds read back)"""
    cname = spec["transform"]
    rp = {"transform": cname, "spec": spec, "log": []}
    try:
        with np.errstate(all="ignore"):
            t = make_owner(tr, spec)
    except Exception as e:      # a refused construction leaves nothing behind
        ctx.count(("owner-ctor", cname, spec.get("via"), "raised"))
        return None
    st = osnap(t)
    rp["after"] = st
    fn = "get_transform" if spec.get("via") != "class" else f"{cname}.__init__"
    owner_judge_state(fail, fn, st, rp)
    vals = spec.get("values") or {}
    for role in ROLES:
        s = st[role]
        for nm, x in vals.items():
            if nm in s["names"] and len(s["values"]) == len(s["names"]):
                i = s["names"].index(nm)
                w, _clip = expected_store(float(x), s["mins"][i], s["maxs"][i])
                if not same_num(s["values"][i], w):
                    fail(f"C12/{fn}/{role}-stored-value-wrong", rp,
                         f"get_transform({cname!r}, {nm}={x!r}) holds {s['values'][i]!r}, expected {w!r} "
                         f"for bounds [{s['mins'][i]!r}, {s['maxs'][i]!r}]")
        if s["hit"] and not s["chb"]:
            fail(f"C12/{fn}/{role}-hitbounds-set-without-check", rp,
                 "hitbounds is True although check_hitbounds is False")
    ctx.count(("owner-ctor", cname, spec.get("via"), "built", bool(vals)))
    return t


def transform_replay(ctx, fail, rp):
    """re-execute the log of a transform replay file"""
    from hydrodiy.stat import transform as tr
    spec = rp.get("spec") or {"transform": rp["transform"]}
    if not rp["log"]:
        owner_construct(ctx, fail, tr, spec)
        return
    t = make_owner(tr, spec)
    bys = make_owner(tr, spec)
    log = []
    for e in rp["log"]:
        if e[0] == "call":
            t_call(ctx, fail, t, rp["transform"], e[1], e[2], log, 0, spec=spec)
        else:
            t_assign(ctx, fail, t, rp["transform"], e[1], e[2], e[3], e[4], log,
                     rep=e[5] if len(e) > 5 else None, spec=spec, bystander=bys)


def class_kwargs(tr, cname):
    """the constructor keywords of a transform class that set bounds"""
    import inspect
    return [k for k in inspect.signature(getattr(tr, cname)).parameters if k in ("mininu", "minilam")]


def owner_specs(ctx, tr, rng):
    """the owners: every class of transform.__all__ with its default constructor, with constructor
    keywords, and the base class holding generated vectors"""
    specs = []
    for cname in tr.__all__:
        specs.append({"transform": cname})
        kws = class_kwargs(tr, cname)
        if kws:
            for mininu, minilam in ctx.scale([(0.1, -1.0), (0.0, 0.5)],
                                             [(0.1, -1.0), (0.0, 0.5), (2.5, 1.0), (-1.0, -3.0), (1e-3, 0.0)]):
                kw = {k: {"mininu": mininu, "minilam": minilam}[k] for k in kws}
                specs.append({"transform": cname, "kwargs": kw})
    gen = [(1, 1, (True, True), False, (True, True), True, ["finite"], ["lower"]),
           (2, 0, (True, True), True, (True, False), False, ["finite", "lower"], []),
           (2, 2, (True, False), False, (True, True), False, ["free", "finite"], ["upper", "point"]),
           (0, 1, (True, False), False, (False, False), True, [], ["finite"])]
    if ctx.thorough:
        gen += [(3, 1, (True, True), False, (False, False), False, None, None),
                (1, 3, (False, False), True, (True, True), True, None, None),
                (4, 4, (True, True), True, (True, True), False, None, None),
                (2, 1, (True, True), False, (True, True), False, ["point", "upper"], ["free"])]
    for g in gen:
        specs.append(generic_spec(rng, *g))
    return specs


def owner_sweep(ctx, fail):
    """exhaustive, one assignment: every owner x every vector x every name x every value class x every
    route, on a fresh owner and (all of them, shuffled) as one history on a re-used owner; wrong
    lengths, unknown names, resets; constructor / get_transform keywords"""
    from hydrodiy.stat import transform as tr
    rng = ctx.rng
    for spec in owner_specs(ctx, tr, rng):
        cname = spec["transform"]
        cm.mark({"transform": cname, "spec": spec, "phase": "owner-sweep"})
        try:
            t0 = make_owner(tr, spec)
        except Exception:
            continue      # (a class that cannot be built is reported with the transform tables)
        owner_judge_state(fail, f"{cname}.__init__", osnap(t0), {"transform": cname, "spec": spec, "log": []})
        st = osnap(t0)
        steps = []
        k = 0
        for role in ROLES:
            s = st[role]
            n = len(s["names"])
            for i, nm in enumerate(s["names"]):
                for c, x in sorted(owner_values(s["mins"][i], s["maxs"][i]).items()):
                    reps = scalar_reps(x)
                    for how in SCALAR_ROUTES:
                        for rep in (reps if ctx.thorough else [reps[k % len(reps)]]):
                            steps.append((role, how, nm, x, rep))
                        k += 1
                    for rep in (VEC_REPS if ctx.thorough else [VEC_REPS[k % len(VEC_REPS)]]):
                        steps.append((role, "v-all", nm, x, rep))
                    k += 1
            if n:
                for m in sorted({n - 1, n + 1, 0} - {n}):
                    steps.append((role, "v-all", None, [0.25] * m, VEC_REPS[k % len(VEC_REPS)]))
                    k += 1
                steps.append((role, "v-reset", None, None, None))
            for how in ("t-attr", "t-key", "v-attr", "v-key"):
                steps.append((role, how, FOREIGN[0], 1.0, "float"))
        steps.append(("params", "t-reset", None, None, None))
        # fresh owner for every step (quick tier: not for the constructor-keyword variants of a class)
        bys = make_owner(tr, spec)
        bys = (bys, osnap(bys))
        for role, how, nm, x, rep in (steps if ctx.thorough or not spec.get("kwargs") else []):
            t_assign(ctx, fail, make_owner(tr, spec), cname, role, how, nm, x, [], rep=rep, spec=spec, bystander=bys)
        # the same steps, shuffled, as one history on one owner (thorough: twice, the second pass
        # starting from whatever the first left behind)
        t = make_owner(tr, spec)
        log = []
        for _ in range(ctx.scale(1, 2)):
            order = list(steps)
            rng.shuffle(order)
            for role, how, nm, x, rep in order:
                t_assign(ctx, fail, t, cname, role, how, nm, x, log, rep=rep, spec=spec, bystander=bys)
    # ---- constructor keywords / get_transform keywords
    mininus = ctx.scale([1e-10, 0.1, -1.0], [1e-10, 0.0, 0.1, 1e-3, 2.5, -1.0, 1e6])
    minilams = ctx.scale([0.0, -1.0, 1.0], [0.0, -1.0, 0.5, 1.0, 2.0, -3.0, 3.0, 3.5, -4.0])
    for cname in tr.__all__:
        kws = class_kwargs(tr, cname)
        combos = [{}]
        if kws:
            combos += [{k: {"mininu": a, "minilam": b}[k] for k in kws} for a in mininus for b in minilams]
            combos = [dict(t) for t in sorted({tuple(sorted(c.items())) for c in combos})]
        quick_kw = [{k: v for k, v in q.items() if k in kws}
                    for q in ({"mininu": 0.1, "minilam": -1.0}, {"mininu": -1.0, "minilam": 1.0})]
        for kw in combos:
            for via in ("class", "get_transform"):
                t = owner_construct(ctx, fail, tr, {"transform": cname, "kwargs": kw, "via": via})
            if t is None:
                continue
            if not ctx.thorough and kw and kw not in quick_kw:
                continue      # (quick tier: the keyword values are swept for three keyword settings only)
            st = osnap(t)
            named = [(role, nm, st[role]["mins"][i], st[role]["maxs"][i])
                     for role in ROLES for i, nm in enumerate(st[role]["names"])]
            for role, nm, lo, hi in named:
                for c, x in sorted(owner_values(lo, hi).items()):
                    vals = {nm: x}
                    if len(named) > 1 and rng.random() < 0.5:
                        _r, nm2, lo2, hi2 = rng.choice([q for q in named if q[1] != nm])
                        ov = owner_values(lo2, hi2)
                        vals[nm2] = ov[rng.choice(sorted(ov))]
                    owner_construct(ctx, fail, tr, {"transform": cname, "kwargs": kw, "values": vals,
                                                    "via": "get_transform"})


# ----------------------------------------------------------------------------
# UNKNOWN keys drawn from the object's own vocabulary: v[key] = x / v[key] / trans[key] = x /
# trans.params[key] = x ... where key is not a name of the vector but an attribute / property / method
# name of Vector or of the transform ("_values", "_mins", "values", "reset", "clone", "nval", ...: every
# dunder-free word of dir(obj)), next to ordinary unknown keys.  The property's clauses on the state
# read back (crash-proof: a state that cannot be read any more is itself a violation): a rejected
# assignment and a read leave everything untouched; names, bounds, defaults, flags never change;
# values within bounds, NaN only when allowed; an assignment that names no component changes no
# value and does not touch the hit flag; the methods are still callable and clone / round trip /
# reset still work.

ORDINARY_UNKNOWN = ["zz", "other", "", "A", "a ", 0, None]
VOCAB_METHODS = {}


def vocabulary(obj):
    return [d for d in dir(obj) if not (d.startswith("__") and d.endswith("__"))]


def vocab_target(obj, tg):
    return obj if tg == "self" else getattr(obj, tg)


def vocab_make(Vector, tr, case):
    if case["kind"] == "vector":
        obj = construct(Vector, case["ctor"])[0]
    else:
        obj = make_owner(tr, case["spec"])
    for tg, key, val in case["prelude"]:
        vocab_target(obj, tg)[key] = val
    return obj


def vocab_step(ctx, fail, Vector, tr, case, obj=None):
    """one by-key assignment / read with a key that is not a name; -> False when the object is not
    to be used any further"""
    kind = case["kind"]
    tg, mode, key, val = case["step"]
    rp = {"vocab": case}
    vecs = (lambda o: {"vector": o}) if kind == "vector" else (lambda o: {r: getattr(o, r) for r in ROLES})
    observe = lambda o: {r: snap(v) for r, v in vecs(o).items()}
    try:
        if obj is None:
            obj = vocab_make(Vector, tr, case)
        before = observe(obj)
    except Exception:
        # no valid starting point (only after an earlier, reported, step damaged state that objects share)
        ctx.count(("vocab", kind, "no-start"))
        return False
    if any(key in st["names"] for st in before.values()):
        return True         # (a name of a vector: not this class)
    ck = (kind, type(obj).__name__)
    if ck not in VOCAB_METHODS:     # the methods of a pristine object of the class
        hs = dict(vecs(obj), self=obj)
        VOCAB_METHODS[ck] = [(h, w) for h, o in hs.items() for w in vocabulary(o)
                             if callable(getattr(o, w, None))]
    alive = VOCAB_METHODS[ck] if mode == "set" else []
    exc = ""
    try:
        if mode == "set":
            vocab_target(obj, tg)[key] = val
        else:
            vocab_target(obj, tg)[key]
    except Exception as e:
        exc = f"{type(e).__name__}: {e}"
    if kind == "vector":
        fn = "setitem" if mode == "set" else "getitem"
    elif tg == "self":
        meth = "__setitem__" if mode == "set" else "__getitem__"
        fn = f"{owner_defining(obj, meth)}.{meth}"
    else:
        fn = "transform-vector." + ("setitem" if mode == "set" else "getitem")
    rp["outcome"] = exc or "accepted"
    rp["before"] = before
    ctx.count(("vocab", kind, tg, mode, "raised" if exc else "accepted"))
    try:
        after = observe(obj)
    except Exception as e:
        fail(f"C12/{fn}/state-unreadable", rp,
             f"after [{key!r}] {'= ' + repr(val) if mode == 'set' else '(read)'} ({exc or 'accepted'}) the state of "
             f"the vector cannot be read any more: {type(e).__name__}: {e}")
        return False
    rp["after"] = after
    ok = True
    for r in before:
        pre = "" if kind == "vector" else f"{r}-"
        rf = (lambda key_, r_, what, pre=pre: fail(key_.rsplit("/", 1)[0] + "/" + pre + key_.rsplit("/", 1)[1], r_, what))
        H = Hist(ctx, Vector, rf)
        b, a = before[r], after[r]
        if state_valid(b):
            H.invariants(fn, a, rp)
        H.frame(fn, b, a, rp)
        d = diff_fields(b, a)
        if d:
            ok = False
            if exc:
                rf(f"C12/{fn}/rejected-but-state-changed", rp, f"[{key!r}] = {val!r} raised ({exc}) but {d} changed")
            elif mode == "get":
                rf(f"C12/{fn}/source-changed", rp, f"reading [{key!r}] changed {d}")
            elif "values" in d or "hit" in d:
                rf(f"C12/{fn}/unknown-key-changed-state", rp,
                   f"[{key!r}] = {val!r} names no component but changed {d}: {b} -> {a}")
    # the methods are still there
    holders = dict(vecs(obj), self=obj)
    for h, w in alive:
        try:
            still = callable(getattr(holders[h], w))
        except Exception:
            still = False
        if not still:
            ok = False
            fail(f"C12/{fn}/method-broken", rp,
                 f"after [{key!r}] {'= ' + repr(val) if mode == 'set' else '(read)'} ({exc or 'accepted'}) "
                 f"{'the object' if h == 'self' else h}.{w} is not callable any more")
    if ok and mode == "set" and not exc:
        # accepted although it names nothing: copies and reset still work on what is left
        for r, v in vecs(obj).items():
            pre = "" if kind == "vector" else f"{r}-"
            rf = (lambda key_, r_, what, pre=pre: fail(key_.rsplit("/", 1)[0] + "/" + pre + key_.rsplit("/", 1)[1], r_, what))
            H = Hist(ctx, Vector, rf)
            for what in ("dict", "clone"):
                H.look(v, what, after[r], rp)
            try:
                v.reset()
                if not same_list(snap(v)["values"], after[r]["defaults"]):
                    rf("C12/reset/stored-value-wrong", rp, f"reset after [{key!r}] = {val!r} does not restore the defaults")
            except Exception as e:
                rf("C12/reset/raises", rp, f"reset after [{key!r}] = {val!r} raised {type(e).__name__}: {e}")
        return False
    return ok


def vocab_sweep(ctx, fail, Vector):
    from hydrodiy.stat import transform as tr
    rng = ctx.rng
    cases = []
    # --- bare vectors
    vwords = vocabulary(Vector([]))
    cfgs = [(1, ["finite"], (True, True), False), (2, ["finite", "lower"], (True, True), True),
            (1, ["free"], (True, False), False), (2, ["upper", "finite"], (False, False), True),
            (0, [], (True, False), False)]
    if ctx.thorough:
        cfgs += [(3, None, (True, True), False), (4, None, (True, False), True), (1, ["point"], (True, True), True)]
    for n, kinds, flags, an in cfgs:
        ctor = gen_ctor(rng, n=n, kinds=kinds, flags=flags, an=an, clean=True)
        preludes = [[]]
        if n:
            cv = class_values(ctor["mins"][0], ctor["maxs"][0])
            x = cv.get("above", cv.get("below", cv["onlo"]))
            preludes.append([["self", ctor["names"][0], x]])      # a clipped assignment first (flag raised)
        for prelude in preludes:
            for key in vwords + ORDINARY_UNKNOWN:
                steps = [["self", "get", key, None]] + [["self", "set", key, x] for x in
                                                         ctx.scale([1.0, NAN], [1.0, NAN, 0.25, -INF, 1e300])]
                for st in steps:
                    cases.append({"kind": "vector", "ctor": ctor, "prelude": prelude, "step": st})
    # --- owners
    specs = [{"transform": c} for c in tr.__all__]
    specs += [generic_spec(rng, 1, 1, (True, True), False, (True, True), True, ["finite"], ["lower"]),
              generic_spec(rng, 2, 0, (True, False), True, (True, False), False, ["finite", "free"], [])]
    for spec in specs:
        try:
            t = make_owner(tr, spec)
        except Exception:
            continue
        twords = vocabulary(t)
        prelude = []
        for r in ROLES:
            s = snap(getattr(t, r))
            if s["names"] and math.isfinite(s["mins"][0]):
                prelude = [[r, s["names"][0], s["mins"][0] - 1.0]]
                break
        for tg in ("self",) + ROLES:
            keys = (twords if tg == "self" else []) + vwords + ORDINARY_UNKNOWN
            for key in keys:
                for st in [[tg, "get", key, None]] + [[tg, "set", key, x] for x in ctx.scale([1.0], [1.0, NAN, -INF])]:
                    cases.append({"kind": "owner", "spec": spec, "prelude": prelude, "step": st})
    # every case on a fresh object; and, per object description, all its cases as one history on one object
    shared = {}
    for case in cases:
        cm.mark({"vocab": case})
        vocab_step(ctx, fail, Vector, tr, case)
        ident = repr((case["kind"], case.get("ctor"), case.get("spec"), case["prelude"]))
        if (ctx.thorough or case["step"][1] == "set") and shared.get(ident, True) is not False:
            if ident not in shared:
                shared[ident] = vocab_make(Vector, tr, case)
            hist_case = dict(case, note="step applied to an object that went through the earlier steps of the "
                                        "same description without any change of state")
            if not vocab_step(ctx, fail, Vector, tr, hist_case, obj=shared[ident]):
                shared[ident] = False


def transform_search(ctx, fail):
    from hydrodiy.stat import transform as tr
    rng = ctx.rng
    nseq = ctx.scale(12, 120)
    depth = ctx.scale(30, 60)
    specs = [{"transform": cname} for cname in tr.__all__]
    specs += [s for s in owner_specs(ctx, tr, rng) if s["transform"] == "Transform" or s.get("kwargs")]
    for spec in specs:
        cname = spec["transform"]
        plain = "kwargs" not in spec and cname != "Transform"
        for it in range(nseq if plain else max(2, nseq // 8)):
            try:
                t = make_owner(tr, spec)
                bys = make_owner(tr, spec)
                bys = (bys, osnap(bys))
            except Exception:
                break      # reported with the transform tables (C12/<class>.__init__/raises)
            log = []
            cm.mark({"transform": cname, "spec": spec, "sequence": it})
            for step in range(depth):
                r = rng.random()
                pn, cn = list(t.params.names), list(t.constants.names)
                if r < 0.45:
                    call = rng.choice(RO_CALLS)
                    # the first sequences of every class start with each read-only call on the fresh object
                    if it < len(RO_CALLS) and step == 0:
                        call = RO_CALLS[it]
                    ns = rng.choice([1, 2, 5, 10])
                    x = [rng.choice([rng.random(), rng.random() * 0.2, rng.uniform(-2, 5), 0.0, NAN])
                         for _ in range(rng.choice([1, 3, 6]))]
                    if cname == "Softmax":
                        x = [[abs(u) / (4 * len(x)) if not math.isnan(u) else u for u in x]]
                    t_call(ctx, fail, t, cname, call, ns if call == "params_sample" else x, log,
                           rng.randrange(2 ** 31), spec=spec)
                else:
                    # an assignment (through the transform or through its vectors)
                    role = "constants" if (cn and (not pn or rng.random() < 0.35)) else "params"
                    vec = getattr(t, role)
                    nms = list(vec.names)
                    if not nms:
                        continue
                    i = rng.randrange(len(nms))
                    lo, hi = float(vec.mins[i]), float(vec.maxs[i])
                    if rng.random() < 0.5:
                        val = rand_value(rng, lo, hi)
                    else:
                        ov = owner_values(lo, hi)
                        val = ov[rng.choice(sorted(ov))]
                    if math.isnan(val) and not vec.accept_nan and rng.random() < 0.7:
                        val = lo if math.isfinite(lo) else 0.5
                    how = rng.choice(["t-attr", "t-key", "t-key", "v-attr", "v-key", "v-all", "v-all",
                                      "t-reset", "v-reset"])
                    name, rep = nms[i], None
                    if how in SCALAR_ROUTES:
                        rep = rng.choice(scalar_reps(val))
                        if rng.random() < 0.05:
                            name, val, rep = rng.choice(FOREIGN), 1.0, "float"
                    elif how == "v-all":
                        rep = rng.choice(VEC_REPS)
                        q = rng.random()
                        if q < 0.4:
                            val = [rand_value(rng, float(a), float(b)) for a, b in zip(vec.mins, vec.maxs)]
                        elif q < 0.5:
                            val = [0.25] * rng.choice([k for k in (len(nms) - 1, len(nms) + 1, 0)
                                                       if k != len(nms)])
                    else:
                        name, val = None, None
                    t_assign(ctx, fail, t, cname, role, how, name, val, log, rep=rep, spec=spec, bystander=bys)


# ----------------------------------------------------------------------------

def run(ctx):
    ctx.rule = ("exhaustive: every sequence of 2 operations (3 for vectors without names; 3 for one name in "
                "the thorough tier) over the alphabet {set by attribute, set by key} x {below, on lower, inside, "
                "on upper, above, NaN} + unknown attribute/key + whole-vector assignments over the product "
                "alphabet + wrong lengths + reset + clone + dict round trip (continuing with the copy) + "
                "read-only uses continuing with the SAME object (export to a dictionary and round trip, clone; "
                "in the random histories also reads by name, printing, to_series), histories that assign after an "
                "export / a copy ending with an export and a clone of the final state, on vectors of 0, 1, 2 names, bound "
                "kinds finite/half-infinite/infinite/point, the three admissible flag combinations x accept_nan; "
                "random histories of up to 40 operations on vectors of 0..4 names (values on a bound or at least "
                "1e-6 away, +-inf, NaN); rejected constructor calls; 26 transform tables; vectors reached through "
                "their owner: 13 transform classes (default and keyword constructors) and Transform(name, params, "
                "constants) over generated vectors x {attribute, item on the transform; attribute, item, values= "
                "on params / constants; reset; unknown name; wrong length; get_transform keywords} x {inside, on, "
                "1e-6 / 0.5 / 1 / 1e6 outside, +-1e300, +-inf, +-0, NaN} x {float, int, float64, float32; list, "
                "tuple, array, strided view}, each on a fresh owner and in a shuffled history on one owner; "
                "unknown keys (every dunder-free word of dir(object), '', 'zz', 0, None) x {read, assign 1.0 / NaN} "
                "by key on vectors, transforms and their params / constants; "
                "non-trivial = distinct (generator, nval, check_hitbounds, accept_nan, length class) signature or "
                "(class, call, raised) or (owner, class, vector, route, outcome)")
    ctx.trusted = cm.STD_TRUST + [
        "harness/extractors/c12.py (AST evaluator of the Vector(...) calls in transform.py)",
        "aliasing between a vector and arrays held by a caller is outside the value-semantics model: "
        "tested by the search only"]
    ctx.tested_not_proved = [
        "independence of clones / round-tripped vectors (no shared arrays): tested on the implementation",
        "read-only uses of a transform leave params/constants/bounds unchanged: tested on every class of "
        "transform.__all__ (random interleavings with assignments), not modelled",
        "assignments that reach a vector through its owner (transform attribute / item, constructor and "
        "get_transform keywords): the model is of Vector alone; the routes of the owner are tested with the "
        "independent oracle on every transform class, not modelled",
        "binary64: the theorems are over the extended reals; the binary64 run of the same model text is "
        "compared with the implementation on every generated history"]
    import time
    tphase = {}
    t0 = time.time()
    proved = cm.prove(ctx)
    tphase["prove"] = round(time.time() - t0, 1)
    t0 = time.time()
    cm.use_impl()
    from hydrodiy.data.containers import Vector
    rng = ctx.rng
    terms, replays = [], []
    orc_fail = set()
    cur_idx = [None]

    def fail(key, replay, what):
        if cur_idx[0] is not None:
            orc_fail.add(cur_idx[0])
        ctx.failure(key, replay, what)

    H = Hist(ctx, Vector, fail)

    def do_hist(ctor, ops, tag):
        cur_idx[0] = len(terms)
        s0, trace = H.run(ctor, ops, tag)
        if s0 is None:
            ops = []
            ctx.count((tag, "ctor-rejected"))
        terms.append(c_hist(ctor, s0, ops, trace))
        replays.append({"ctor": ctor, "ops": [list(o) for o in ops],
                        "impl_after_ctor": s0, "impl_trace": trace[-3:]})
        if len(terms) % 3000 == 1:
            ctx.sample({"ctor": ctor, "ops": [list(o) for o in ops][:6],
                        "final": trace[-1][1] if trace else s0})
        cur_idx[0] = None

    # ---- replay file / corpus first
    pre = []
    if getattr(ctx, "replay", None):
        rp = ctx.replay.get("replay", ctx.replay)
        if isinstance(rp, dict) and "ctor" in rp:
            pre.append(rp)
        elif isinstance(rp, dict) and "first_mismatch" in rp:
            pre.append(rp["first_mismatch"])
    pre += [c for c in cm.load_corpus(PID) if "ctor" in c]
    for c in pre:
        do_hist(c["ctor"], [tuple(o) for o in c["ops"]], "corpus")

    # ---- exhaustive short histories
    FLAGS = [(True, False), (True, True), (False, False)]

    def exhaustive(n, kinds, flags, an, depth, tag, defaults_nan=False):
        ctor = gen_ctor(rng, n=n, kinds=kinds, flags=flags, an=an, clean=True)
        if defaults_nan and an and n:
            ctor["defaults"] = [NAN] + ctor["defaults"][1:]
        alpha = op_alphabet(ctor["names"], ctor["mins"], ctor["maxs"])
        for seq in itertools.product(alpha, repeat=depth):
            do_hist(ctor, list(seq), tag)

    for flags in FLAGS:
        for an in (False, True):
            exhaustive(0, [], flags, an, 3, "exh0")
    kinds1 = ctx.scale(["finite", "free", "lower"], BOUND_KINDS)
    for kind in kinds1:
        for flags in FLAGS:
            for an in (False, True):
                exhaustive(1, [kind], flags, an, 2, "exh1", defaults_nan=(kind == "lower"))
    for kinds, flags, an in ctx.scale(
            [(["finite", "upper"], (True, True), True)],
            [(["finite", "upper"], (True, True), True), (["finite", "finite"], (True, True), False),
             (["free", "lower"], (True, False), True), (["point", "finite"], (False, False), False)]):
        exhaustive(2, kinds, flags, an, 2, "exh2")
    # depth 3, one name
    if ctx.thorough:
        for kind, flags, an in [("finite", (True, True), True), ("finite", (True, True), False),
                                ("lower", (True, False), True), ("free", (True, True), True)]:
            exhaustive(1, [kind], flags, an, 3, "exh1d3")
    else:
        ctor = gen_ctor(rng, n=1, kinds=["finite"], flags=(True, True), an=True, clean=True)
        nm, lo, hi = ctor["names"][0], ctor["mins"][0], ctor["maxs"][0]
        cv = class_values(lo, hi)
        small = [("attr", nm, cv["below"]), ("key", nm, cv["inside"]), ("attr", nm, NAN),
                 ("all", [cv["above"]]), ("all", [cv["onhi"]]), ("all", [NAN]), ("key", "zz", 1.0),
                 ("all", []), ("reset",), ("clone",), ("dict",), ("look", "dict"), ("look", "clone")]
        for seq in itertools.product(small, repeat=3):
            do_hist(ctor, list(seq), "exh1d3")

    # ---- random histories
    for it in range(ctx.scale(1500, 6000)):
        ctor = gen_ctor(rng, clean=(rng.random() < 0.6))
        try:
            v, _ = construct(Vector, ctor)
            st = snap(v)
        except ValueError:
            do_hist(ctor, [], "rand")
            continue
        depth = rng.choice([1, 2, 3, 5, 8, 13, 20, 40]) if not ctx.thorough else rng.choice([3, 8, 20, 40, 80])
        ops = [rand_op(rng, st) for _ in range(depth)]
        do_hist(ctor, ops, "rand")

    # ---- transform tables: extracted Vector(...) calls against the live objects
    from harness.extractors import c12 as ex
    from hydrodiy.stat import transform as tr
    tabs = ex.transform_tables(cm.REPO)
    for i, (cname, role, _t) in enumerate(tabs):
        try:
            obj = getattr(tr, cname)()
            o = snap(getattr(obj, role))
        except Exception as e:
            # the class cannot even be instantiated: the case below cannot agree with the model
            o = {"names": [f"{type(e).__name__}"], "mins": [], "maxs": [], "defaults": [], "values": [],
                 "hit": False, "cb": False, "chb": False, "an": False}
            cur_idx[0] = len(terms)
            fail(f"C12/{cname}.__init__/raises", {"transform": cname, "log": []},
                 f"{cname}() raised {type(e).__name__}: {e}")
            cur_idx[0] = None
        terms.append(f"VTable {i}%nat {c_state(o)}")
        replays.append({"table": [cname, role], "impl": o})
        ctx.count(("table", cname, role))

    tphase["histories"] = round(time.time() - t0, 1)
    t0 = time.time()
    bad, nshards, failed = cm.run_case_files(PID, HEADER, "vcase", "v_ok", terms, shard=1500,
                                             max_bytes=900000)
    ctx.notes["correspondence_cases"] = len(terms)
    ctx.notes["correspondence_mismatches"] = len(bad)
    for k in range(nshards):
        ctx.obligation(f"Cases_{PID}_{k}.agree (model = implementation on the shard)", True)

    tphase["coq_cases"] = round(time.time() - t0, 1)
    t0 = time.time()

    # ---- transforms
    if getattr(ctx, "replay", None):
        rp = ctx.replay.get("replay", ctx.replay)
        if isinstance(rp, dict) and "transform" in rp:
            transform_replay(ctx, fail, rp)
        if isinstance(rp, dict) and "vocab" in rp:
            from hydrodiy.stat import transform as _tr
            vocab_step(ctx, fail, Vector, _tr, rp["vocab"])
    owner_sweep(ctx, fail)
    tphase["owner_sweep"] = round(time.time() - t0, 1)
    t0 = time.time()
    transform_search(ctx, fail)
    tphase["transforms"] = round(time.time() - t0, 1)
    t0 = time.time()
    # (last: with a defective by-key path these steps can damage state that objects of a class share)
    vocab_sweep(ctx, fail, Vector)
    tphase["vocab_sweep"] = round(time.time() - t0, 1)
    ctx.notes["phase_seconds"] = tphase

    cm.settle(ctx, proved, bad, failed, orc_fail, lambda i: replays[i],
              "Model/Vector.v vs data/containers.py (Vector) + transform tables")
    return ctx.finish()
