"""C12 - bounded parameter vectors keep their invariants under any history.

Structure (see notes/HOWTO.md):
  1. cm.prove: Gen/ConstsC12.v (extractors/c12.py), Props/C12.vo, theorem list.
  2. correspondence: operation sequences on hydrodiy.data.containers.Vector, the
     whole observable state after the constructor and after every operation,
     compared inside Coq with Model/Vector.v (binary64 instance), exactly;
     the transform parameter tables extracted from transform.py against the live
     transform objects.
  3. oracle, independent of the model, on the same runs: invariants, frame,
     rejection, hit flag, clone / dictionary round trip (state and independence).
     Histories also contain read-only uses of the SAME object ("look": export
     to a dictionary + round trip, clone, reads by name / through the properties,
     printing, to_series) after which the history continues with the original,
     not with the copy; a history that assigns after an export / a copy ends with
     an export and a clone of its final state.  An export / a copy must reproduce the state read from the attributes
     at that moment whatever was exported, copied or assigned before, and a
     read-only use must leave the vector as it was.
  4. search on the transform classes: read-only calls interleaved with
     assignments must leave params / constants (values and bounds) unchanged.
"""
import itertools
import math
from fractions import Fraction as Fr

import numpy as np

from harness import common as cm

PID = "C12"
HEADER = ("From Coq Require Import ZArith List String PrimFloat.\n"
          "From Hy Require Import Base.Num Gen.ConstsC12 Model.Vector.\n"
          "Open Scope string_scope.")

NAN = float("nan")
INF = float("inf")
TOL = Fr(1, 10 ** 6)          # the property's "at least 1e-6 away from a bound"
NAMEPOOL = ["a", "b", "c", "d", "lam", "nu", "x1", "alpha_2", "Scale"]
FOREIGN = ["zz", "other"]     # identifiers that are neither names nor members of Vector
FIELDS = ("names", "mins", "maxs", "defaults", "values", "hit", "cb", "chb", "an")
# read-only uses of a vector (the history continues with the same object)
LOOKS = ("dict", "clone", "read", "str", "series")
LOOK_FN = {"dict": "from_dict", "clone": "clone", "read": "read", "str": "str", "series": "to_series"}


# ----------------------------------------------------------------------------
# observation of the implementation

def snap(v):
    return {"names": [str(x) for x in v.names],
            "mins": [float(x) for x in v.mins], "maxs": [float(x) for x in v.maxs],
            "defaults": [float(x) for x in v.defaults], "values": [float(x) for x in v.values],
            "hit": bool(v.hitbounds), "cb": bool(v.check_bounds),
            "chb": bool(v.check_hitbounds), "an": bool(v.accept_nan)}


def same_num(a, b):
    return (math.isnan(a) and math.isnan(b)) or a == b


def same_list(a, b):
    return len(a) == len(b) and all(same_num(x, y) for x, y in zip(a, b))


def same_field(k, a, b):
    if k == "names":
        return a == b
    if k in ("mins", "maxs", "defaults", "values"):
        return same_list(a, b)
    return a == b


def diff_fields(a, b):
    return [k for k in FIELDS if not same_field(k, a[k], b[k])]


def construct(Vector, ctor, as_array=False):
    def arg(x):
        if x is None:
            return None
        return np.array(x, dtype=np.float64) if as_array else list(x)
    args = [arg(ctor[k]) for k in ("defaults", "mins", "maxs")]
    v = Vector(list(ctor["names"]), args[0], args[1], args[2], check_bounds=ctor["cb"],
               check_hitbounds=ctor["chb"], accept_nan=ctor["an"])
    return v, args


def apply_op(Vector, v, op):
    """-> (current vector, outcome code 0 ok / 1 ValueError / 2 other, exception text)"""
    kind = op[0]
    try:
        if kind == "attr":
            setattr(v, op[1], op[2])
        elif kind == "key":
            v[op[1]] = op[2]
        elif kind == "all":
            v.values = list(op[1])
        elif kind == "reset":
            v.reset()
        elif kind == "clone":
            v = v.clone()
        elif kind == "dict":
            v = Vector.from_dict(v.to_dict())
        else:
            raise RuntimeError(f"unknown op {op}")
        return v, 0, ""
    except ValueError as e:
        return v, 1, f"ValueError: {e}"
    except RuntimeError:
        raise
    except Exception as e:   # any other exception class: reported through the outcome code
        return v, 2, f"{type(e).__name__}: {e}"


# ----------------------------------------------------------------------------
# Coq terms

def c_slist(xs):
    return "[" + "; ".join(cm.coq_string(x) for x in xs) + "]"


def c_state(o):
    return (f"(mkV {c_slist(o['names'])} {cm.coq_flist(o['mins'])} {cm.coq_flist(o['maxs'])} "
            f"{cm.coq_flist(o['defaults'])} {cm.coq_flist(o['values'])} {cm.coq_bool(o['hit'])} "
            f"{cm.coq_bool(o['cb'])} {cm.coq_bool(o['chb'])} {cm.coq_bool(o['an'])})")


def c_op(op):
    k = op[0]
    if k == "attr":
        return f"(OSetAttr {cm.coq_string(op[1])} {cm.coq_float(op[2])})"
    if k == "key":
        return f"(OSetKey {cm.coq_string(op[1])} {cm.coq_float(op[2])})"
    if k == "all":
        return f"(OSetAll {cm.coq_flist(op[1])})"
    return {"reset": "OReset", "clone": "OClone", "dict": "ODict"}[k]


def c_hist(ctor, s0, ops, trace):
    # a read-only use ("look") is not an operation of the value-semantics model: the model sees the
    # history without it (that it leaves the state unchanged is the oracle's clause; if it did not,
    # the next state would disagree with the model as well)
    keep = [i for i, o in enumerate(ops) if o[0] != "look"]
    if trace:
        trace = [trace[i] for i in keep]
    ops = [ops[i] for i in keep]
    exp0 = "None" if s0 is None else f"(Some {c_state(s0)})"
    return (f"VHist {c_slist(ctor['names'])} {cm.coq_option(ctor['defaults'], cm.coq_flist)} "
            f"{cm.coq_option(ctor['mins'], cm.coq_flist)} {cm.coq_option(ctor['maxs'], cm.coq_flist)} "
            f"{cm.coq_bool(ctor['cb'])} {cm.coq_bool(ctor['chb'])} {cm.coq_bool(ctor['an'])} {exp0} "
            f"[{'; '.join(c_op(o) for o in ops)}] "
            f"[{'; '.join('(' + cm.coq_z(c) + ', ' + c_state(s) + ')' for c, s in trace)}]")


# ----------------------------------------------------------------------------
# the property's quantifier: values on a bound or at least 1e-6 away from it

def in_quant(x, lo, hi):
    if math.isnan(x) or math.isinf(x):
        return True
    for b in (lo, hi):
        if math.isfinite(b) and x != b and abs(Fr(x) - Fr(b)) < TOL:
            return False
    return True


def expected_store(x, lo, hi):
    """what an accepted assignment of x must store, and whether that is a clip
    (plain comparisons on exact binary64 values; independent of the model)"""
    if math.isnan(x):
        return x, False
    if x < lo:
        return lo, True
    if x > hi:
        return hi, True
    return x, False


# ----------------------------------------------------------------------------
# generators

BOUND_KINDS = ["finite", "free", "lower", "upper", "point"]


def gen_bounds(rng, kind):
    lo = rng.choice([0.0, -2.5, 1e-3, 10.0, 0.1, -1e4, 1e-10])
    w = rng.choice([1.0, 0.5, 100.0, 3.0, 1e-3, 2.5e-5])
    if kind == "finite":
        return lo, lo + w
    if kind == "free":
        return -INF, INF
    if kind == "lower":
        return lo, INF
    if kind == "upper":
        return -INF, lo
    return lo, lo    # point


def class_values(lo, hi):
    """representatives {class: value} of the alphabet below / on lower / inside /
    on upper / above / NaN for one component (classes that do not exist for
    these bounds are absent; an infinite bound is 'on' it)"""
    out = {}
    if math.isfinite(lo):
        for d in (0.5, 1e-6, 2e-6, 1.0):
            if in_quant(lo - d, lo, hi) and lo - d < lo:
                out["below"] = lo - d
                break
    out["onlo"] = lo
    if lo < hi:
        if math.isfinite(lo) and math.isfinite(hi):
            mid = lo + (hi - lo) / 2
        elif math.isfinite(lo):
            mid = lo + 1.5
        elif math.isfinite(hi):
            mid = hi - 1.5
        else:
            mid = 0.25
        if lo < mid < hi and in_quant(mid, lo, hi):
            out["inside"] = mid
    out["onhi"] = hi
    if math.isfinite(hi):
        for d in (0.5, 1e-6, 2e-6, 1.0):
            if in_quant(hi + d, lo, hi) and hi + d > hi:
                out["above"] = hi + d
                break
    out["nan"] = NAN
    return out


def rand_value(rng, lo, hi):
    """a random value for a component, inside the quantifier"""
    for _ in range(50):
        r = rng.random()
        cv = class_values(lo, hi)
        if r < 0.45:
            x = cv[rng.choice(sorted(cv))]
        elif r < 0.55:
            x = rng.choice([INF, -INF, 0.0, -0.0, 1e300, -1e300, 5e-324])
        elif r < 0.8 and math.isfinite(lo) and math.isfinite(hi) and lo < hi:
            x = lo + (hi - lo) * rng.random()
        else:
            base = rng.choice([b for b in (lo, hi) if math.isfinite(b)] or [0.0])
            x = base + rng.choice([-1, 1]) * rng.choice([1e-6, 1.5e-6, 1e-3, 1.0, 37.5, 1e6, rng.random()])
        if in_quant(x, lo, hi):
            return float(x)
    return lo if math.isfinite(lo) else 0.0


def gen_ctor(rng, n=None, kinds=None, flags=None, an=None, clean=False):
    """constructor arguments.  clean=True: always accepted by the constructor."""
    if n is None:
        n = rng.choice([0, 1, 1, 2, 2, 3, 4])
    names = rng.sample(NAMEPOOL, n)
    if kinds is None:
        kinds = [rng.choice(BOUND_KINDS) for _ in range(n)]
    bnds = [gen_bounds(rng, k) for k in kinds]
    mins = [b[0] for b in bnds]
    maxs = [b[1] for b in bnds]
    if an is None:
        an = rng.random() < 0.4
    if flags is None:
        flags = rng.choice([(True, False), (True, True), (True, True), (False, False)])
    defaults = []
    for lo, hi in bnds:
        cv = class_values(lo, hi)
        pick = rng.choice([c for c in ("onlo", "inside", "inside", "onhi") if c in cv
                           and math.isfinite(cv[c])] or ["zero"])
        x = 0.0 if pick == "zero" else cv[pick]
        if not (lo <= x <= hi):
            x = lo if math.isfinite(lo) else hi
        if an and rng.random() < 0.3:
            x = NAN
        defaults.append(x)
    ctor = {"names": names, "defaults": defaults, "mins": mins, "maxs": maxs,
            "cb": flags[0], "chb": flags[1], "an": an}
    if not clean:
        r = rng.random()
        # omitted arguments
        if r < 0.10:
            ctor["defaults"] = None
        elif r < 0.16:
            ctor["mins"] = None
            ctor["defaults"] = None
        elif r < 0.22:
            ctor["maxs"] = None
            ctor["defaults"] = None
        elif r < 0.26:
            ctor["mins"] = ctor["maxs"] = ctor["defaults"] = None
        # arguments the constructor must refuse
        elif r < 0.29 and n >= 2:
            ctor["names"] = [names[0]] * 2 + names[2:]
        elif r < 0.32 and n >= 1:
            i = rng.randrange(n)
            if math.isfinite(mins[i]):
                ctor["defaults"] = defaults[:i] + [mins[i] - 1.0] + defaults[i + 1:]
        elif r < 0.35 and n >= 1:
            i = rng.randrange(n)
            if math.isfinite(mins[i]):
                ctor["maxs"] = maxs[:i] + [mins[i] - 0.5] + maxs[i + 1:]
        elif r < 0.37:
            ctor["cb"], ctor["chb"] = False, True
        elif r < 0.40 and n >= 1:
            ctor["an"] = False
            ctor["defaults"] = [NAN] + list(defaults[1:])
        elif r < 0.43:
            ctor["defaults"] = list(defaults) + [0.0]
        elif r < 0.45 and n >= 1:
            ctor["mins"] = mins[:-1]
    return ctor


def op_alphabet(names, mins, maxs, full_product=True, rng=None, nall=6, looks=("dict", "clone")):
    """the operation alphabet of the exhaustive enumeration for one vector"""
    n = len(names)
    ops = []
    cvs = [class_values(lo, hi) for lo, hi in zip(mins, maxs)]
    for i, nm in enumerate(names):
        for c in ("below", "onlo", "inside", "onhi", "above", "nan"):
            if c in cvs[i]:
                ops.append(("attr", nm, cvs[i][c]))
                ops.append(("key", nm, cvs[i][c]))
    ops.append(("attr", FOREIGN[0], 1.0))
    ops.append(("key", FOREIGN[0], 1.0))
    if full_product:
        for combo in itertools.product(*[[cv[c] for c in ("below", "onlo", "inside", "onhi", "above", "nan")
                                          if c in cv] for cv in cvs]):
            ops.append(("all", list(combo)))
    else:
        for _ in range(nall):
            ops.append(("all", [cv[rng.choice(sorted(cv))] for cv in cvs]))
    ops.append(("all", [0.5] * (n + 1)))
    if n >= 1:
        ops.append(("all", [0.5] * (n - 1)))
    ops += [("reset",), ("clone",), ("dict",)]
    if n >= 1:
        # read-only uses of the same object (an empty vector has nothing an export could miss:
        # its exhaustive depth-3 alphabet is left as it was)
        ops += [("look", w) for w in looks]
    return ops


def rand_op(rng, st):
    """a random operation on a vector whose current state is st"""
    names, mins, maxs = st["names"], st["mins"], st["maxs"]
    n = len(names)
    r = rng.random()
    if r < 0.30 and n:
        i = rng.randrange(n)
        return (rng.choice(["attr", "key"]), names[i], rand_value(rng, mins[i], maxs[i]))
    if r < 0.33:
        return ("attr", rng.choice(FOREIGN), rng.choice([1.0, NAN, -3.0]))
    if r < 0.37:
        return ("key", rng.choice(FOREIGN + ["", "A"]), 1.0)
    if r < 0.62:
        return ("all", [rand_value(rng, lo, hi) for lo, hi in zip(mins, maxs)])
    if r < 0.67:
        m = rng.choice([k for k in (n - 1, n + 1, n + 2, 0) if k >= 0 and k != n])
        return ("all", [0.25] * m)
    if r < 0.74:
        return ("reset",)
    if r < 0.81:
        return ("clone",)
    if r < 0.87:
        return ("dict",)
    return ("look", rng.choice(["dict", "dict", "dict", "clone", "clone", "read", "read", "str", "series"]))


# ----------------------------------------------------------------------------
# oracle on one history (independent of the model)

def mutate_in_place(v):
    """edit every array a vector exposes (used on throw-away copies only)"""
    for arr in (v.values, v.mins, v.maxs, v.defaults):
        if len(arr):
            arr[...] = np.where(np.isnan(arr), 7.0, arr + 3.0)
    if len(v.names):
        v.names[...] = "q"


def scribble_dict(dct):
    """edit everything an export holds (the dictionary belongs to the caller)"""
    for e in dct["data"]:
        for k in ("value", "min", "max", "default"):
            e[k] = 4321.0
        e["name"] = "q"
    dct["data"].append({"name": "extra", "value": 1.0, "min": 0.0, "max": 2.0, "default": 1.0})
    dct["nval"] = dct["nval"] + 1
    dct["hitbounds"] = not dct["hitbounds"]


class Hist:
    """runs one history on the implementation, records the trace for the
    correspondence check and applies the oracle"""

    def __init__(self, ctx, Vector, fail, probe_every=6):
        self.ctx, self.Vector, self.fail = ctx, Vector, fail
        self.nprobe, self.probe_every = 0, probe_every

    def invariants(self, fn, st, replay):
        n = len(st["names"])
        if any(len(st[k]) != n for k in ("mins", "maxs", "defaults", "values")):
            self.fail(f"C12/{fn}/length-changed", replay, f"after {fn}: arrays of different lengths {st}")
            return
        for i in range(n):
            x, lo, hi = st["values"][i], st["mins"][i], st["maxs"][i]
            if math.isnan(x):
                if not st["an"]:
                    self.fail(f"C12/{fn}/nan-stored", replay,
                              f"after {fn}: NaN stored in '{st['names'][i]}' although accept_nan is False")
            elif not (lo <= x <= hi):
                self.fail(f"C12/{fn}/value-outside-bounds", replay,
                          f"after {fn}: value {x!r} of '{st['names'][i]}' outside [{lo!r}, {hi!r}]")

    def frame(self, fn, s0, st, replay):
        """names, bounds, defaults and flags are the same after a step as before it
        (hence the same as at construction, by induction over the history)"""
        for k, mode in (("names", "names-changed"), ("mins", "bounds-changed"), ("maxs", "bounds-changed"),
                        ("defaults", "defaults-changed"), ("cb", "flags-changed"), ("chb", "flags-changed"),
                        ("an", "flags-changed")):
            if not same_field(k, s0[k], st[k]):
                if fn in ("clone", "from_dict"):
                    mode = {"flags-changed": "flags-not-reproduced"}.get(mode, "state-not-reproduced")
                self.fail(f"C12/{fn}/{mode}", replay,
                          f"after {fn}: {k} = {st[k]!r}, was {s0[k]!r} before")

    def copy_state(self, fn, before, got, replay):
        """a clone / round trip of a vector in state `before` is in state `got`: every field"""
        self.frame(fn, before, got, replay)
        d = diff_fields(before, got)
        if "hit" in d:
            self.fail(f"C12/{fn}/hitbounds-not-reproduced", replay,
                      f"{fn}: hitbounds {before['hit']} -> {got['hit']}")
        if "values" in d:
            self.fail(f"C12/{fn}/state-not-reproduced", replay,
                      f"{fn}: values {before['values']} -> {got['values']}")

    def dict_content(self, before, dct, replay):
        """to_dict() of a vector whose attributes read `before`"""
        n = len(before["names"])
        ok = (dct["nval"] == n and bool(dct["hitbounds"]) == before["hit"]
              and bool(dct["check_bounds"]) == before["cb"]
              and bool(dct["check_hitbounds"]) == before["chb"]
              and bool(dct["accept_nan"]) == before["an"] and len(dct["data"]) == n
              and all(str(e["name"]) == before["names"][i]
                      and same_num(float(e["value"]), before["values"][i])
                      and same_num(float(e["min"]), before["mins"][i])
                      and same_num(float(e["max"]), before["maxs"][i])
                      and same_num(float(e["default"]), before["defaults"][i])
                      for i, e in enumerate(dct["data"])))
        if not ok:
            self.fail("C12/to_dict/content", replay, f"to_dict() = {dct} for state {before}")

    def look(self, v, what, before, replay):
        """one read-only use of vector v, whose attributes read `before`; v stays the current object.
        An export / a copy made now reproduces `before` whatever was exported, copied or assigned
        earlier; the use itself, and later edits of what it handed out, leave v as it was.
        -> exception text"""
        Vector = self.Vector
        fn = LOOK_FN[what]
        exc = ""
        handed = None
        try:
            if what == "dict":
                dct = v.to_dict()
                self.dict_content(before, dct, replay)
                w = Vector.from_dict(dct)
                if w is v:
                    self.fail("C12/from_dict/not-independent", replay, "from_dict returned the source object")
                else:
                    self.copy_state(fn, before, snap(w), replay)
                    handed = (dct, w)
            elif what == "clone":
                w = v.clone()
                if w is v:
                    self.fail("C12/clone/not-independent", replay, "clone returned the same object")
                else:
                    self.copy_state(fn, before, snap(w), replay)
                    handed = (None, w)
            elif what == "read":
                if v.nval != len(before["names"]):
                    self.fail("C12/read/nval-differs", replay, f"nval = {v.nval} for names {before['names']}")
                for i, nm in enumerate(before["names"]):
                    for how, x in (("attribute", getattr(v, nm)), ("key", v[nm])):
                        if not same_num(float(x), before["values"][i]):
                            self.fail("C12/read/by-name-differs", replay,
                                      f"'{nm}' read by {how} is {float(x)!r}, values[{i}] is "
                                      f"{before['values'][i]!r}")
            elif what == "str":
                str(v)
            elif what == "series":
                v.to_series()
            else:
                raise RuntimeError(f"unknown look {what}")
        except RuntimeError:
            raise
        except Exception as e:
            exc = f"{type(e).__name__}: {e}"
            if what in ("dict", "clone"):
                self.fail(f"C12/{fn}/raises", replay, f"{fn}() raised on a valid vector: {exc}")
            # (whether printing / to_series succeed is not the property's business)
        after = snap(v)
        d = diff_fields(before, after)
        if d:
            self.fail(f"C12/{fn}/source-changed", replay,
                      f"the read-only use {what} changed {d} of the vector: {before} -> {after}")
        elif handed is not None:
            # what was handed out belongs to the caller: editing it must not reach the vector
            try:
                if handed[0] is not None:
                    scribble_dict(handed[0])
                mutate_in_place(handed[1])
            except ValueError:
                pass
            d = diff_fields(before, snap(v))
            if d:
                self.fail(f"C12/{fn}/not-independent", replay,
                          f"editing the {'export and the ' if handed[0] is not None else ''}copy "
                          f"changed {d} of the source")
        return exc

    def run(self, ctor, ops, tag):
        Vector, ctx = self.Vector, self.ctx
        base = {"ctor": ctor, "ops": [list(o) for o in ops]}
        try:
            v, args = construct(Vector, ctor, as_array=True)
            s0 = snap(v)
        except ValueError:
            return None, []
        # --- constructor: invariants; the arguments are not aliased
        self.invariants("init", s0, base)
        if s0["hit"] or not same_list(s0["values"], s0["defaults"]) or s0["names"] != ctor["names"] \
                or (s0["cb"], s0["chb"], s0["an"]) != (ctor["cb"], ctor["chb"], ctor["an"]):
            self.fail("C12/init/state", base, f"fresh vector is {s0}")
        for a in args:
            if a is not None and len(a):
                a[...] = 12345.0
        if diff_fields(s0, snap(v)):
            self.fail("C12/init/aliases-argument", base,
                      "editing the arrays passed to the constructor changes the vector")
        trace = []
        cur = s0
        for k, op in enumerate(ops):
            before, vb = cur, v
            if op[0] == "look":
                replay = dict(base, ops=[list(o) for o in ops[:k + 1]], failing_step=k, before=before)
                self.look(v, op[1], before, replay)
                cur = snap(v)
                trace.append((0, cur))      # (dropped from the Coq term, see c_hist)
                continue
            v, code, exc = apply_op(Vector, v, op)
            after = snap(v)
            trace.append((code, after))
            kind = op[0]
            fn = {"attr": "setattr", "key": "setitem", "all": "values", "reset": "reset",
                  "clone": "clone", "dict": "from_dict"}[kind]
            replay = dict(base, ops=[list(o) for o in ops[:k + 1]], failing_step=k, before=before,
                          after=after, outcome=exc or "accepted")
            self.invariants(fn, after, replay)
            self.frame(fn, before, after, replay)
            n = len(before["names"])
            if code != 0:
                d = diff_fields(before, after)
                if d or v is not vb:
                    self.fail(f"C12/{fn}/rejected-but-state-changed", replay,
                              f"{fn} raised ({exc}) but {d} changed")
                if kind in ("clone", "dict", "reset"):
                    self.fail(f"C12/{fn}/raises", replay, f"{fn}() raised on a valid vector: {exc}")
                # (the class of the exception of a failing assignment is not the property's business:
                #  it is compared by the correspondence only)
            elif kind in ("attr", "key") and op[1] in before["names"]:
                i = before["names"].index(op[1])
                want, clipped = expected_store(op[2], before["mins"][i], before["maxs"][i])
                wantvals = before["values"][:i] + [want] + before["values"][i + 1:]
                if not same_list(after["values"], wantvals):
                    self.fail(f"C12/{fn}/stored-value-wrong", replay,
                              f"{fn}({op[1]}, {op[2]!r}) stored {after['values']}, expected {wantvals}")
                elif before["chb"] and after["hit"] != clipped:
                    self.fail(f"C12/{fn}/hitbounds-wrong", replay,
                              f"{fn}({op[1]}, {op[2]!r}): hitbounds={after['hit']} but clipped={clipped}")
            elif kind in ("all", "reset"):
                given = list(op[1]) if kind == "all" else before["defaults"]
                if len(given) == n:
                    ws = [expected_store(x, lo, hi) for x, lo, hi in zip(given, before["mins"], before["maxs"])]
                    if not same_list(after["values"], [w[0] for w in ws]):
                        self.fail(f"C12/{fn}/stored-value-wrong", replay,
                                  f"{fn} {given} stored {after['values']}, expected {[w[0] for w in ws]}")
                    elif before["chb"] and after["hit"] != any(w[1] for w in ws):
                        self.fail(f"C12/{fn}/hitbounds-wrong", replay,
                                  f"{fn} {given}: hitbounds={after['hit']} but clipped={any(w[1] for w in ws)}")
            if code == 0 and kind in ("all", "reset", "attr", "key") and not before["chb"] and after["hit"]:
                self.fail(f"C12/{fn}/hitbounds-set-without-check", replay,
                          "hitbounds became True although check_hitbounds is False")
            if code == 0 and kind in ("clone", "dict"):
                d = diff_fields(before, after)
                if "hit" in d:
                    self.fail(f"C12/{fn}/hitbounds-not-reproduced", replay,
                              f"{fn}: hitbounds {before['hit']} -> {after['hit']}")
                if "values" in d:
                    self.fail(f"C12/{fn}/state-not-reproduced", replay,
                              f"{fn}: values {before['values']} -> {after['values']}")
                if v is not vb:
                    d = diff_fields(before, snap(vb))
                    if d:
                        self.fail(f"C12/{fn}/source-changed", replay,
                                  f"{fn} changed {d} of the vector it copies")
                if v is vb:
                    self.fail(f"C12/{fn}/not-independent", replay, f"{fn} returned the same object")
                else:
                    self.nprobe += 1
                    if len(v.values) and np.shares_memory(v.values, vb.values):
                        self.fail(f"C12/{fn}/not-independent", replay,
                                  f"{fn}: the copy and the original share their values array")
                if v is not vb and self.nprobe % self.probe_every == 1:
                    # independence (every probe_every-th copy): edit a throw-away copy in place, the
                    # source must not move, and the other way round
                    try:
                        a = vb.clone() if kind == "clone" else Vector.from_dict(vb.to_dict())
                        sa = snap(vb)
                        mutate_in_place(a)
                        if diff_fields(sa, snap(vb)):
                            raise AssertionError("editing the copy changed the original")
                        b = vb.clone() if kind == "clone" else Vector.from_dict(vb.to_dict())
                        c = b.clone() if kind == "clone" else Vector.from_dict(b.to_dict())
                        sc = snap(c)
                        mutate_in_place(b)
                        if diff_fields(sc, snap(c)):
                            raise AssertionError("editing the original changed the copy")
                        ctx.count()
                    except AssertionError as e:
                        self.fail(f"C12/{fn}/not-independent", replay, f"{fn}: {e}")
                    except ValueError:
                        pass
                if kind == "dict":
                    self.dict_content(before, vb.to_dict(), replay)
            cur = after
        # --- the end of a history: the final state can be exported and copied.  (Only where that says
        # something new: the vector - or the one it was copied from - has been exported / copied before
        # and assigned to since; otherwise it is the history "..., dict" / "..., clone" of the alphabet.)
        seen = ("look", "clone", "dict")
        if ops and ops[-1][0] not in seen and any(o[0] in seen for o in ops[:-1]):
            for what in ("dict", "clone"):
                self.look(v, what, cur, dict(base, ops=[list(o) for o in ops] + [["look", what]],
                                             failing_step=len(ops), before=cur))
        ctx.count((tag, len(s0["names"]), s0["chb"], s0["an"], min(len(ops), 4),
                   any(o[0] == "look" for o in ops)))
        return s0, trace


# ----------------------------------------------------------------------------
# transforms: read-only calls must not move params / constants

RO_CALLS = ["forward", "backward", "jacobian", "params_sample", "params_logprior", "str"]


def tsnap(t):
    out = {}
    for role in ("params", "constants"):
        v = getattr(t, role)
        out[role] = {"values": [float(x) for x in v.values], "mins": [float(x) for x in v.mins],
                     "maxs": [float(x) for x in v.maxs]}
    return out


def t_call(ctx, fail, t, cname, call, arg, log, seed):
    """one read-only call on transform t; params / constants must not move"""
    before = tsnap(t)
    log.append(["call", call, arg])
    np.random.seed(seed)
    try:
        with np.errstate(all="ignore"):
            if call == "str":
                str(t)
            elif call == "params_sample":
                t.params_sample(int(arg))
            elif call == "params_logprior":
                t.params_logprior()
            else:
                getattr(t, call)(np.array(arg, dtype=np.float64))
        exc = ""
    except Exception as e:   # a failing read-only call is not C12's business ...
        exc = f"{type(e).__name__}: {e}"
    after = tsnap(t)         # ... but it must not have moved anything either
    ctx.count(("transform", cname, call, bool(exc)))
    owner = "Transform"
    meth = {"str": "__str__"}.get(call, call)
    for klass in type(t).__mro__:
        if meth in vars(klass):
            owner = klass.__name__
            break
    for role in ("params", "constants"):
        for fld, mode in (("values", "values-changed"), ("mins", "bounds-changed"),
                          ("maxs", "bounds-changed")):
            if not same_list(before[role][fld], after[role][fld]):
                fail(f"C12/{owner}.{meth}/{role}-{mode}",
                     {"transform": cname, "log": [list(e) for e in log], "before": before, "after": after,
                      "exception": exc},
                     f"{cname}().{call}(...) changed {role}.{fld}: "
                     f"{before[role][fld]} -> {after[role][fld]}")


def t_assign(ctx, fail, t, cname, role, how, name, val, log):
    """one assignment to a parameter / constant of transform t; bounds must not move"""
    before = tsnap(t)
    vec = getattr(t, role)
    log.append(["assign", role, how, name, val])
    try:
        if how == "attr":
            setattr(t, name, val)
        elif how == "key":
            t[name] = val
        elif how == "vec-key":
            vec[name] = val
        elif how == "all":
            cur = [float(z) for z in vec.values]
            cur[list(vec.names).index(name)] = val
            vec.values = cur
        else:
            t.reset()
    except ValueError:
        pass
    now = tsnap(t)
    ctx.count()
    for rl in ("params", "constants"):
        for fld in ("mins", "maxs"):
            if not same_list(before[rl][fld], now[rl][fld]):
                fail(f"C12/transform-assign/{rl}-bounds-changed",
                     {"transform": cname, "log": [list(e) for e in log], "before": before, "after": now},
                     f"{cname}: an assignment changed {rl}.{fld}")


def transform_replay(ctx, fail, rp):
    """re-execute the log of a transform replay file"""
    from hydrodiy.stat import transform as tr
    t = tr.get_transform(rp["transform"])
    log = []
    for e in rp["log"]:
        if e[0] == "call":
            t_call(ctx, fail, t, rp["transform"], e[1], e[2], log, 0)
        else:
            t_assign(ctx, fail, t, rp["transform"], e[1], e[2], e[3], e[4], log)


def transform_search(ctx, fail):
    from hydrodiy.stat import transform as tr
    rng = ctx.rng
    nseq = ctx.scale(12, 120)
    depth = ctx.scale(30, 60)
    for cname in tr.__all__:
        for it in range(nseq):
            try:
                t = tr.get_transform(cname)
            except Exception:
                break      # reported with the transform tables (C12/<class>.__init__/raises)
            log = []
            cm.mark({"transform": cname, "sequence": it})
            for step in range(depth):
                r = rng.random()
                pn, cn = list(t.params.names), list(t.constants.names)
                if r < 0.45:
                    call = rng.choice(RO_CALLS)
                    # the first sequences of every class start with each read-only call on the fresh object
                    if it < len(RO_CALLS) and step == 0:
                        call = RO_CALLS[it]
                    ns = rng.choice([1, 2, 5, 10])
                    x = [rng.choice([rng.random(), rng.random() * 0.2, rng.uniform(-2, 5), 0.0, NAN])
                         for _ in range(rng.choice([1, 3, 6]))]
                    if cname == "Softmax":
                        x = [[abs(u) / (4 * len(x)) if not math.isnan(u) else u for u in x]]
                    t_call(ctx, fail, t, cname, call, ns if call == "params_sample" else x, log,
                           rng.randrange(2 ** 31))
                else:
                    # an assignment (through the transform or through its vectors)
                    role = "constants" if (cn and (not pn or rng.random() < 0.35)) else "params"
                    vec = getattr(t, role)
                    nms = list(vec.names)
                    if not nms:
                        continue
                    i = rng.randrange(len(nms))
                    lo, hi = float(vec.mins[i]), float(vec.maxs[i])
                    val = rand_value(rng, lo, hi)
                    if math.isnan(val) and not vec.accept_nan and rng.random() < 0.7:
                        val = lo if math.isfinite(lo) else 0.5
                    how = rng.choice(["attr", "key", "vec-key", "all", "reset"])
                    t_assign(ctx, fail, t, cname, role, how, nms[i], val, log)


# ----------------------------------------------------------------------------

def run(ctx):
    ctx.rule = ("exhaustive: every sequence of 2 operations (3 for vectors without names; 3 for one name in "
                "the thorough tier) over the alphabet {set by attribute, set by key} x {below, on lower, inside, "
                "on upper, above, NaN} + unknown attribute/key + whole-vector assignments over the product "
                "alphabet + wrong lengths + reset + clone + dict round trip (continuing with the copy) + "
                "read-only uses continuing with the SAME object (export to a dictionary and round trip, clone; "
                "in the random histories also reads by name, printing, to_series), histories that assign after an "
                "export / a copy ending with an export and a clone of the final state, on vectors of 0, 1, 2 names, bound "
                "kinds finite/half-infinite/infinite/point, the three admissible flag combinations x accept_nan; "
                "random histories of up to 40 operations on vectors of 0..4 names (values on a bound or at least "
                "1e-6 away, +-inf, NaN); rejected constructor calls; 26 transform tables; non-trivial = distinct "
                "(generator, nval, check_hitbounds, accept_nan, length class) signature or (class, call, raised)")
    ctx.trusted = cm.STD_TRUST + [
        "harness/extractors/c12.py (AST evaluator of the Vector(...) calls in transform.py)",
        "aliasing between a vector and arrays held by a caller is outside the value-semantics model: "
        "tested by the search only"]
    ctx.tested_not_proved = [
        "independence of clones / round-tripped vectors (no shared arrays): tested on the implementation",
        "read-only uses of a transform leave params/constants/bounds unchanged: tested on every class of "
        "transform.__all__ (random interleavings with assignments), not modelled",
        "binary64: the theorems are over the extended reals; the binary64 run of the same model text is "
        "compared with the implementation on every generated history"]
    import time
    tphase = {}
    t0 = time.time()
    proved = cm.prove(ctx)
    tphase["prove"] = round(time.time() - t0, 1)
    t0 = time.time()
    cm.use_impl()
    from hydrodiy.data.containers import Vector
    rng = ctx.rng
    terms, replays = [], []
    orc_fail = set()
    cur_idx = [None]

    def fail(key, replay, what):
        if cur_idx[0] is not None:
            orc_fail.add(cur_idx[0])
        ctx.failure(key, replay, what)

    H = Hist(ctx, Vector, fail)

    def do_hist(ctor, ops, tag):
        cur_idx[0] = len(terms)
        s0, trace = H.run(ctor, ops, tag)
        if s0 is None:
            ops = []
            ctx.count((tag, "ctor-rejected"))
        terms.append(c_hist(ctor, s0, ops, trace))
        replays.append({"ctor": ctor, "ops": [list(o) for o in ops],
                        "impl_after_ctor": s0, "impl_trace": trace[-3:]})
        if len(terms) % 3000 == 1:
            ctx.sample({"ctor": ctor, "ops": [list(o) for o in ops][:6],
                        "final": trace[-1][1] if trace else s0})
        cur_idx[0] = None

    # ---- replay file / corpus first
    pre = []
    if getattr(ctx, "replay", None):
        rp = ctx.replay.get("replay", ctx.replay)
        if isinstance(rp, dict) and "ctor" in rp:
            pre.append(rp)
        elif isinstance(rp, dict) and "first_mismatch" in rp:
            pre.append(rp["first_mismatch"])
    pre += [c for c in cm.load_corpus(PID) if "ctor" in c]
    for c in pre:
        do_hist(c["ctor"], [tuple(o) for o in c["ops"]], "corpus")

    # ---- exhaustive short histories
    FLAGS = [(True, False), (True, True), (False, False)]

    def exhaustive(n, kinds, flags, an, depth, tag, defaults_nan=False):
        ctor = gen_ctor(rng, n=n, kinds=kinds, flags=flags, an=an, clean=True)
        if defaults_nan and an and n:
            ctor["defaults"] = [NAN] + ctor["defaults"][1:]
        alpha = op_alphabet(ctor["names"], ctor["mins"], ctor["maxs"])
        for seq in itertools.product(alpha, repeat=depth):
            do_hist(ctor, list(seq), tag)

    for flags in FLAGS:
        for an in (False, True):
            exhaustive(0, [], flags, an, 3, "exh0")
    kinds1 = ctx.scale(["finite", "free", "lower"], BOUND_KINDS)
    for kind in kinds1:
        for flags in FLAGS:
            for an in (False, True):
                exhaustive(1, [kind], flags, an, 2, "exh1", defaults_nan=(kind == "lower"))
    for kinds, flags, an in ctx.scale(
            [(["finite", "upper"], (True, True), True)],
            [(["finite", "upper"], (True, True), True), (["finite", "finite"], (True, True), False),
             (["free", "lower"], (True, False), True), (["point", "finite"], (False, False), False)]):
        exhaustive(2, kinds, flags, an, 2, "exh2")
    # depth 3, one name
    if ctx.thorough:
        for kind, flags, an in [("finite", (True, True), True), ("finite", (True, True), False),
                                ("lower", (True, False), True), ("free", (True, True), True)]:
            exhaustive(1, [kind], flags, an, 3, "exh1d3")
    else:
        ctor = gen_ctor(rng, n=1, kinds=["finite"], flags=(True, True), an=True, clean=True)
        nm, lo, hi = ctor["names"][0], ctor["mins"][0], ctor["maxs"][0]
        cv = class_values(lo, hi)
        small = [("attr", nm, cv["below"]), ("key", nm, cv["inside"]), ("attr", nm, NAN),
                 ("all", [cv["above"]]), ("all", [cv["onhi"]]), ("all", [NAN]), ("key", "zz", 1.0),
                 ("all", []), ("reset",), ("clone",), ("dict",), ("look", "dict"), ("look", "clone")]
        for seq in itertools.product(small, repeat=3):
            do_hist(ctor, list(seq), "exh1d3")

    # ---- random histories
    for it in range(ctx.scale(1500, 6000)):
        ctor = gen_ctor(rng, clean=(rng.random() < 0.6))
        try:
            v, _ = construct(Vector, ctor)
            st = snap(v)
        except ValueError:
            do_hist(ctor, [], "rand")
            continue
        depth = rng.choice([1, 2, 3, 5, 8, 13, 20, 40]) if not ctx.thorough else rng.choice([3, 8, 20, 40, 80])
        ops = [rand_op(rng, st) for _ in range(depth)]
        do_hist(ctor, ops, "rand")

    # ---- transform tables: extracted Vector(...) calls against the live objects
    from harness.extractors import c12 as ex
    from hydrodiy.stat import transform as tr
    tabs = ex.transform_tables(cm.REPO)
    for i, (cname, role, _t) in enumerate(tabs):
        try:
            obj = getattr(tr, cname)()
            o = snap(getattr(obj, role))
        except Exception as e:
            # the class cannot even be instantiated: the case below cannot agree with the model
            o = {"names": [f"{type(e).__name__}"], "mins": [], "maxs": [], "defaults": [], "values": [],
                 "hit": False, "cb": False, "chb": False, "an": False}
            cur_idx[0] = len(terms)
            fail(f"C12/{cname}.__init__/raises", {"transform": cname, "log": []},
                 f"{cname}() raised {type(e).__name__}: {e}")
            cur_idx[0] = None
        terms.append(f"VTable {i}%nat {c_state(o)}")
        replays.append({"table": [cname, role], "impl": o})
        ctx.count(("table", cname, role))

    tphase["histories"] = round(time.time() - t0, 1)
    t0 = time.time()
    bad, nshards, failed = cm.run_case_files(PID, HEADER, "vcase", "v_ok", terms, shard=1500,
                                             max_bytes=900000)
    ctx.notes["correspondence_cases"] = len(terms)
    ctx.notes["correspondence_mismatches"] = len(bad)
    for k in range(nshards):
        ctx.obligation(f"Cases_{PID}_{k}.agree (model = implementation on the shard)", True)

    tphase["coq_cases"] = round(time.time() - t0, 1)
    t0 = time.time()

    # ---- transforms
    if getattr(ctx, "replay", None):
        rp = ctx.replay.get("replay", ctx.replay)
        if isinstance(rp, dict) and "transform" in rp:
            transform_replay(ctx, fail, rp)
    transform_search(ctx, fail)
    tphase["transforms"] = round(time.time() - t0, 1)
    ctx.notes["phase_seconds"] = tphase

    cm.settle(ctx, proved, bad, failed, orc_fail, lambda i: replays[i],
              "Model/Vector.v vs data/containers.py (Vector) + transform tables")
    return ctx.finish()
