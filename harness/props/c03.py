"""C03 - CRPS equals its definition and its decomposition is exact."""
import math
import random
from fractions import Fraction as Fr

import numpy as np

from harness import common as cm

PID = "C03"
HEADER = ("From Coq Require Import ZArith List PrimFloat.\n"
          "From Hy Require Import Base.Num Model.Crps.")
NAN = float("nan")
NAMES = ["crps", "reliability", "resolution", "uncertainty", "potential"]


# ----------------------------------------------------------------------------
# generator (inside the property's quantifier: n >= 1 forecasts, m >= 1 members,
# finite members, finite or NaN observations; plus the wrapper's two filter
# branches "no valid row" and "row whose members are all NaN")

def gen_case(rng, thorough, n_fixed=None, m_fixed=None):
    nmax = 160 if thorough else 45
    mmax = 64 if thorough else 12
    n = rng.choice([1, 2, 3, 9, 11, 21, rng.randint(1, nmax), rng.randint(1, nmax)])
    m = rng.choice([1, 2, 3, rng.randint(1, mmax), rng.randint(1, mmax)])
    if n_fixed is not None:
        n = n_fixed
    if m_fixed is not None:
        m = m_fixed
    if thorough and n * m > 4000:
        m = max(1, 4000 // n)
    kind = rng.choice(["lattice", "lattice", "coarse", "gauss", "gauss", "skew", "big"])
    scale = rng.choice([1.0, 1.0, 1e-3, 1e3, 1e6, 2.0 ** -40, 1e-12, 2.0 ** 40])
    shift = rng.choice([0.0, 0.0, 0.0, 100.0, -1e4])

    def draw():
        if kind == "lattice":      # dyadic lattice: many exact ties
            return rng.randint(-8, 8) / 4.0
        if kind == "coarse":       # very coarse: ties everywhere, +0/-0
            v = float(rng.randint(-1, 1))
            return -0.0 if (v == 0.0 and rng.random() < 0.3) else v
        if kind == "gauss":
            return rng.gauss(0, 1) * scale + shift
        if kind == "skew":
            return math.exp(rng.gauss(0, 2)) * scale
        return rng.gauss(0, 1) * 1e150   # "big": products overflow, results inf/NaN
    obs = [draw() for _ in range(n)]
    ens = [[draw() for _ in range(m)] for _ in range(n)]
    shape = rng.random()
    tag = "plain"
    if shape < 0.12:      # every observation below its whole ensemble
        tag = "below"
        obs = [min(e) - abs(draw()) - (0.25 if kind in ("lattice", "coarse") else abs(scale) * 1e-3)
               for e in ens]
    elif shape < 0.24:    # every observation above its whole ensemble
        tag = "above"
        obs = [max(e) + abs(draw()) + (0.25 if kind in ("lattice", "coarse") else abs(scale) * 1e-3)
               for e in ens]
    elif shape < 0.32:    # constant ensembles
        tag = "const-ens"
        ens = [[e[0]] * m for e in ens]
    elif shape < 0.40:    # observation equal to a member (first, last or any)
        tag = "obs-on-member"
        for i in range(n):
            r = rng.random()
            obs[i] = min(ens[i]) if r < 0.3 else max(ens[i]) if r < 0.6 else rng.choice(ens[i])
    elif shape < 0.46:    # same forecast repeated, observation constant
        tag = "all-equal"
        ens = [list(ens[0]) for _ in range(n)]
        obs = [obs[0]] * n
    elif shape < 0.52:    # already sorted / reverse sorted members
        tag = "sorted"
        rev = rng.random() < 0.5
        ens = [sorted(e, reverse=rev) for e in ens]
    nanmode = rng.random()
    if nanmode < 0.22:
        tag += "+nanobs"
        k = rng.randint(1, max(1, n // 2))
        for _ in range(k):
            obs[rng.randrange(n)] = NAN
    elif nanmode < 0.26:
        tag += "+allnanobs"
        obs = [NAN] * n
    elif nanmode < 0.32:
        tag += "+nanrow"     # rows whose members are all missing are dropped too
        for _ in range(rng.randint(1, max(1, n // 3))):
            ens[rng.randrange(n)] = [NAN] * m
    # the documented input forms: obs as [n] or [n,1] array
    form = "column" if (n >= 2 and rng.random() < 0.15) else "flat"
    return {"obs": obs, "ens": ens, "tag": tag, "kind": kind, "obsform": form}


# ----------------------------------------------------------------------------
# implementation

def run_impl(obs, ens, form="flat", layout="C"):
    """public API; returns (decomposition[5], table rows) or None on ValueError.
    `layout`: memory layout of the ensemble array handed to crps (same values)."""
    from hydrodiy.stat import metrics
    o = np.array(obs, dtype=np.float64)
    if form == "column" and len(obs) >= 2:
        o = o.reshape(-1, 1)
    e = np.array(ens, dtype=np.float64).reshape(len(obs), -1)
    if layout == "F":                 # column-major (e.g. DataFrame.values of a float frame)
        e = np.asfortranarray(e)
    elif layout == "T":               # transposed view of a members x forecasts array
        e = np.ascontiguousarray(e.T).T
    elif layout == "strided":         # every other column of a wider array
        w = np.zeros((e.shape[0], 2 * e.shape[1]))
        w[:, ::2] = e
        e = w[:, ::2]
    elif layout == "frame":
        import pandas as pd
        e = pd.DataFrame(e)
    try:
        with np.errstate(all="ignore"):
            dec, tab = metrics.crps(o, e)
    except ValueError:
        return None
    # by position: the labels are tied to the positions by the theorem
    # C03_source_constants (labels re-extracted from the source)
    d = [float(x) for x in np.asarray(dec.values, dtype=np.float64)]
    t = [[float(x) for x in row] for row in np.asarray(tab.values, dtype=np.float64)]
    return d, t


def term(case, out):
    rows = "[" + "; ".join("(%s, %s)" % (cm.coq_float(y), cm.coq_flist(e))
                           for y, e in zip(case["obs"], case["ens"])) + "]"
    if out is None:
        exp = "None"
    else:
        exp = "(Some (%s, [%s]))" % (cm.coq_flist(out[0]),
                                     "; ".join(cm.coq_flist(r) for r in out[1]))
    return "{| cr_rows := %s; cr_expect := %s |}" % (rows, exp)


# ----------------------------------------------------------------------------
# independent oracle: exact rational arithmetic on the definition

def valid_rows(obs, ens):
    return [(y, e) for y, e in zip(obs, ens)
            if not math.isnan(y) and not all(math.isnan(x) for x in e)]


def exact_pairsum(xs):
    """sum_{i<k} |x_i - x_k| (exact) through the order statistics"""
    s = sorted(xs)
    m = len(s)
    return sum((2 * k - m + 1) * s[k] for k in range(m))


def exact_crps(rows):
    n = len(rows)
    tot = Fr(0)
    for y, e in rows:
        m = len(e)
        fy = Fr(y)
        fe = [Fr(x) for x in e]
        tot += sum(abs(x - fy) for x in fe) / m - exact_pairsum(fe) / (m * m)
    return tot / n


def exact_unc(rows):
    n = len(rows)
    return exact_pairsum([Fr(y) for y, _ in rows]) / (n * n)


def magnitude(rows):
    vals = [abs(y) for y, _ in rows] + [abs(x) for _, e in rows for x in e]
    return max(vals) if vals else 0.0


TOL = 1e-9


def oracle(rng, case, out, exc=None):
    """Returns a list of (key, what).  Asserts what the property states:
    definition, the two identities, signs, uncertainty = climatological CRPS,
    the invariances, and that rows with a missing observation are ignored."""
    obs, ens = case["obs"], case["ens"]
    fails = []
    rows = valid_rows(obs, ens)
    if any(math.isnan(x) for _, e in rows for x in e):
        return fails          # partly missing ensemble: outside the quantifier
    if not rows:
        return fails          # no forecast left: the property says nothing
    S = magnitude(rows)
    if out is None:
        fails.append(("C03/crps/valid-input-rejected",
                      f"crps raised {exc or 'ValueError'} for {len(rows)} valid forecast(s)"))
        return fails
    if S > 1e100:
        return fails          # intermediate overflow: not the property's subject
    d = dict(zip(NAMES, out[0]))
    tol = TOL * S
    n, m = len(rows), len(rows[0][1])
    if any(math.isnan(v) or math.isinf(v) for v in out[0]):
        fails.append(("C03/crps/not-finite", f"decomposition {d} is not finite (n={n}, m={m})"))
        return fails
    want = float(exact_crps(rows))
    if abs(d["crps"] - want) > tol:
        fails.append(("C03/crps/definition",
                      f"crps={d['crps']!r} but mean(E|X-y| - 0.5 E|X-X'|)={want!r} (n={n}, m={m})"))
    wantu = float(exact_unc(rows))
    if abs(d["uncertainty"] - wantu) > tol:
        fails.append(("C03/crps/uncertainty-climatology",
                      f"uncertainty={d['uncertainty']!r} but the CRPS of the observed climatology "
                      f"is {wantu!r} (n={n})"))
    if abs(d["crps"] - (d["reliability"] + d["potential"])) > tol:
        fails.append(("C03/crps/identity-reliability-potential",
                      f"crps={d['crps']!r} != reliability+potential="
                      f"{d['reliability'] + d['potential']!r}"))
    if abs(d["resolution"] - (d["uncertainty"] - d["potential"])) > tol:
        fails.append(("C03/crps/identity-resolution",
                      f"resolution={d['resolution']!r} != uncertainty-potential="
                      f"{d['uncertainty'] - d['potential']!r}"))
    for k in ("reliability", "potential", "uncertainty"):
        if d[k] < 0:
            fails.append((f"C03/crps/negative-{k}",
                          f"{k}={d[k]!r} is negative (n={n}, m={m}, case {case.get('tag')})"))
    return fails


def variants(rng, case, out):
    """Metamorphic clauses, checked on the implementation.  Yields
    (key, what, obs2, ens2, expected decomposition, tolerance)."""
    obs, ens = case["obs"], case["ens"]
    rows = valid_rows(obs, ens)
    if out is None or not rows or any(math.isnan(x) for _, e in rows for x in e):
        return
    S = magnitude(rows)
    if S > 1e100 or any(math.isnan(v) or math.isinf(v) for v in out[0]):
        return
    d = out[0]
    n = len(obs)
    which = rng.randrange(5)
    if which == 0:
        ens2 = [rng.sample(e, len(e)) for e in ens]
        yield ("C03/crps/member-order", "changes when ensemble members are reordered",
               obs, ens2, d, TOL * S)
    elif which == 1:
        perm = rng.sample(range(n), n)
        yield ("C03/crps/forecast-order", "changes when forecasts are reordered",
               [obs[i] for i in perm], [ens[i] for i in perm], d, TOL * S)
    elif which == 2:
        c = rng.choice([1.0, -3.5, 1024.0, rng.gauss(0, 10) * max(S, 1e-300)])
        obs2 = [y + c for y in obs]
        ens2 = [[x + c for x in e] for e in ens]
        # the shifted inputs are rounded: |fl(x+c)-(x+c)| <= 2^-53 (S+|c|)
        yield ("C03/crps/shift", f"changes when {c!r} is added to observations and members",
               obs2, ens2, d, TOL * (S + abs(c)))
    elif which == 3:
        c = rng.choice([2.0, 0.125, 3.0, 1e-3, 7.3e4, 2.0 ** -40, 2.0 ** -60, 1e-13, 2.0 ** 30])
        if S * c > 1e100 or (S > 0 and S * c < 1e-200):
            return
        obs2 = [y * c for y in obs]
        ens2 = [[x * c for x in e] for e in ens]
        yield ("C03/crps/scale", f"is not multiplied by {c!r} when observations and members are",
               obs2, ens2, [v * c for v in d], TOL * S * c)
    else:
        # insert forecasts whose observation is missing
        obs2, ens2 = list(obs), [list(e) for e in ens]
        m = len(ens[0])
        for _ in range(rng.randint(1, 3)):
            k = rng.randint(0, len(obs2))
            obs2.insert(k, NAN)
            ens2.insert(k, [rng.gauss(0, 1) * (S or 1.0) for _ in range(m)])
        yield ("C03/crps/missing-observation", "changes when forecasts with a missing observation are added",
               obs2, ens2, d, TOL * S)


# ----------------------------------------------------------------------------
# stored forms of the inputs.  The property speaks of the VALUES of the observations and of
# the members ("for any observations and ensemble forecasts with finite values"); crps takes
# them positionally (i-th observation <-> i-th row).  The same values held with another
# storage type, byte order, memory layout or container must give the crps of those values.
# The result on a stored form is compared with the property's own definition (the exact
# rational oracle applied to the float64 values the container holds), not with another run.

F_DTYPES = ["f8", "f8", "f8", "f4", "f4", "f2", "g", ">f8", ">f4", "O"]
I_DTYPES = ["i8", "i4", "i2", "i1", "u1", "u2", ">i4", ">i8", "?"]
OBS_FORMS = ["C", "strided", "negstride", "column", "nx1", "nx1-strided", "readonly", "list", "tuple",
             "npscalars", "series", "series", "series", "frame1", "masked"]
OBS_FORMS_N1 = ["scalar", "npscalar", "0d", "list", "series", "C"]
ENS_FORMS = ["C", "F", "T", "colstrided", "rowstrided", "negstride", "offset", "readonly", "broadcast",
             "lists", "tuples", "rowarrays", "frame", "frame", "frame", "frame-mixed", "masked"]
INDEX_KINDS = ["range", "dates", "dates-s", "dates-tz", "dates-desc", "text", "shuffled", "duplicates",
               "offset-int", "float"]
COLUMN_KINDS = ["range", "text", "duplicates", "shuffled", "dates"]


def gen_recipe(rng, n):
    """how the values of one case are stored before they are handed to crps"""
    dts = F_DTYPES + (I_DTYPES if rng.random() < 0.5 else [])
    shared = rng.random() < 0.12
    rec = {"obs_dtype": rng.choice(dts), "ens_dtype": rng.choice(dts),
           "obs_form": rng.choice(OBS_FORMS_N1 if (n == 1 and rng.random() < 0.6) else OBS_FORMS),
           "ens_form": rng.choice(ENS_FORMS),
           "obs_index": rng.choice(INDEX_KINDS), "ens_index": rng.choice(INDEX_KINDS),
           "same_index": rng.random() < 0.4, "columns": rng.choice(COLUMN_KINDS),
           "shared": (rng.choice(["one-buffer", "one-buffer", "obs-as-member"]) if shared else None),
           "seed": rng.randrange(1 << 30)}
    return rec


def _cast(a, dt, k):
    """the float64 array `a` held with dtype `dt` (integers: rint(k*a), clipped); None when the
    type cannot hold the values (NaN in an integer type, overflow to inf)"""
    if dt == "O":
        b = np.empty(a.shape, dtype=object)
        b[...] = a
        return b
    d = np.dtype(dt)
    if d.kind in "iub":
        if np.isnan(a).any() or not np.isfinite(a).all():
            return None
        x = np.rint(a * k)
        if d.kind == "b":
            return x > 0
        info = np.iinfo(d)
        return np.clip(x, max(info.min, -2 ** 62), min(info.max, 2 ** 62)).astype(d)
    with np.errstate(all="ignore"):
        b = a.astype(d)
        if np.isinf(b.astype(np.float64)).any() and not np.isinf(a).any():
            return None
    return b


def _zeros(shape, like, order="C"):
    w = np.empty(shape, dtype=like.dtype, order=order)
    w[...] = like.dtype.type(0) if like.dtype != object else 0.0
    return w


def _index(kind, n, r):
    import pandas as pd
    if kind == "range":
        return None
    if kind == "dates":
        return pd.date_range("1999-12-25", periods=n, freq="D")
    if kind == "dates-s":
        return pd.date_range("1999-12-25", periods=n, freq="D", unit="s")
    if kind == "dates-tz":
        return pd.date_range("1999-12-25", periods=n, freq="6h", tz="Australia/Sydney")
    if kind == "dates-desc":
        return pd.date_range("1999-12-25", periods=n, freq="D")[::-1]
    if kind == "text":
        return ["s%03d" % k for k in r.sample(range(n), n)]
    if kind == "shuffled":
        return r.sample(range(n), n)
    if kind == "duplicates":
        return [r.randrange(max(1, n // 2)) for _ in range(n)]
    if kind == "offset-int":
        return list(range(100, 100 + n))
    return [k + 0.5 for k in range(n)]


def _obs_form(b, form, r, index):
    """the 1-d typed array `b` in the form `form`; None when the form does not apply"""
    import pandas as pd
    n = b.shape[0]
    if form == "C":
        return b.copy()
    if form == "strided":              # every other element of a longer array
        w = _zeros(2 * n, b)
        w[::2] = b
        return w[::2]
    if form == "negstride":            # stored backwards
        return b[::-1].copy()[::-1]
    if form == "column":               # a column of a row-major table
        w = _zeros((n, 3), b)
        j = r.randrange(3)
        w[:, j] = b
        return w[:, j]
    if form == "nx1":                  # the documented [n,1] form
        return b.copy().reshape(-1, 1) if n >= 2 else None
    if form == "nx1-strided":          # [n,1] slice of a wider table
        if n < 2:
            return None
        w = _zeros((n, 3), b)
        j = r.randrange(3)
        w[:, j] = b
        return w[:, j:j + 1]
    if form == "readonly":
        c = b.copy()
        c.flags.writeable = False
        return c
    if form == "scalar":               # Python scalar
        return b[0].item() if (n == 1 and b.dtype != object) else None
    if form == "npscalar":
        return b[0] if n == 1 else None
    if form == "0d":
        return np.array(b[0], dtype=b.dtype) if n == 1 else None
    if form == "list":
        return b.tolist()
    if form == "tuple":
        return tuple(b.tolist())
    if form == "npscalars":
        return list(b)
    if form == "series":
        return pd.Series(b.copy(), index=index, name=r.choice([None, "obs", 0]))
    if form == "frame1":               # single-column table ([n,1])
        return pd.DataFrame({"obs": b.copy()}, index=index) if n >= 2 else None
    if form == "masked":               # masked array, nothing masked
        return np.ma.array(b.copy()) if b.dtype != object else None
    return None


def _ens_form(b, form, r, index, columns):
    import pandas as pd
    n, m = b.shape
    if form == "C":
        return b.copy()
    if form == "F":
        return np.asfortranarray(b)
    if form == "T":                    # transposed view of a members x forecasts array
        return np.ascontiguousarray(b.T).T
    if form == "colstrided":           # every other column of a wider array
        w = _zeros((n, 2 * m), b)
        w[:, ::2] = b
        return w[:, ::2]
    if form == "rowstrided":
        w = _zeros((2 * n, m), b)
        w[::2, :] = b
        return w[::2, :]
    if form == "negstride":
        return b[::-1, ::-1].copy()[::-1, ::-1]
    if form == "offset":               # window of a larger table
        w = _zeros((n + 2, m + 3), b, order=r.choice("CF"))
        w[1:n + 1, 2:m + 2] = b
        return w[1:n + 1, 2:m + 2]
    if form == "readonly":
        c = b.copy()
        c.flags.writeable = False
        return c
    if form == "broadcast":            # stride-0 view of one forecast / of one member
        if b.dtype == object:
            return None
        f8 = b.astype(np.float64)
        if n >= 2 and all(np.array_equal(f8[0], f8[i], equal_nan=True) for i in range(1, n)):
            return np.broadcast_to(b[0].copy(), (n, m))
        if m >= 2 and all(np.array_equal(f8[:, 0], f8[:, j], equal_nan=True) for j in range(1, m)):
            return np.broadcast_to(b[:, :1].copy(), (n, m))
        return None
    if form == "lists":
        return b.tolist()
    if form == "tuples":
        return tuple(tuple(row) for row in b.tolist())
    if form == "rowarrays":
        return [b[i].copy() for i in range(n)]
    if form == "frame":
        return pd.DataFrame(b.copy(), index=index, columns=columns)
    if form == "masked":
        return np.ma.array(b.copy()) if b.dtype != object else None
    return None


def build_stored(recipe, obs, ens):
    """-> (obs object, ens object, obs values, ens values, description of what was built).
    The values are the float64 numbers the two objects hold (after the storage type)."""
    import pandas as pd
    r = random.Random(recipe["seed"])
    n = len(obs)
    ao = np.array(obs, dtype=np.float64)
    ae = np.array(ens, dtype=np.float64).reshape(n, -1)
    m = ae.shape[1]
    fin = [abs(v) for v in ao.tolist() + ae.ravel().tolist() if math.isfinite(v)]
    S = max(fin) if fin else 0.0
    k = 1.0 if (S >= 8 or S == 0 or S < 1e-200) else 8.0 / S
    odt, edt = recipe["obs_dtype"], recipe["ens_dtype"]
    shared = recipe.get("shared")
    if shared:
        odt = edt
    bo, be = _cast(ao, odt, k), _cast(ae, edt, k)
    if bo is None or be is None:       # same unit for both
        odt = edt = "f8"
        bo, be = ao.copy(), ae.copy()
    oi = _index(recipe["obs_index"], n, r)
    ei = oi if recipe["same_index"] else _index(recipe["ens_index"], n, r)
    cols = _index(recipe["columns"], m, r)
    desc = {"obs_dtype": odt, "ens_dtype": edt}
    if shared == "obs-as-member":      # the single member IS the observation (same buffer)
        o = bo.copy()
        e = o.reshape(n, 1)
        desc.update(shared=shared, obs_form="C", ens_form="view of obs")
        vo = np.asarray(o).astype(np.float64).tolist()
        return o, e, vo, [[y] for y in vo], desc
    if shared:                          # observation column and members in one table
        data = np.empty((n, m + 1), dtype=be.dtype, order=r.choice("CF"))
        j = r.choice([0, m])
        data[:, j] = bo
        e = data[:, 1:] if j == 0 else data[:, :m]
        e[...] = be
        o = data[:, j]
        desc.update(shared=shared, obs_form=f"column {j} of the table", ens_form="other columns",
                    order="F" if data.flags.f_contiguous and not data.flags.c_contiguous else "C")
    elif recipe["ens_form"] == "frame-mixed":      # columns of different types
        cs = []
        for jj in range(m):
            c = _cast(ae[:, jj], r.choice(["f8", "f4", "i4", "i2", "?"]), k)
            cs.append(ae[:, jj].copy() if c is None else c)
        e = pd.DataFrame({jj: c for jj, c in enumerate(cs)}, index=ei)
        be = np.column_stack([c.astype(np.float64) for c in cs]).reshape(n, m)
        desc.update(ens_form="frame-mixed", ens_dtype=[str(c.dtype) for c in cs], ens_index=recipe["ens_index"])
        o = None
    else:
        e = _ens_form(be, recipe["ens_form"], r, ei, cols)
        desc.update(ens_form=recipe["ens_form"] if e is not None else "C")
        if e is None:
            e = be.copy()
        if desc["ens_form"] == "frame":
            desc.update(ens_index="same as obs" if recipe["same_index"] else recipe["ens_index"],
                        columns=recipe["columns"])
        o = None
    if o is None:
        o = _obs_form(bo, recipe["obs_form"], r, oi)
        desc.update(obs_form=recipe["obs_form"] if o is not None else "C")
        if o is None:
            o = bo.copy()
        if desc["obs_form"] in ("series", "frame1"):
            desc.update(obs_index=recipe["obs_index"])
    vo = np.asarray(bo).astype(np.float64).tolist()
    ve = np.asarray(be).astype(np.float64).reshape(n, m).tolist()
    return o, e, vo, ve, desc


def call_impl(o, e):
    """crps on the objects as they are -> (decomposition Series, table, None) or (None, None, exception text)"""
    from hydrodiy.stat import metrics
    try:
        with np.errstate(all="ignore"):
            dec, tab = metrics.crps(o, e)
    except Exception as ex:      # noqa: BLE001
        return None, None, f"{type(ex).__name__}: {str(ex)[:120]}"
    return dec, tab, None


def as_out(dec, tab):
    d = [float(x) for x in np.asarray(dec.values, dtype=np.float64)]
    t = [[float(x) for x in row] for row in np.asarray(tab.values, dtype=np.float64)]
    return d, t


def stored_form_check(ctx, rng, recipe, obs, ens):
    """one case handed over in a stored form; returns True when a failure was reported"""
    o, e, vo, ve, desc = build_stored(recipe, obs, ens)
    cm.mark({"call": "metrics.crps (stored form)", "obs": obs, "ens": ens, "recipe": recipe})
    dec, tab, exc = call_impl(o, e)
    out = None if exc else as_out(dec, tab)
    ctx.count(("stored", desc.get("obs_form"), desc.get("ens_form"), str(desc.get("obs_dtype")),
               str(desc.get("ens_dtype")) if not isinstance(desc.get("ens_dtype"), list) else "mixed"))
    bad = False
    for key, what in oracle(rng, {"obs": vo, "ens": ve, "tag": "stored-form"}, out, exc):
        bad = True
        ctx.failure(key.replace("C03/crps/", "C03/crps/stored-form/"),
                    {"obs": obs, "ens": ens, "stored_form": recipe, "built": desc,
                     "values_obs": vo, "values_ens": ve,
                     "input_class": "same values, other storage type / memory layout / container",
                     "output": None if out is None else dict(zip(NAMES, out[0])), "exception": exc},
                    f"inputs stored as {desc}: {what}")
    return bad


# ----------------------------------------------------------------------------
# sessions: the same input objects and the module used over a sequence of calls.  After every
# call the result must be the crps of the values the objects hold AT THAT MOMENT (definition,
# identities, signs: the same oracle), and a result returned earlier must still be what it was.

CONTAINERS = ["array", "array", "arrayF", "f4", "pandas", "pandas", "shared", "lists"]


def gen_session(rng, thorough):
    m = rng.choice([1, 2, 3, 3, rng.randint(1, 8)])
    nslots = rng.choice([1, 2, 2, 3])
    steps, shape = [], {}
    for s in range(nslots):
        n = rng.choice([1, 2, 3, 5, rng.randint(1, 12)])
        ms = m if rng.random() < 0.8 else rng.randint(1, 8)
        c = gen_case(rng, False, n, ms)
        steps.append({"op": "new", "slot": s, "obs": c["obs"], "ens": c["ens"],
                      "container": rng.choice(CONTAINERS)})
        shape[s] = (n, ms)
        steps.append({"op": "call", "slot": s})
    for _ in range(rng.randint(3, 16 if thorough else 8)):
        s = rng.randrange(nslots)
        n, ms = shape[s]
        x = rng.random()
        if x < 0.3:
            steps.append({"op": "call", "slot": s})
        elif x < 0.38:
            steps.append({"op": "pit", "slot": s})
        else:
            how = rng.choice(["all", "all", "obs", "ens", "nan", "poke", "shift", "sortrows"])
            st = {"op": "write", "slot": s, "how": how}
            if how in ("all", "obs", "ens"):
                c = gen_case(rng, False, n, ms)
                st["obs"], st["ens"] = c["obs"], c["ens"]
            elif how == "nan":
                st["i"] = rng.randrange(n)
            elif how == "poke":
                st["i"], st["j"], st["v"] = rng.randrange(n), rng.randrange(-1, ms), rng.randint(-8, 8) / 4.0
            elif how == "shift":
                st["c"] = rng.choice([1.0, -3.5, 1024.0])
            steps.append(st)
            if nslots > 1 and rng.random() < 0.4:      # another object in between
                steps.append({"op": "call", "slot": rng.choice([t for t in range(nslots) if t != s])})
            steps.append({"op": "call", "slot": s})
    for s in rng.sample(range(nslots), nslots):
        steps.append({"op": "call", "slot": s})
    return steps


def _new_slot(st):
    import pandas as pd
    n = len(st["obs"])
    ao = np.array(st["obs"], dtype=np.float64)
    ae = np.array(st["ens"], dtype=np.float64).reshape(n, -1)
    c = st["container"]
    if c == "arrayF":
        return ao, np.asfortranarray(ae)
    if c == "f4":
        with np.errstate(all="ignore"):
            o4, e4 = ao.astype(np.float32), ae.astype(np.float32)
        if np.isinf(o4).any() or np.isinf(e4).any():
            return ao, ae
        return o4, e4
    if c == "pandas":
        idx = pd.date_range("2001-03-01", periods=n, freq="D")
        return pd.Series(ao, index=idx), pd.DataFrame(ae, index=idx)
    if c == "shared":
        data = np.empty((n, ae.shape[1] + 1))
        data[:, 0] = ao
        data[:, 1:] = ae
        return data[:, 0], data[:, 1:]
    if c == "lists":
        return ao.tolist(), ae.tolist()
    return ao, ae


def _store(o, e, new_obs, new_ens):
    """write the values into the SAME objects (None: leave as is)"""
    import pandas as pd
    if new_obs is not None:
        if isinstance(o, pd.Series):
            o.iloc[:] = new_obs
        else:
            o[:] = new_obs
    if new_ens is not None:
        if isinstance(e, pd.DataFrame):
            e.iloc[:, :] = np.array(new_ens, dtype=np.float64)
        elif isinstance(e, list):
            for row, new in zip(e, new_ens):
                row[:] = new
        else:
            e[:, :] = new_ens
    return None


def _held_values(o, e):
    n = len(o)
    vo = np.array(o, dtype=np.float64).reshape(n).tolist()
    ve = np.array(e, dtype=np.float64).reshape(n, -1).tolist()
    return vo, ve


def run_session(ctx, rng, steps):
    """returns True when a failure was reported"""
    from hydrodiy.stat import metrics
    cm.mark({"call": "metrics.crps (session)", "steps": steps})
    slots, shadow, kept = {}, {}, []
    bad = False
    for si, st in enumerate(steps):
        s = st["slot"]
        if st["op"] == "new":
            slots[s] = _new_slot(st)
            shadow[s] = _held_values(*slots[s])
            continue
        o, e = slots[s]
        if st["op"] == "pit":          # another entry point sharing the input checks
            try:
                with np.errstate(all="ignore"):
                    metrics.pit(o, e)
            except Exception:      # noqa: BLE001
                pass
            continue
        if st["op"] == "write":
            vo, ve = shadow[s]
            how = st["how"]
            if how == "all":
                _store(o, e, st["obs"], st["ens"])
            elif how == "obs":
                _store(o, e, st["obs"], None)
            elif how == "ens":
                _store(o, e, None, st["ens"])
            elif how == "nan":
                vo = list(vo)
                vo[st["i"]] = NAN
                _store(o, e, vo, None)
            elif how == "poke":
                if st["j"] < 0:
                    vo = list(vo)
                    vo[st["i"]] = st["v"]
                    _store(o, e, vo, None)
                else:
                    ve = [list(r) for r in ve]
                    ve[st["i"]][st["j"]] = st["v"]
                    _store(o, e, None, ve)
            elif how == "shift":
                _store(o, e, [y + st["c"] for y in vo], [[x + st["c"] for x in r] for r in ve])
            elif how == "sortrows":
                if isinstance(e, np.ndarray):
                    e.sort(axis=1)
                else:
                    _store(o, e, None, [sorted(r) for r in ve])
            shadow[s] = _held_values(o, e)
            continue
        # a call
        vo, ve = shadow[s]
        dec, tab, exc = call_impl(o, e)
        ctx.count()
        out = None if exc else as_out(dec, tab)
        base = {"session": steps, "failed_at_step": si, "values_obs": vo, "values_ens": ve,
                "input_class": "one module, the same input objects over a sequence of calls and in-place changes",
                "output": None if out is None else dict(zip(NAMES, out[0])), "exception": exc}
        for key, what in oracle(rng, {"obs": vo, "ens": ve, "tag": "session"}, out, exc):
            bad = True
            ctx.failure(key.replace("C03/crps/", "C03/crps/session/"), base,
                        f"step {si} of a session ({st}, after {[x['op'] + ':' + str(x.get('how', x['slot'])) for x in steps[max(0, si - 3):si]]}) "
                        f"on inputs now holding obs={vo[:4]}.. ens={ve[:2]}..: {what}")
        # results returned earlier still are what they were
        for sj, d0, t0, dsnap, tsnap in kept:
            dnow = np.asarray(d0.values, dtype=np.float64)
            tnow = np.asarray(t0.values, dtype=np.float64)
            if not (np.array_equal(dnow, dsnap, equal_nan=True) and np.array_equal(tnow, tsnap, equal_nan=True)):
                bad = True
                ctx.failure("C03/crps/session/returned-result-changed-later",
                            dict(base, returned_at_step=sj, decomposition_then=dsnap.tolist(),
                                 decomposition_now=dnow.tolist()),
                            f"the result returned at step {sj} of a session read {dict(zip(NAMES, dsnap.tolist()))} "
                            f"when returned and reads {dict(zip(NAMES, dnow.tolist()))} after the call of step {si}")
                kept = [k for k in kept if k[0] != sj]
                break
        if out is not None:
            kept.append((si, dec, tab, np.array(dec.values, dtype=np.float64, copy=True),
                         np.array(tab.values, dtype=np.float64, copy=True)))
    return bad


# ----------------------------------------------------------------------------

def signature(case, out):
    n, m = len(case["obs"]), len(case["ens"][0])
    ncl = 0 if n == 1 else 1 if n == 2 else 2 if n < 10 else 3
    mcl = m if m <= 3 else 4 if m <= 12 else 5
    return (case["tag"], case["kind"], ncl, mcl, out is None, case.get("obsform", "flat"))


def run(ctx):
    ctx.rule = ("cases from one PRNG: n in {1,2,3,9,11,21, 1..45 (160 thorough)} forecasts x m in {1,2,3, 1..12 "
                "(64 thorough)} members x values on a dyadic lattice / in {-1,-0,0,1} / Gaussian with scale "
                "1e-3..1e6 and offsets / log-normal / 1e150 (overflow) x shape: plain, every observation below "
                "or above its whole ensemble, constant ensembles, observation equal to a member, identical "
                "forecasts, pre-sorted members x NaN observations (some/all) and all-NaN member rows x observations "
                "passed as [n] or [n,1] array; "
                "every case again in a stored form: storage type float64/32/16/longdouble/object, big-endian, "
                "(values rounded to) int8..int64/uint8/uint16/bool x observations as contiguous / strided / reversed "
                "/ table-column view, [n,1] (also strided), read-only, Python or numpy scalar and 0-d (n=1), list, "
                "tuple, Series (index: range, dates ns/s/tz/descending, text, shuffled, duplicates, offset, float), "
                "one-column frame, masked array without mask x ensemble as C / Fortran / transposed / row- or "
                "column-strided / reversed / window of a larger table / read-only / stride-0 broadcast / nested "
                "lists / tuples / list of rows / DataFrame (own or the observations' index, column labels) / frame "
                "with columns of different types / masked x observation and members views of one buffer; "
                "sessions: 1-3 pairs of input objects (arrays C/F/float32, Series+DataFrame, views of one table, "
                "lists), calls interleaved with in-place changes of the same objects (all / observations / members "
                "rewritten, one value, NaN observation, shift, rows sorted), calls of pit and of other pairs in "
                "between, results kept and re-read after later calls; "
                "non-trivial = distinct (shape+missing tag, value kind, n class, m class, error) signature or "
                "(stored form, storage types) signature")
    ctx.trusted = cm.STD_TRUST + [
        "glibc qsort and the model's insertion sort give the same value sequence on NaN-free data",
        "pow(x,2) == x*x in binary64 (gcc folding / glibc pow)"]
    ctx.tested_not_proved = [
        "binary64 results within 1e-9*max|value| of the exact rational definition, identities and "
        "invariances - tested on the implementation with an exact rational oracle",
        "sign of reliability/potential/uncertainty in binary64 (proved over the reals; tested strictly in binary64)",
        "Python wrapper glue (atleast_1d/astype/squeeze, Series/DataFrame labels read by name)",
        "independence of the stored form of the inputs (storage type, layout, container, index) and of earlier "
        "calls / in-place changes of the same objects; results returned earlier do not change - tested with the "
        "exact rational oracle on the values held"]
    proved = cm.prove_with_kernels(ctx, ["c_crps"])
    cm.use_impl()
    rng = ctx.rng
    ncases = ctx.scale(700, 9000)
    # a replay file given on the command line, then the corpus, then the recorded findings
    corpus = []
    rp = getattr(ctx, "replay", None)
    if rp:
        r = rp.get("replay", rp)
        r = r.get("first_mismatch", r) if isinstance(r, dict) else r
        if isinstance(r, dict) and "obs" in r and "ens" in r:
            corpus.append({"obs": [float(x) for x in r["obs"]],
                           "ens": [[float(x) for x in e] for e in r["ens"]], "tag": "replay"})
            if "obs2" in r and "ens2" in r:
                corpus.append({"obs": [float(x) for x in r["obs2"]],
                               "ens": [[float(x) for x in e] for e in r["ens2"]], "tag": "replay-variant",
                               "expected": r.get("expected2"), "tolerance": r.get("tolerance")})
    corpus += cm.load_corpus(PID)
    for k in cm.load_known():
        if k["property"] == PID and isinstance(k.get("replay"), dict) and "obs" in k["replay"]:
            corpus.append({"obs": k["replay"]["obs"], "ens": k["replay"]["ens"], "tag": "recorded-finding"})
    cases, outs, terms = [], [], []
    for i in range(len(corpus) + ncases):
        case = corpus[i] if i < len(corpus) else gen_case(rng, ctx.thorough)
        case.setdefault("tag", "corpus")
        case.setdefault("kind", "corpus")
        cm.mark({"call": "metrics.crps", "case": case})
        case.setdefault("layout", rng.choice(["C", "C", "F", "T", "strided", "frame"]))
        out = run_impl(case["obs"], case["ens"], case.get("obsform", "flat"), case["layout"])
        cases.append(case)
        outs.append(out)
        terms.append(term(case, out))
        ctx.count(signature(case, out))
        if i % 120 == 0:
            ctx.sample({"obs": case["obs"][:6], "ens": [e[:6] for e in case["ens"][:3]],
                        "tag": case["tag"], "decomposition": None if out is None else out[0]})
    bad, nshards, failed = cm.run_case_files(PID, HEADER, "crcase", "cr_ok", terms,
                                             shard=ctx.scale(90, 300), max_bytes=1200000)
    drift = []
    if bad and not failed:
        # second chance for the disagreeing cases only: equal up to 1e-11 relative
        # (a re-associated floating sum in the code is not a disagreement; it is counted)
        bad2, _, failed2 = cm.run_case_files(PID, HEADER, "crcase", "cr_ok_close",
                                             [terms[i] for i in bad], shard=90, max_bytes=1200000)
        if not failed2:
            still = {bad[j] for j in bad2}
            drift = [i for i in bad if i not in still]
            bad = sorted(still)
    ctx.notes["correspondence_cases"] = len(terms)
    ctx.notes["correspondence_mismatches"] = len(bad)
    ctx.notes["rounding_drift_cases"] = len(drift)
    ctx.notes["correspondence_compared"] = "5 decomposition values + 7*(m+1) table values, bit-exact (f_same); ValueError class"
    for k in range(nshards):
        ctx.obligation(f"Cases_{PID}_{k}.agree (model = implementation on the shard)", True)

    # oracle on every case + one metamorphic variant per case
    orc_fail = set()
    nvar = 0
    for i, (case, out) in enumerate(zip(cases, outs)):
        for key, what in oracle(rng, case, out):
            orc_fail.add(i)
            ctx.failure(key, {"obs": case["obs"], "ens": case["ens"],
                              "output": None if out is None else dict(zip(NAMES, out[0]))}, what)
        if case.get("expected") and case.get("tolerance") is not None:
            # replayed metamorphic variant: compare with the recorded expectation
            want = [case["expected"][k] for k in NAMES]
            if out is None or not all(abs(a - b) <= case["tolerance"] for a, b in zip(out[0], want)):
                orc_fail.add(i)
                ctx.failure("C03/crps/replayed-variant",
                            {"obs": case["obs"], "ens": case["ens"], "expected": case["expected"],
                             "output": None if out is None else dict(zip(NAMES, out[0]))},
                            "replayed variant still differs from the expected decomposition")
        for key, what, obs2, ens2, want, tol in variants(rng, case, out):
            nvar += 1
            cm.mark({"call": "metrics.crps", "obs": obs2, "ens": ens2})
            out2 = run_impl(obs2, ens2)
            ctx.count()
            ok = out2 is not None and all(
                (not math.isnan(a)) and abs(a - b) <= tol for a, b in zip(out2[0], want))
            if not ok:
                orc_fail.add(i)
                ctx.failure(key, {"obs": case["obs"], "ens": case["ens"], "obs2": obs2, "ens2": ens2,
                                  "output": dict(zip(NAMES, out[0])),
                                  "output2": None if out2 is None else dict(zip(NAMES, out2[0])),
                                  "expected2": dict(zip(NAMES, want)), "tolerance": tol},
                            f"the decomposition {what}")
    ctx.notes["oracle_cases"] = len(cases)
    ctx.notes["metamorphic_variants"] = nvar

    # the same cases handed over in other stored forms (oracle: the definition on the held values)
    nstored = 0
    if isinstance(rp, dict) and isinstance(rp.get("replay", rp), dict):
        r = rp.get("replay", rp)
        if "stored_form" in r and "obs" in r and "ens" in r:
            nstored += 1
            stored_form_check(ctx, rng, r["stored_form"], [float(x) for x in r["obs"]],
                              [[float(x) for x in e] for e in r["ens"]])
        if "session" in r:
            run_session(ctx, rng, r["session"])
    stride = 3 if ctx.thorough else 1
    for i in range(0, len(cases), stride):
        nstored += 1
        if stored_form_check(ctx, rng, gen_recipe(rng, len(cases[i]["obs"])), cases[i]["obs"], cases[i]["ens"]):
            orc_fail.add(i)
    ctx.notes["stored_form_cases"] = nstored
    # sessions: the same objects / the module over sequences of calls and in-place changes
    nsess = ctx.scale(150, 1200)
    for _ in range(nsess):
        run_session(ctx, rng, gen_session(rng, ctx.thorough))
    ctx.notes["sessions"] = nsess
    cm.settle(ctx, proved, bad, failed, orc_fail,
              lambda i: {"obs": cases[i]["obs"], "ens": cases[i]["ens"],
                         "impl_output": outs[i], "model": "Hy.Model.Crps.cr_ok"},
              "Model/Crps.v vs metrics.crps + c_crps.c")
    return ctx.finish()
