"""C03 - CRPS equals its definition and its decomposition is exact."""
import math
import random
from fractions import Fraction as Fr

import numpy as np

from harness import common as cm

PID = "C03"
HEADER = ("From Coq Require Import ZArith List PrimFloat.\n"
          "From Hy Require Import Base.Num Model.Crps.")
NAN = float("nan")
NAMES = ["crps", "reliability", "resolution", "uncertainty", "potential"]


# ----------------------------------------------------------------------------
# generator (inside the property's quantifier: n >= 1 forecasts, m >= 1 members,
# finite members, finite or NaN observations; plus the wrapper's two filter
# branches "no valid row" and "row whose members are all NaN")

def gen_case(rng, thorough, n_fixed=None, m_fixed=None):
    nmax = 160 if thorough else 45
    mmax = 64 if thorough else 12
    n = rng.choice([1, 2, 3, 9, 11, 21, rng.randint(1, nmax), rng.randint(1, nmax)])
    m = rng.choice([1, 2, 3, rng.randint(1, mmax), rng.randint(1, mmax)])
    if n_fixed is not None:
        n = n_fixed
    if m_fixed is not None:
        m = m_fixed
    if thorough and n * m > 4000:
        m = max(1, 4000 // n)
    kind = rng.choice(["lattice", "lattice", "coarse", "gauss", "gauss", "skew", "big"])
    scale = rng.choice([1.0, 1.0, 1e-3, 1e3, 1e6, 2.0 ** -40, 1e-12, 2.0 ** 40])
    shift = rng.choice([0.0, 0.0, 0.0, 100.0, -1e4])

    def draw():
        if kind == "lattice":      # dyadic lattice: many exact ties
            return rng.randint(-8, 8) / 4.0
        if kind == "coarse":       # very coarse: ties everywhere, +0/-0
            v = float(rng.randint(-1, 1))
            return -0.0 if (v == 0.0 and rng.random() < 0.3) else v
        if kind == "gauss":
            return rng.gauss(0, 1) * scale + shift
        if kind == "skew":
            return math.exp(rng.gauss(0, 2)) * scale
        return rng.gauss(0, 1) * 1e150   # "big": products overflow, results inf/NaN
    obs = [draw() for _ in range(n)]
    ens = [[draw() for _ in range(m)] for _ in range(n)]
    shape = rng.random()
    tag = "plain"
    if shape < 0.12:      # every observation below its whole ensemble
        tag = "below"
        obs = [min(e) - abs(draw()) - (0.25 if kind in ("lattice", "coarse") else abs(scale) * 1e-3)
               for e in ens]
    elif shape < 0.24:    # every observation above its whole ensemble
        tag = "above"
        obs = [max(e) + abs(draw()) + (0.25 if kind in ("lattice", "coarse") else abs(scale) * 1e-3)
               for e in ens]
    elif shape < 0.32:    # constant ensembles
        tag = "const-ens"
        ens = [[e[0]] * m for e in ens]
    elif shape < 0.40:    # observation equal to a member (first, last or any)
        tag = "obs-on-member"
        for i in range(n):
            r = rng.random()
            obs[i] = min(ens[i]) if r < 0.3 else max(ens[i]) if r < 0.6 else rng.choice(ens[i])
    elif shape < 0.46:    # same forecast repeated, observation constant
        tag = "all-equal"
        ens = [list(ens[0]) for _ in range(n)]
        obs = [obs[0]] * n
    elif shape < 0.52:    # already sorted / reverse sorted members
        tag = "sorted"
        rev = rng.random() < 0.5
        ens = [sorted(e, reverse=rev) for e in ens]
    nanmode = rng.random()
    if nanmode < 0.22:
        tag += "+nanobs"
        k = rng.randint(1, max(1, n // 2))
        for _ in range(k):
            obs[rng.randrange(n)] = NAN
    elif nanmode < 0.26:
        tag += "+allnanobs"
        obs = [NAN] * n
    elif nanmode < 0.32:
        tag += "+nanrow"     # rows whose members are all missing are dropped too
        for _ in range(rng.randint(1, max(1, n // 3))):
            ens[rng.randrange(n)] = [NAN] * m
    # the documented input forms: obs as [n] or [n,1] array
    form = "column" if (n >= 2 and rng.random() < 0.15) else "flat"
    return {"obs": obs, "ens": ens, "tag": tag, "kind": kind, "obsform": form}


# ----------------------------------------------------------------------------
# implementation

def run_impl(obs, ens, form="flat", layout="C"):
    """public API; returns (decomposition[5], table rows) or None on ValueError.
    `layout`: memory layout of the ensemble array handed to crps (same values)."""
    from hydrodiy.stat import metrics
    o = np.array(obs, dtype=np.float64)
    if form == "column" and len(obs) >= 2:
        o = o.reshape(-1, 1)
    e = np.array(ens, dtype=np.float64).reshape(len(obs), -1)
    if layout == "F":                 # column-major (e.g. DataFrame.values of a float frame)
        e = np.asfortranarray(e)
    elif layout == "T":               # transposed view of a members x forecasts array
        e = np.ascontiguousarray(e.T).T
    elif layout == "strided":         # every other column of a wider array
        w = np.zeros((e.shape[0], 2 * e.shape[1]))
        w[:, ::2] = e
        e = w[:, ::2]
    elif layout == "frame":
        import pandas as pd
        e = pd.DataFrame(e)
    try:
        with np.errstate(all="ignore"):
            dec, tab = metrics.crps(o, e)
    except ValueError:
        return None
    # by position: the labels are tied to the positions by the theorem
    # C03_source_constants (labels re-extracted from the source)
    d = [float(x) for x in np.asarray(dec.values, dtype=np.float64)]
    t = [[float(x) for x in row] for row in np.asarray(tab.values, dtype=np.float64)]
    return d, t


def term(case, out):
    rows = "[" + "; ".join("(%s, %s)" % (cm.coq_float(y), cm.coq_flist(e))
                           for y, e in zip(case["obs"], case["ens"])) + "]"
    if out is None:
        exp = "None"
    else:
        exp = "(Some (%s, [%s]))" % (cm.coq_flist(out[0]),
                                     "; ".join(cm.coq_flist(r) for r in out[1]))
    return "{| cr_rows := %s; cr_expect := %s |}" % (rows, exp)


# ----------------------------------------------------------------------------
# independent oracle: exact rational arithmetic on the definition

def valid_rows(obs, ens):
    return [(y, e) for y, e in zip(obs, ens)
            if not math.isnan(y) and not all(math.isnan(x) for x in e)]


def exact_pairsum(xs):
    """sum_{i<k} |x_i - x_k| (exact) through the order statistics"""
    s = sorted(xs)
    m = len(s)
    return sum((2 * k - m + 1) * s[k] for k in range(m))


def exact_crps(rows):
    n = len(rows)
    tot = Fr(0)
    for y, e in rows:
        m = len(e)
        fy = Fr(y)
        fe = [Fr(x) for x in e]
        tot += sum(abs(x - fy) for x in fe) / m - exact_pairsum(fe) / (m * m)
    return tot / n


def exact_unc(rows):
    n = len(rows)
    return exact_pairsum([Fr(y) for y, _ in rows]) / (n * n)


def magnitude(rows):
    vals = [abs(y) for y, _ in rows] + [abs(x) for _, e in rows for x in e]
    return max(vals) if vals else 0.0


TOL = 1e-9


def oracle(rng, case, out, exc=None):
    """Returns a list of (key, what).  Asserts what the property states:
    definition, the two identities, signs, uncertainty = climatological CRPS,
    the invariances, and that rows with a missing observation are ignored."""
    obs, ens = case["obs"], case["ens"]
    fails = []
    rows = valid_rows(obs, ens)
    if any(math.isnan(x) for _, e in rows for x in e):
        return fails          # partly missing ensemble: outside the quantifier
    if not rows:
        return fails          # no forecast left: the property says nothing
    S = magnitude(rows)
    if out is None:
        fails.append(("C03/crps/valid-input-rejected",
                      f"crps raised {exc or 'ValueError'} for {len(rows)} valid forecast(s)"))
        return fails
    if S > 1e100:
        return fails          # intermediate overflow: not the property's subject
    d = dict(zip(NAMES, out[0]))
    tol = TOL * S
    n, m = len(rows), len(rows[0][1])
    if any(math.isnan(v) or math.isinf(v) for v in out[0]):
        fails.append(("C03/crps/not-finite", f"decomposition {d} is not finite (n={n}, m={m})"))
        return fails
    want = float(exact_crps(rows))
    if abs(d["crps"] - want) > tol:
        fails.append(("C03/crps/definition",
                      f"crps={d['crps']!r} but mean(E|X-y| - 0.5 E|X-X'|)={want!r} (n={n}, m={m})"))
    wantu = float(exact_unc(rows))
    if abs(d["uncertainty"] - wantu) > tol:
        fails.append(("C03/crps/uncertainty-climatology",
                      f"uncertainty={d['uncertainty']!r} but the CRPS of the observed climatology "
                      f"is {wantu!r} (n={n})"))
    if abs(d["crps"] - (d["reliability"] + d["potential"])) > tol:
        fails.append(("C03/crps/identity-reliability-potential",
                      f"crps={d['crps']!r} != reliability+potential="
                      f"{d['reliability'] + d['potential']!r}"))
    if abs(d["resolution"] - (d["uncertainty"] - d["potential"])) > tol:
        fails.append(("C03/crps/identity-resolution",
                      f"resolution={d['resolution']!r} != uncertainty-potential="
                      f"{d['uncertainty'] - d['potential']!r}"))
    for k in ("reliability", "potential", "uncertainty"):
        if d[k] < 0:
            fails.append((f"C03/crps/negative-{k}",
                          f"{k}={d[k]!r} is negative (n={n}, m={m}, case {case.get('tag')})"))
    return fails


def variants(rng, case, out):
    """Metamorphic clauses, checked on the implementation.  Yields
    (key, what, obs2, ens2, expected decomposition, tolerance)."""
    obs, ens = case["obs"], case["ens"]
    rows = valid_rows(obs, ens)
    if out is None or not rows or any(math.isnan(x) for _, e in rows for x in e):
        return
    S = magnitude(rows)
    if S > 1e100 or any(math.isnan(v) or math.isinf(v) for v in out[0]):
        return
    d = out[0]
    n = len(obs)
    which = rng.randrange(5)
    if which == 0:
        ens2 = [rng.sample(e, len(e)) for e in ens]
        yield ("C03/crps/member-order", "changes when ensemble members are reordered",
               obs, ens2, d, TOL * S)
    elif which == 1:
        perm = rng.sample(range(n), n)
        yield ("C03/crps/forecast-order", "changes when forecasts are reordered",
               [obs[i] for i in perm], [ens[i] for i in perm], d, TOL * S)
    elif which == 2:
        c = rng.choice([1.0, -3.5, 1024.0, rng.gauss(0, 10) * max(S, 1e-300)])
        obs2 = [y + c for y in obs]
        ens2 = [[x + c for x in e] for e in ens]
        # the shifted inputs are rounded: |fl(x+c)-(x+c)| <= 2^-53 (S+|c|)
        yield ("C03/crps/shift", f"changes when {c!r} is added to observations and members",
               obs2, ens2, d, TOL * (S + abs(c)))
    elif which == 3:
        c = rng.choice([2.0, 0.125, 3.0, 1e-3, 7.3e4, 2.0 ** -40, 2.0 ** -60, 1e-13, 2.0 ** 30])
        if S * c > 1e100 or (S > 0 and S * c < 1e-200):
            return
        obs2 = [y * c for y in obs]
        ens2 = [[x * c for x in e] for e in ens]
        yield ("C03/crps/scale", f"is not multiplied by {c!r} when observations and members are",
               obs2, ens2, [v * c for v in d], TOL * S * c)
    else:
        # insert forecasts whose observation is missing
        obs2, ens2 = list(obs), [list(e) for e in ens]
        m = len(ens[0])
        for _ in range(rng.randint(1, 3)):
            k = rng.randint(0, len(obs2))
            obs2.insert(k, NAN)
            ens2.insert(k, [rng.gauss(0, 1) * (S or 1.0) for _ in range(m)])
        yield ("C03/crps/missing-observation", "changes when forecasts with a missing observation are added",
               obs2, ens2, d, TOL * S)


# ----------------------------------------------------------------------------
# stored forms of the inputs.  The property speaks of the VALUES of the observations and of
# the members ("for any observations and ensemble forecasts with finite values"); crps takes
# them positionally (i-th observation <-> i-th row).  The same values held with another
# storage type, byte order, memory layout or container must give the crps of those values.
# The result on a stored form is compared with the property's own definition (the exact
# rational oracle applied to the float64 values the container holds), not with another run.

F_DTYPES = ["f8", "f8", "f8", "f4", "f4", "f2", "g", ">f8", ">f4", "O"]
I_DTYPES = ["i8", "i4", "i2", "i1", "u1", "u2", ">i4", ">i8", "?"]
OBS_FORMS = ["C", "strided", "negstride", "column", "nx1", "nx1-strided", "readonly", "list", "tuple",
             "npscalars", "series", "series", "series", "frame1", "masked"]
OBS_FORMS_N1 = ["scalar", "npscalar", "0d", "list", "series", "C"]
ENS_FORMS = ["C", "F", "T", "colstrided", "rowstrided", "negstride", "offset", "readonly", "broadcast",
             "lists", "tuples", "rowarrays", "frame", "frame", "frame", "frame-mixed", "masked"]
INDEX_KINDS = ["range", "dates", "dates-s", "dates-tz", "dates-desc", "text", "shuffled", "duplicates",
               "offset-int", "float"]
COLUMN_KINDS = ["range", "text", "duplicates", "shuffled", "dates"]


def gen_recipe(rng, n):
    """how the values of one case are stored before they are handed to crps"""
    dts = F_DTYPES + (I_DTYPES if rng.random() < 0.5 else [])
    shared = rng.random() < 0.12
    rec = {"obs_dtype": rng.choice(dts), "ens_dtype": rng.choice(dts),
           "obs_form": rng.choice(OBS_FORMS_N1 if (n == 1 and rng.random() < 0.6) else OBS_FORMS),
           "ens_form": rng.choice(ENS_FORMS),
           "obs_index": rng.choice(INDEX_KINDS), "ens_index": rng.choice(INDEX_KINDS),
           "same_index": rng.random() < 0.4, "columns": rng.choice(COLUMN_KINDS),
           "shared": (rng.choice(["one-buffer", "one-buffer", "obs-as-member"]) if shared else None),
           "seed": rng.randrange(1 << 30)}
    return rec


def _cast(a, dt, k):
    """the float64 array `a` held with dtype `dt` (integers: rint(k*a), clipped); None when the
    type cannot hold the values (NaN in an integer type, overflow to inf)"""
    if dt == "O":
        b = np.empty(a.shape, dtype=object)
        b[...] = a
        return b
    d = np.dtype(dt)
    if d.kind in "iub":
        if np.isnan(a).any() or not np.isfinite(a).all():
            return None
        x = np.rint(a * k)
        if d.kind == "b":
            return x > 0
        info = np.iinfo(d)
        return np.clip(x, max(info.min, -2 ** 62), min(info.max, 2 ** 62)).astype(d)
    with np.errstate(all="ignore"):
        b = a.astype(d)
        if np.isinf(b.astype(np.float64)).any() and not np.isinf(a).any():
            return None
    return b


def _zeros(shape, like, order="C"):
    w = np.empty(shape, dtype=like.dtype, order=order)
    w[...] = like.dtype.type(0) if like.dtype != object else 0.0
    return w


def _index(kind, n, r):
    import pandas as pd
    if kind == "range":
        return None
    if kind == "dates":
        return pd.date_range("1999-12-25", periods=n, freq="D")
    if kind == "dates-s":
        return pd.date_range("1999-12-25", periods=n, freq="D", unit="s")
    if kind == "dates-tz":
        return pd.date_range("1999-12-25", periods=n, freq="6h", tz="Australia/Sydney")
    if kind == "dates-desc":
        return pd.date_range("1999-12-25", periods=n, freq="D")[::-1]
    if kind == "text":
        return ["s%03d" % k for k in r.sample(range(n), n)]
    if kind == "shuffled":
        return r.sample(range(n), n)
    if kind == "duplicates":
        return [r.randrange(max(1, n // 2)) for _ in range(n)]
    if kind == "offset-int":
        return list(range(100, 100 + n))
    return [k + 0.5 for k in range(n)]


def _obs_form(b, form, r, index):
    """the 1-d typed array `b` in the form `form`; None when the form does not apply"""
    import pandas as pd
    n = b.shape[0]
    if form == "C":
        return b.copy()
    if form == "strided":              # every other element of a longer array
        w = _zeros(2 * n, b)
        w[::2] = b
        return w[::2]
    if form == "negstride":            # stored backwards
        return b[::-1].copy()[::-1]
    if form == "column":               # a column of a row-major table
        w = _zeros((n, 3), b)
        j = r.randrange(3)
        w[:, j] = b
        return w[:, j]
    if form == "nx1":                  # the documented [n,1] form
        return b.copy().reshape(-1, 1) if n >= 2 else None
    if form == "nx1-strided":          # [n,1] slice of a wider table
        if n < 2:
            return None
        w = _zeros((n, 3), b)
        j = r.randrange(3)
        w[:, j] = b
        return w[:, j:j + 1]
    if form == "readonly":
        c = b.copy()
        c.flags.writeable = False
        return c
    if form == "scalar":               # Python scalar
        return b[0].item() if (n == 1 and b.dtype != object) else None
    if form == "npscalar":
        return b[0] if n == 1 else None
    if form == "0d":
        return np.array(b[0], dtype=b.dtype) if n == 1 else None
    if form == "list":
        return b.tolist()
    if form == "tuple":
        return tuple(b.tolist())
    if form == "npscalars":
        return list(b)
    if form == "series":
        return pd.Series(b.copy(), index=index, name=r.choice([None, "obs", 0]))
    if form == "frame1":               # single-column table ([n,1])
        return pd.DataFrame({"obs": b.copy()}, index=index) if n >= 2 else None
    if form == "masked":               # masked array, nothing masked
        return np.ma.array(b.copy()) if b.dtype != object else None
    return None


def _ens_form(b, form, r, index, columns):
    import pandas as pd
    n, m = b.shape
    if form == "C":
        return b.copy()
    if form == "F":
        return np.asfortranarray(b)
    if form == "T":                    # transposed view of a members x forecasts array
        return np.ascontiguousarray(b.T).T
    if form == "colstrided":           # every other column of a wider array
        w = _zeros((n, 2 * m), b)
        w[:, ::2] = b
        return w[:, ::2]
    if form == "rowstrided":
        w = _zeros((2 * n, m), b)
        w[::2, :] = b
        return w[::2, :]
    if form == "negstride":
        return b[::-1, ::-1].copy()[::-1, ::-1]
    if form == "offset":               # window of a larger table
        w = _zeros((n + 2, m + 3), b, order=r.choice("CF"))
        w[1:n + 1, 2:m + 2] = b
        return w[1:n + 1, 2:m + 2]
    if form == "readonly":
        c = b.copy()
        c.flags.writeable = False
        return c
    if form == "broadcast":            # stride-0 view of one forecast / of one member
        if b.dtype == object:
            return None
        f8 = b.astype(np.float64)
        if n >= 2 and all(np.array_equal(f8[0], f8[i], equal_nan=True) for i in range(1, n)):
            return np.broadcast_to(b[0].copy(), (n, m))
        if m >= 2 and all(np.array_equal(f8[:, 0], f8[:, j], equal_nan=True) for j in range(1, m)):
            return np.broadcast_to(b[:, :1].copy(), (n, m))
        return None
    if form == "lists":
        return b.tolist()
    if form == "tuples":
        return tuple(tuple(row) for row in b.tolist())
    if form == "rowarrays":
        return [b[i].copy() for i in range(n)]
    if form == "frame":
        return pd.DataFrame(b.copy(), index=index, columns=columns)
    if form == "masked":
        return np.ma.array(b.copy()) if b.dtype != object else None
    return None


def build_stored(recipe, obs, ens):
    """-> (obs object, ens object, obs values, ens values, description of what was built).
    The values are the float64 numbers the two objects hold (after the storage type)."""
    import pandas as pd
    r = random.Random(recipe["seed"])
    n = len(obs)
    ao = np.array(obs, dtype=np.float64)
    ae = np.array(ens, dtype=np.float64).reshape(n, -1)
    m = ae.shape[1]
    fin = [abs(v) for v in ao.tolist() + ae.ravel().tolist() if math.isfinite(v)]
    S = max(fin) if fin else 0.0
    k = 1.0 if (S >= 8 or S == 0 or S < 1e-200) else 8.0 / S
    odt, edt = recipe["obs_dtype"], recipe["ens_dtype"]
    shared = recipe.get("shared")
    if shared:
        odt = edt
    bo, be = _cast(ao, odt, k), _cast(ae, edt, k)
    if bo is None or be is None:       # same unit for both
        odt = edt = "f8"
        bo, be = ao.copy(), ae.copy()
    oi = _index(recipe["obs_index"], n, r)
    ei = oi if recipe["same_index"] else _index(recipe["ens_index"], n, r)
    cols = _index(recipe["columns"], m, r)
    desc = {"obs_dtype": odt, "ens_dtype": edt}
    if shared == "obs-as-member":      # the single member IS the observation (same buffer)
        o = bo.copy()
        e = o.reshape(n, 1)
        desc.update(shared=shared, obs_form="C", ens_form="view of obs")
        vo = np.asarray(o).astype(np.float64).tolist()
        return o, e, vo, [[y] for y in vo], desc
    if shared:                          # observation column and members in one table
        data = np.empty((n, m + 1), dtype=be.dtype, order=r.choice("CF"))
        j = r.choice([0, m])
        data[:, j] = bo
        e = data[:, 1:] if j == 0 else data[:, :m]
        e[...] = be
        o = data[:, j]
        desc.update(shared=shared, obs_form=f"column {j} of the table", ens_form="other columns",
                    order="F" if data.flags.f_contiguous and not data.flags.c_contiguous else "C")
    elif recipe["ens_form"] == "frame-mixed":      # columns of different types
        cs = []
        for jj in range(m):
            c = _cast(ae[:, jj], r.choice(["f8", "f4", "i4", "i2", "?"]), k)
            cs.append(ae[:, jj].copy() if c is None else c)
        e = pd.DataFrame({jj: c for jj, c in enumerate(cs)}, index=ei)
        be = np.column_stack([c.astype(np.float64) for c in cs]).reshape(n, m)
        desc.update(ens_form="frame-mixed", ens_dtype=[str(c.dtype) for c in cs], ens_index=recipe["ens_index"])
        o = None
    else:
        e = _ens_form(be, recipe["ens_form"], r, ei, cols)
        desc.update(ens_form=recipe["ens_form"] if e is not None else "C")
        if e is None:
            e = be.copy()
        if desc["ens_form"] == "frame":
            desc.update(ens_index="same as obs" if recipe["same_index"] else recipe["ens_index"],
                        columns=recipe["columns"])
        o = None
    if o is None:
        o = _obs_form(bo, recipe["obs_form"], r, oi)
        desc.update(obs_form=recipe["obs_form"] if o is not None else "C")
        if o is None:
            o = bo.copy()
        if desc["obs_form"] in ("series", "frame1"):
            desc.update(obs_index=recipe["obs_index"])
    vo = np.asarray(bo).astype(np.float64).tolist()
    ve = np.asarray(be).astype(np.float64).reshape(n, m).tolist()
    return o, e, vo, ve, desc


def call_impl(o, e):
    """crps on the objects as they are -> (decomposition Series, table, None) or (None, None, exception text)"""
    from hydrodiy.stat import metrics
    try:
        with np.errstate(all="ignore"):
            dec, tab = metrics.crps(o, e)
    except Exception as ex:      # noqa: BLE001
        return None, None, f"{type(ex).__name__}: {str(ex)[:120]}"
    return dec, tab, None


def as_out(dec, tab):
    d = [float(x) for x in np.asarray(dec.values, dtype=np.float64)]
    t = [[float(x) for x in row] for row in np.asarray(tab.values, dtype=np.float64)]
    return d, t


def stored_form_check(ctx, rng, recipe, obs, ens):
    """one case handed over in a stored form; returns True when a failure was reported"""
    o, e, vo, ve, desc = build_stored(recipe, obs, ens)
    cm.mark({"call": "metrics.crps (stored form)", "obs": obs, "ens": ens, "recipe": recipe})
    dec, tab, exc = call_impl(o, e)
    out = None if exc else as_out(dec, tab)
    ctx.count(("stored", desc.get("obs_form"), desc.get("ens_form"), str(desc.get("obs_dtype")),
               str(desc.get("ens_dtype")) if not isinstance(desc.get("ens_dtype"), list) else "mixed"))
    bad = False
    for key, what in oracle(rng, {"obs": vo, "ens": ve, "tag": "stored-form"}, out, exc):
        bad = True
        ctx.failure(key.replace("C03/crps/", "C03/crps/stored-form/"),
                    {"obs": obs, "ens": ens, "stored_form": recipe, "built": desc,
                     "values_obs": vo, "values_ens": ve,
                     "input_class": "same values, other storage type / memory layout / container",
                     "output": None if out is None else dict(zip(NAMES, out[0])), "exception": exc},
                    f"inputs stored as {desc}: {what}")
    return bad


# ----------------------------------------------------------------------------
# sessions: the same input objects and the module used over a sequence of calls.  After every
# call the result must be the crps of the values the objects hold AT THAT MOMENT (definition,
# identities, signs: the same oracle), and a result returned earlier must still be what it was.

CONTAINERS = ["array", "array", "arrayF", "f4", "pandas", "pandas", "shared", "lists"]


def gen_session(rng, thorough):
    m = rng.choice([1, 2, 3, 3, rng.randint(1, 8)])
    nslots = rng.choice([1, 2, 2, 3])
    steps, shape = [], {}
    for s in range(nslots):
        n = rng.choice([1, 2, 3, 5, rng.randint(1, 12)])
        ms = m if rng.random() < 0.8 else rng.randint(1, 8)
        c = gen_case(rng, False, n, ms)
        steps.append({"op": "new", "slot": s, "obs": c["obs"], "ens": c["ens"],
                      "container": rng.choice(CONTAINERS)})
        shape[s] = (n, ms)
        steps.append({"op": "call", "slot": s})
    for _ in range(rng.randint(3, 16 if thorough else 8)):
        s = rng.randrange(nslots)
        n, ms = shape[s]
        x = rng.random()
        if x < 0.3:
            steps.append({"op": "call", "slot": s})
        elif x < 0.38:
            steps.append({"op": "pit", "slot": s})
        else:
            how = rng.choice(["all", "all", "obs", "ens", "nan", "poke", "shift", "sortrows"])
            st = {"op": "write", "slot": s, "how": how}
            if how in ("all", "obs", "ens"):
                c = gen_case(rng, False, n, ms)
                st["obs"], st["ens"] = c["obs"], c["ens"]
            elif how == "nan":
                st["i"] = rng.randrange(n)
            elif how == "poke":
                st["i"], st["j"], st["v"] = rng.randrange(n), rng.randrange(-1, ms), rng.randint(-8, 8) / 4.0
            elif how == "shift":
                st["c"] = rng.choice([1.0, -3.5, 1024.0])
            steps.append(st)
            if nslots > 1 and rng.random() < 0.4:      # another object in between
                steps.append({"op": "call", "slot": rng.choice([t for t in range(nslots) if t != s])})
            steps.append({"op": "call", "slot": s})
    for s in rng.sample(range(nslots), nslots):
        steps.append({"op": "call", "slot": s})
    return steps


def _new_slot(st):
    import pandas as pd
    n = len(st["obs"])
    ao = np.array(st["obs"], dtype=np.float64)
    ae = np.array(st["ens"], dtype=np.float64).reshape(n, -1)
    c = st["container"]
    if c == "arrayF":
        return ao, np.asfortranarray(ae)
    if c == "f4":
        with np.errstate(all="ignore"):
            o4, e4 = ao.astype(np.float32), ae.astype(np.float32)
        if np.isinf(o4).any() or np.isinf(e4).any():
            return ao, ae
        return o4, e4
    if c == "pandas":
        idx = pd.date_range("2001-03-01", periods=n, freq="D")
        return pd.Series(ao, index=idx), pd.DataFrame(ae, index=idx)
    if c == "shared":
        data = np.empty((n, ae.shape[1] + 1))
        data[:, 0] = ao
        data[:, 1:] = ae
        return data[:, 0], data[:, 1:]
    if c == "lists":
        return ao.tolist(), ae.tolist()
    return ao, ae


def _store(o, e, new_obs, new_ens):
    """write the values into the SAME objects (None: leave as is)"""
    import pandas as pd
    if new_obs is not None:
        if isinstance(o, pd.Series):
            o.iloc[:] = new_obs
        else:
            o[:] = new_obs
    if new_ens is not None:
        if isinstance(e, pd.DataFrame):
            e.iloc[:, :] = np.array(new_ens, dtype=np.float64)
        elif isinstance(e, list):
            for row, new in zip(e, new_ens):
                row[:] = new
        else:
            e[:, :] = new_ens
    return None


def _held_values(o, e):
    n = len(o)
    vo = np.array(o, dtype=np.float64).reshape(n).tolist()
    ve = np.array(e, dtype=np.float64).reshape(n, -1).tolist()
    return vo, ve


def run_session(ctx, rng, steps):
    """returns True when a failure was reported"""
    from hydrodiy.stat import metrics
    cm.mark({"call": "metrics.crps (session)", "steps": steps})
    slots, shadow, kept = {}, {}, []
    bad = False
    for si, st in enumerate(steps):
        s = st["slot"]
        if st["op"] == "new":
            slots[s] = _new_slot(st)
            shadow[s] = _held_values(*slots[s])
            continue
        o, e = slots[s]
        if st["op"] == "pit":          # another entry point sharing the input checks
            try:
                with np.errstate(all="ignore"):
                    metrics.pit(o, e)
            except Exception:      # noqa: BLE001
                pass
            continue
        if st["op"] == "write":
            vo, ve = shadow[s]
            how = st["how"]
            if how == "all":
                _store(o, e, st["obs"], st["ens"])
            elif how == "obs":
                _store(o, e, st["obs"], None)
            elif how == "ens":
                _store(o, e, None, st["ens"])
            elif how == "nan":
                vo = list(vo)
                vo[st["i"]] = NAN
                _store(o, e, vo, None)
            elif how == "poke":
                if st["j"] < 0:
                    vo = list(vo)
                    vo[st["i"]] = st["v"]
                    _store(o, e, vo, None)
                else:
                    ve = [list(r) for r in ve]
                    ve[st["i"]][st["j"]] = st["v"]
                    _store(o, e, None, ve)
            elif how == "shift":
                _store(o, e, [y + st["c"] for y in vo], [[x + st["c"] for x in r] for r in ve])
            elif how == "sortrows":
                if isinstance(e, np.ndarray):
                    e.sort(axis=1)
                else:
                    _store(o, e, None, [sorted(r) for r in ve])
            shadow[s] = _held_values(o, e)
            continue
        # a call
        vo, ve = shadow[s]
        dec, tab, exc = call_impl(o, e)
        ctx.count()
        out = None if exc else as_out(dec, tab)
        base = {"session": steps, "failed_at_step": si, "values_obs": vo, "values_ens": ve,
                "input_class": "one module, the same input objects over a sequence of calls and in-place changes",
                "output": None if out is None else dict(zip(NAMES, out[0])), "exception": exc}
        for key, what in oracle(rng, {"obs": vo, "ens": ve, "tag": "session"}, out, exc):
            bad = True
            ctx.failure(key.replace("C03/crps/", "C03/crps/session/"), base,
                        f"step {si} of a session ({st}, after {[x['op'] + ':' + str(x.get('how', x['slot'])) for x in steps[max(0, si - 3):si]]}) "
                        f"on inputs now holding obs={vo[:4]}.. ens={ve[:2]}..: {what}")
        # results returned earlier still are what they were
        for sj, d0, t0, dsnap, tsnap in kept:
            dnow = np.asarray(d0.values, dtype=np.float64)
            tnow = np.asarray(t0.values, dtype=np.float64)
            if not (np.array_equal(dnow, dsnap, equal_nan=True) and np.array_equal(tnow, tsnap, equal_nan=True)):
                bad = True
                ctx.failure("C03/crps/session/returned-result-changed-later",
                            dict(base, returned_at_step=sj, decomposition_then=dsnap.tolist(),
                                 decomposition_now=dnow.tolist()),
                            f"the result returned at step {sj} of a session read {dict(zip(NAMES, dsnap.tolist()))} "
                            f"when returned and reads {dict(zip(NAMES, dnow.tolist()))} after the call of step {si}")
                kept = [k for k in kept if k[0] != sj]
                break
        if out is not None:
            kept.append((si, dec, tab, np.array(dec.values, dtype=np.float64, copy=True),
                         np.array(tab.values, dtype=np.float64, copy=True)))
    return bad


# ----------------------------------------------------------------------------
# sizes: the property is stated for ALL n >= 1 forecasts and ALL m >= 1 members.  The Coq
# correspondence (vm_compute) and the Fraction oracle above stop at n <= 160, m <= 64, so every
# size-dependent branch or integer computation of the code (n*n, n*(n-1)/2, m*m, n*m, 16/32-bit
# counters, "use another algorithm above N") is outside what they exercise.  This class runs the
# implementation on LONG records (n up to 1e5, thorough 2e5: around 2^15, sqrt(2^31), 2^16,
# sqrt(2^33) and in between), WIDE ensembles (the same ladder for m) and moderately large n x m
# tables, and judges the clauses with an exact integer oracle that costs O(nm log m + n log n):
# definition, uncertainty = CRPS of the observed climatology (sorted-sample formula), the two
# identities, the three signs, no exception / finite.  Forecasts with a missing observation are
# part of the class, so that the number of VALID forecasts, or the number handed in, sits on a
# boundary.
#
# Tolerances.  definition / identities: 1e-9*max|value| as elsewhere (the a, b accumulators take
# n terms, the final sums m+1 terms: n*2^-53 << 1e-9).  uncertainty: the code may add the
# N = n(n-1)/2 non-negative pair terms in any order; the a-priori bound of a floating point sum
# of N non-negative terms is N * 2^-53 * sum, so the tolerance is 1e-9*max|value| + 1.01 * (N+8)
# * 2^-53 * exact value (1.2e-7 relative at n = 46341, 5.5e-7 at n = 1e5): any re-association
# of the pair loop passes, a wrong divisor / a dropped or doubled pair block does not.

N_LADDER = [182, 257, 1000, 1291, 4096, 10000, 32767, 32768, 32769]           # cheap (<= 0.4 s each)
N_EDGES = [[46341, 46340, 46342], [65536, 65535, 65537], [100000, 92682, 92683]]  # first of each: always
EDGE_FIRST = {46341, 65536, 65537, 92683, 100000}       # first case of each: exactly n valid forecasts
M_LADDER = [100, 181, 182, 255, 256, 257, 1000, 1290, 1291, 4096, 32767, 32768, 32769,
            46340, 46341, 46342, 65535, 65536, 65537, 92683, 100000]
SQUARES = [(256, 256), (257, 257), (255, 258), (64, 1025), (1025, 64), (300, 1000), (1000, 300), (1500, 1500)]
SQUARES_THOROUGH = [(2000, 2000), (4097, 4097), (8192, 2049), (2049, 8192), (40000, 50), (50, 40000)]
L_INT_KINDS = ["lattice", "lattice", "coarse", "qgauss", "qgauss", "qgauss"]
L_FLOAT_KINDS = ["gauss", "gauss", "skew"]
L_SHAPES = ["plain", "plain", "plain", "below", "above", "const-ens", "obs-on-member", "sorted", "all-equal"]
L_NAN = ["none", "none", "none", "extra", "extra", "within", "nanrow"]
L_LAYOUTS = ["C", "C", "F", "frame", "obs-column"]
OBJECT_PATH_MAX = 400000     # values (tables: 70000); above: only kinds whose exact integers fit int64


def gen_large_recipe(rng, n, m, degenerate_ok=True, valid_exact=False):
    """the description of one large case; the data are a deterministic function of it.
    `valid_exact`: the number of VALID forecasts is exactly n (missing ones only added)"""
    kinds = L_INT_KINDS + (L_FLOAT_KINDS if n * (m + 1) <= (OBJECT_PATH_MAX if min(n, m) <= 8 else 70000) else [])
    shape = rng.choice(L_SHAPES)
    if shape == "all-equal" and not degenerate_ok:
        shape = "plain"
    nan = rng.choice(L_NAN)
    if valid_exact and nan in ("within", "nanrow"):
        nan = rng.choice(["none", "extra"])
    if n < 4:
        nan = "none" if nan in ("within", "nanrow") else nan
    return {"n": n, "m": m, "kind": rng.choice(kinds), "shape": shape, "nan": nan,
            "n_nan": rng.choice([1, 2, 3, 7, 100]) if nan != "none" else 0,
            "scale_exp": rng.choice([0, 0, 0, -10, 10, -40, 40]),
            "scale": rng.choice([1.0, 1.0, 1e-3, 1e3, 1e6, 1e-12]),
            "shift": rng.choice([0, 0, 0, 100, -10000]),
            "layout": rng.choice(L_LAYOUTS), "seed": rng.randrange(1 << 30)}


def build_large(rec):
    """-> (obs [ntot] float64, ens [ntot, m] float64).  `n` of the recipe is the number of valid
    forecasts for nan in (none, extra), the number handed in for (within, nanrow)."""
    g = np.random.Generator(np.random.PCG64(rec["seed"]))
    n, m, kind = rec["n"], rec["m"], rec["kind"]
    unit = 2.0 ** rec["scale_exp"]

    def draw(shape):
        if kind == "lattice":        # dyadic lattice: exact ties everywhere
            return g.integers(-8, 9, size=shape).astype(np.float64) * (unit / 4) + rec["shift"] * unit
        if kind == "coarse":         # {-1, -0, 0, 1}
            v = g.integers(-1, 2, size=shape).astype(np.float64) * unit
            neg = (v == 0) & (g.random(size=shape) < 0.3)
            return np.where(neg, -0.0, v)
        if kind == "qgauss":         # Gaussian rounded to 2^-20: few ties, exact integers in the oracle
            return (np.rint(g.standard_normal(size=shape) * 2.0 ** 20) * (unit * 2.0 ** -20)
                    + rec["shift"] * unit)
        if kind == "gauss":
            return g.standard_normal(size=shape) * rec["scale"] + float(rec["shift"])
        return np.exp(g.standard_normal(size=shape) * 2.0) * rec["scale"]      # skew
    obs = draw(n)
    ens = draw((n, m))
    pad = unit / 4 if kind in ("lattice", "coarse", "qgauss") else rec["scale"] * 1e-3
    shape = rec["shape"]
    if shape == "below":             # every observation below its whole ensemble
        obs = ens.min(axis=1) - np.abs(draw(n) - (draw(n))) - pad
    elif shape == "above":
        obs = ens.max(axis=1) + np.abs(draw(n) - (draw(n))) + pad
    elif shape == "const-ens":
        ens = np.repeat(ens[:, :1], m, axis=1)
    elif shape == "obs-on-member":
        r = g.random(size=n)
        pick = ens[np.arange(n), g.integers(0, m, size=n)]
        obs = np.where(r < 0.3, ens.min(axis=1), np.where(r < 0.6, ens.max(axis=1), pick))
    elif shape == "all-equal":       # the same forecast repeated, constant observation
        ens = np.repeat(ens[:1, :], n, axis=0)
        obs = np.full(n, obs[0])
    elif shape == "sorted":
        ens = np.sort(ens, axis=1)
        if rec["seed"] & 1:
            ens = ens[:, ::-1]
    ens = np.ascontiguousarray(ens, dtype=np.float64)
    obs = np.ascontiguousarray(obs, dtype=np.float64)
    k = min(rec.get("n_nan", 0), max(0, n - 1))
    if rec["nan"] == "extra" and rec.get("n_nan", 0):     # k more forecasts, observation missing
        k = rec["n_nan"]
        pos = np.sort(g.integers(0, n + 1, size=k))
        obs = np.insert(obs, pos, np.nan)
        ens = np.insert(ens, pos, draw((k, m)), axis=0)
    elif rec["nan"] == "within" and k:
        obs[g.choice(n, size=k, replace=False)] = np.nan
    elif rec["nan"] == "nanrow" and k:               # rows whose members are all missing
        ens[g.choice(n, size=k, replace=False), :] = np.nan
    return obs, ens


def run_impl_arrays(obs, ens, layout="C"):
    """public API on arrays -> (decomposition[5], None) or (None, exception text)"""
    from hydrodiy.stat import metrics
    o, e = obs, ens
    if layout == "F":
        e = np.asfortranarray(ens)
    elif layout == "frame":
        import pandas as pd
        o, e = pd.Series(obs), pd.DataFrame(ens)
    elif layout == "obs-column" and obs.shape[0] >= 2:
        o = obs.reshape(-1, 1)
    try:
        with np.errstate(all="ignore"):
            dec, _tab = metrics.crps(o, e)
    except Exception as ex:      # noqa: BLE001
        return None, f"{type(ex).__name__}: {str(ex)[:160]}"
    return [float(x) for x in np.asarray(dec.values, dtype=np.float64)], None


def _common_exponent(arrs):
    """E such that every finite value of the arrays is an integer multiple of 2^E (the largest
    such E), and the largest |value| / 2^E; (None, 0) when all values are zero"""
    emin, top = None, 0.0
    for a in arrs:
        a = np.abs(a[np.isfinite(a) & (a != 0)])
        if a.size == 0:
            continue
        mant, ex = np.frexp(a)
        mi = np.ldexp(mant, 53).astype(np.int64)             # exact: 53-bit integers
        low = (mi & -mi).astype(np.float64)                  # lowest set bit (a power of two)
        tz = np.frexp(low)[1] - 1
        e = int((ex.astype(np.int64) - 53 + tz).min())
        emin = e if emin is None else min(emin, e)
        top = max(top, float(a.max()))
    if emin is None:
        return None, 0.0
    try:
        return emin, math.ldexp(top, -emin)
    except OverflowError:
        return emin, float("inf")


def exact_large(obs, ens):
    """exact (crps by the definition, CRPS of the observed climatology) of the valid forecasts as
    Fractions, by integer arithmetic: every value is k * 2^E.  int64 numpy when the sums fit,
    Python integers otherwise.  Independent of the library."""
    n, m = ens.shape
    E, top = _common_exponent([obs, ens])
    if E is None:
        return Fr(0), Fr(0)
    unit = Fr(2) ** E
    coef = 2 * np.arange(m, dtype=np.int64) - m + 1
    if top * 4.0 * max(m * m, n) < 2.0 ** 62:
        io = np.ldexp(obs, -E).astype(np.int64)
        ie = np.ldexp(ens, -E).astype(np.int64)
        if not (np.array_equal(np.ldexp(io.astype(np.float64), E), obs)
                and np.array_equal(np.ldexp(ie.astype(np.float64), E), ens)):
            raise AssertionError("oracle: integer image of the inputs is not exact")
        A = np.abs(ie - io[:, None]).sum(axis=1)             # sum_k |x_k - y|
        P = np.sort(ie, axis=1) @ coef                       # sum_{k<l} |x_k - x_l|
        num = sum(int(v) for v in (m * A - P))
        so = [int(v) for v in np.sort(io)]
    else:
        def to_int(v):
            a, b = float(v).as_integer_ratio()       # b = 2^s
            sh = -(b.bit_length() - 1) - E
            if sh >= 0:
                return a << sh
            if a & ((1 << -sh) - 1):
                raise AssertionError("oracle: value is not a multiple of the common unit")
            return a >> -sh
        so = sorted(to_int(v) for v in obs)
        num = 0
        for i in range(n):
            y = to_int(obs[i])
            xs = sorted(to_int(v) for v in ens[i])
            num += m * sum(abs(x - y) for x in xs) - sum((2 * k - m + 1) * x for k, x in enumerate(xs))
    pu = sum((2 * k - n + 1) * y for k, y in enumerate(so))
    return Fr(num, n * m * m) * unit, Fr(pu, n * n) * unit


def oracle_large(obs, ens, dec, exc):
    """-> list of (clause, what) on the valid forecasts of (obs, ens)"""
    ok = ~np.isnan(obs) & ~np.isnan(ens).all(axis=1)
    vo, ve = obs[ok], ens[ok]
    n, m = ve.shape
    if n == 0 or np.isnan(ve).any():
        return []
    if dec is None:
        return [("valid-input-rejected", f"crps raised {exc} for {n} valid forecast(s) with {m} member(s)")]
    d = dict(zip(NAMES, dec))
    if any(math.isnan(v) or math.isinf(v) for v in dec):
        return [("not-finite", f"decomposition {d} is not finite (n={n}, m={m})")]
    S = float(max(np.abs(vo).max(), np.abs(ve).max()))
    tol = TOL * S
    want, wantu = exact_large(vo, ve)
    fw, fu = float(want), float(wantu)
    fails = []
    if abs(Fr(d["crps"]) - want) > tol:
        fails.append(("definition", f"crps={d['crps']!r} but mean(E|X-y| - 0.5 E|X-X'|)={fw!r} (n={n}, m={m})"))
    npairs = n * (n - 1) // 2
    tolu = tol + 1.01 * (npairs + 8) * 2.0 ** -53 * fu
    if abs(Fr(d["uncertainty"]) - wantu) > tolu:
        fails.append(("uncertainty-climatology",
                      f"uncertainty={d['uncertainty']!r} but the CRPS of the observed climatology is {fu!r} "
                      f"(n={n} forecasts, tolerance {tolu:.3g})"))
    if abs(d["crps"] - (d["reliability"] + d["potential"])) > tol:
        fails.append(("identity-reliability-potential",
                      f"crps={d['crps']!r} != reliability+potential={d['reliability'] + d['potential']!r} "
                      f"(n={n}, m={m})"))
    if abs(d["resolution"] - (d["uncertainty"] - d["potential"])) > tol:
        fails.append(("identity-resolution",
                      f"resolution={d['resolution']!r} != uncertainty-potential="
                      f"{d['uncertainty'] - d['potential']!r} (n={n}, m={m})"))
    for k in ("reliability", "potential", "uncertainty"):
        if d[k] < 0:
            fails.append((f"negative-{k}", f"{k}={d[k]!r} is negative (n={n} forecasts, m={m} members)"))
    return fails


def _smallest_failing_prefix(obs, ens, clause, budget_s=25.0):
    """smallest number of leading forecasts of this input on which the same clause still fails
    (bisection: a boundary, the clause holds on one forecast less); None when not found in time"""
    import time
    t0 = time.time()

    def fails(k):
        dec, exc = run_impl_arrays(obs[:k], ens[:k])
        return any(c == clause for c, _ in oracle_large(obs[:k], ens[:k], dec, exc))
    lo, hi = 1, obs.shape[0]
    if not fails(hi):          # (the failure needs the layout / container of the original call)
        return None
    if fails(lo):
        return lo
    while hi - lo > 1:
        if time.time() - t0 > budget_s:
            return None
        mid = (lo + hi) // 2
        if fails(mid):
            hi = mid
        else:
            lo = mid
    return hi


def large_check(ctx, rec, cls):
    """one large case; returns True when a failure was reported"""
    obs, ens = build_large(rec)
    cm.mark({"call": "metrics.crps (large size)", "recipe": rec})
    dec, exc = run_impl_arrays(obs, ens, rec.get("layout", "C"))
    ctx.count(("large", cls, rec["kind"], rec["shape"], rec["nan"], rec.get("layout")))
    bad = False
    for clause, what in oracle_large(obs, ens, dec, exc):
        bad = True
        key = f"C03/crps/large-size/{clause}"
        replay = {"large_recipe": rec, "class": cls,
                  "input_class": "long record / wide ensemble (data = build_large(recipe), deterministic)",
                  "forecasts_handed_in": int(obs.shape[0]), "members": int(ens.shape[1]),
                  "valid_forecasts": int((~np.isnan(obs) & ~np.isnan(ens).all(axis=1)).sum()),
                  "obs_head": obs[:8].tolist(), "ens_head": ens[:4, :8].tolist(),
                  "output": None if dec is None else dict(zip(NAMES, dec)), "exception": exc}
        if key not in ctx._viol_keys:
            if obs.size + ens.size <= 300000:
                replay["obs"], replay["ens"] = obs.tolist(), ens.tolist()
            if obs.shape[0] > 64:
                k = _smallest_failing_prefix(obs, ens, clause)
                if k is not None:
                    replay["smallest_failing_prefix"] = k
                    what += f"; on this input the clause fails for the first {k} forecasts and holds for the first {k - 1}"
        ctx.failure(key, replay,
                    f"{cls} ({rec['kind']} values, shape {rec['shape']}, missing: {rec['nan']}, "
                    f"{obs.shape[0]} forecasts x {ens.shape[1]} members, seed {rec['seed']}): {what}")
    return bad


def large_plan(rng, thorough, deep):
    """[(class, n, m)] - `deep`: the proofs / the ties are broken, search every edge.
    Cost of a long record: n^2/2 pair terms in the code (1 s at 46341, 4-5 s at 1e5)."""
    plan = []
    small_m = lambda: rng.choice([1, 1, 2, 3, rng.randint(4, 8)])      # noqa: E731
    small_n = lambda: rng.choice([1, 1, 2, 3, rng.randint(4, 6)])      # noqa: E731
    full = thorough or deep
    for _ in range(2 if thorough else 1):
        for n in N_LADDER:
            if full or n not in (32767, 32769):
                plan.append(("long record", n, small_m()))
        if not full:
            plan.append(("long record", rng.choice([32767, 32769]), small_m()))
        for _ in range(2):      # log-uniform in between
            plan.append(("long record", int(math.exp(rng.uniform(math.log(46), math.log(32766)))), small_m()))
        for m in M_LADDER:
            plan.append(("wide ensemble", small_n(), m))
        for _ in range(2):
            plan.append(("wide ensemble", small_n(), int(math.exp(rng.uniform(math.log(13), math.log(100000))))))
        for n, m in SQUARES + (SQUARES_THOROUGH if thorough else []):
            plan.append(("large table", n, m))
    if full:
        ns = [n for edge in N_EDGES for n in edge] + [rng.randint(46343, 65534), rng.randint(65538, 92681)]
    else:
        ns = [46341, rng.choice([46340, 46342]), rng.choice([65536, 65536, 65537, 65535]),
              rng.randint(46343, 65534), rng.choice([92683, 100000])]
    if thorough:
        ns += [131072, 200000, rng.randint(100001, 200000)]
    for n in ns:
        plan.append(("long record", n, small_m()))
    return plan


# ----------------------------------------------------------------------------

def signature(case, out):
    n, m = len(case["obs"]), len(case["ens"][0])
    ncl = 0 if n == 1 else 1 if n == 2 else 2 if n < 10 else 3
    mcl = m if m <= 3 else 4 if m <= 12 else 5
    return (case["tag"], case["kind"], ncl, mcl, out is None, case.get("obsform", "flat"))


def run(ctx):
    ctx.rule = ("cases from one PRNG: n in {1,2,3,9,11,21, 1..45 (160 thorough)} forecasts x m in {1,2,3, 1..12 "
                "(64 thorough)} members x values on a dyadic lattice / in {-1,-0,0,1} / Gaussian with scale "
                "1e-3..1e6 and offsets / log-normal / 1e150 (overflow) x shape: plain, every observation below "
                "or above its whole ensemble, constant ensembles, observation equal to a member, identical "
                "forecasts, pre-sorted members x NaN observations (some/all) and all-NaN member rows x observations "
                "passed as [n] or [n,1] array; "
                "every case again in a stored form: storage type float64/32/16/longdouble/object, big-endian, "
                "(values rounded to) int8..int64/uint8/uint16/bool x observations as contiguous / strided / reversed "
                "/ table-column view, [n,1] (also strided), read-only, Python or numpy scalar and 0-d (n=1), list, "
                "tuple, Series (index: range, dates ns/s/tz/descending, text, shuffled, duplicates, offset, float), "
                "one-column frame, masked array without mask x ensemble as C / Fortran / transposed / row- or "
                "column-strided / reversed / window of a larger table / read-only / stride-0 broadcast / nested "
                "lists / tuples / list of rows / DataFrame (own or the observations' index, column labels) / frame "
                "with columns of different types / masked x observation and members views of one buffer; "
                "sessions: 1-3 pairs of input objects (arrays C/F/float32, Series+DataFrame, views of one table, "
                "lists), calls interleaved with in-place changes of the same objects (all / observations / members "
                "rewritten, one value, NaN observation, shift, rows sorted), calls of pit and of other pairs in "
                "between, results kept and re-read after later calls; "
                "sizes (oracle only, exact integer arithmetic): long records n in {182, 257, 1000, 1291, 4096, 1e4, "
                "32767..32769, 46340..46342, 65535..65537, 92682/92683, 1e5, log-uniform 46..32766, uniform "
                "46343..65534 (thorough / broken proof: all of them, 65538..92681, thorough also 131072, 2e5, "
                "1e5..2e5)} x m in 1..8; wide ensembles m in {100, 181, 182, 255..257, 1000, 1290, 1291, 4096, "
                "32767..32769, 46340..46342, 65535..65537, 92683, 1e5, log-uniform 13..1e5} x n in 1..6; tables "
                "256x256 .. 1500x1500 (thorough 4097x4097, 8192x2049, 40000x50) x dyadic lattice / {-1,-0,0,1} / "
                "Gaussian rounded to 2^-20 with scale 2^-40..2^40 and offsets / Gaussian and log-normal with scale "
                "1e-12..1e6 x the shapes above x missing observations added to or inside the record, all-NaN member "
                "rows x C / Fortran / Series+DataFrame / [n,1] observations; "
                "non-trivial = distinct (shape+missing tag, value kind, n class, m class, error) signature or "
                "(stored form, storage types) signature")
    ctx.trusted = cm.STD_TRUST + [
        "glibc qsort and the model's insertion sort give the same value sequence on NaN-free data",
        "pow(x,2) == x*x in binary64 (gcc folding / glibc pow)"]
    ctx.tested_not_proved = [
        "binary64 results within 1e-9*max|value| of the exact rational definition, identities and "
        "invariances - tested on the implementation with an exact rational oracle",
        "sign of reliability/potential/uncertainty in binary64 (proved over the reals; tested strictly in binary64)",
        "Python wrapper glue (atleast_1d/astype/squeeze, Series/DataFrame labels read by name)",
        "independence of the stored form of the inputs (storage type, layout, container, index) and of earlier "
        "calls / in-place changes of the same objects; results returned earlier do not change - tested with the "
        "exact rational oracle on the values held",
        "long records / wide ensembles / large tables (n, m beyond 160 x 64, up to 1e5, thorough 2e5): definition, "
        "uncertainty = climatological CRPS, both identities, signs - tested on the implementation with an exact "
        "integer oracle (sorted-sample formula); the model is not run at these sizes.  The C-level theorems "
        "(C03_kernel_crps_refines_model*) are about MiniC with unbounded integers (overflow not modelled)"]
    proved = cm.prove_with_kernels(ctx, ["c_crps"])
    cm.use_impl()
    rng = ctx.rng
    ncases = ctx.scale(700, 9000)
    # a replay file given on the command line, then the corpus, then the recorded findings
    corpus = []
    rp = getattr(ctx, "replay", None)
    if rp:
        r = rp.get("replay", rp)
        r = r.get("first_mismatch", r) if isinstance(r, dict) else r
        if isinstance(r, dict) and "obs" in r and "ens" in r:
            corpus.append({"obs": [float(x) for x in r["obs"]],
                           "ens": [[float(x) for x in e] for e in r["ens"]], "tag": "replay"})
            if "obs2" in r and "ens2" in r:
                corpus.append({"obs": [float(x) for x in r["obs2"]],
                               "ens": [[float(x) for x in e] for e in r["ens2"]], "tag": "replay-variant",
                               "expected": r.get("expected2"), "tolerance": r.get("tolerance")})
    corpus += cm.load_corpus(PID)
    for k in cm.load_known():
        if k["property"] == PID and isinstance(k.get("replay"), dict) and "obs" in k["replay"]:
            corpus.append({"obs": k["replay"]["obs"], "ens": k["replay"]["ens"], "tag": "recorded-finding"})
    cases, outs, terms = [], [], []
    for i in range(len(corpus) + ncases):
        case = corpus[i] if i < len(corpus) else gen_case(rng, ctx.thorough)
        case.setdefault("tag", "corpus")
        case.setdefault("kind", "corpus")
        cm.mark({"call": "metrics.crps", "case": case})
        case.setdefault("layout", rng.choice(["C", "C", "F", "T", "strided", "frame"]))
        out = run_impl(case["obs"], case["ens"], case.get("obsform", "flat"), case["layout"])
        cases.append(case)
        outs.append(out)
        terms.append(term(case, out))
        ctx.count(signature(case, out))
        if i % 120 == 0:
            ctx.sample({"obs": case["obs"][:6], "ens": [e[:6] for e in case["ens"][:3]],
                        "tag": case["tag"], "decomposition": None if out is None else out[0]})
    bad, nshards, failed = cm.run_case_files(PID, HEADER, "crcase", "cr_ok", terms,
                                             shard=ctx.scale(90, 300), max_bytes=1200000)
    drift = []
    if bad and not failed:
        # second chance for the disagreeing cases only: equal up to 1e-11 relative
        # (a re-associated floating sum in the code is not a disagreement; it is counted)
        bad2, _, failed2 = cm.run_case_files(PID, HEADER, "crcase", "cr_ok_close",
                                             [terms[i] for i in bad], shard=90, max_bytes=1200000)
        if not failed2:
            still = {bad[j] for j in bad2}
            drift = [i for i in bad if i not in still]
            bad = sorted(still)
    ctx.notes["correspondence_cases"] = len(terms)
    ctx.notes["correspondence_mismatches"] = len(bad)
    ctx.notes["rounding_drift_cases"] = len(drift)
    ctx.notes["correspondence_compared"] = "5 decomposition values + 7*(m+1) table values, bit-exact (f_same); ValueError class"
    for k in range(nshards):
        ctx.obligation(f"Cases_{PID}_{k}.agree (model = implementation on the shard)", True)

    # oracle on every case + one metamorphic variant per case
    orc_fail = set()
    nvar = 0
    for i, (case, out) in enumerate(zip(cases, outs)):
        for key, what in oracle(rng, case, out):
            orc_fail.add(i)
            ctx.failure(key, {"obs": case["obs"], "ens": case["ens"],
                              "output": None if out is None else dict(zip(NAMES, out[0]))}, what)
        if case.get("expected") and case.get("tolerance") is not None:
            # replayed metamorphic variant: compare with the recorded expectation
            want = [case["expected"][k] for k in NAMES]
            if out is None or not all(abs(a - b) <= case["tolerance"] for a, b in zip(out[0], want)):
                orc_fail.add(i)
                ctx.failure("C03/crps/replayed-variant",
                            {"obs": case["obs"], "ens": case["ens"], "expected": case["expected"],
                             "output": None if out is None else dict(zip(NAMES, out[0]))},
                            "replayed variant still differs from the expected decomposition")
        for key, what, obs2, ens2, want, tol in variants(rng, case, out):
            nvar += 1
            cm.mark({"call": "metrics.crps", "obs": obs2, "ens": ens2})
            out2 = run_impl(obs2, ens2)
            ctx.count()
            ok = out2 is not None and all(
                (not math.isnan(a)) and abs(a - b) <= tol for a, b in zip(out2[0], want))
            if not ok:
                orc_fail.add(i)
                ctx.failure(key, {"obs": case["obs"], "ens": case["ens"], "obs2": obs2, "ens2": ens2,
                                  "output": dict(zip(NAMES, out[0])),
                                  "output2": None if out2 is None else dict(zip(NAMES, out2[0])),
                                  "expected2": dict(zip(NAMES, want)), "tolerance": tol},
                            f"the decomposition {what}")
    ctx.notes["oracle_cases"] = len(cases)
    ctx.notes["metamorphic_variants"] = nvar

    # the same cases handed over in other stored forms (oracle: the definition on the held values)
    nstored = 0
    if isinstance(rp, dict) and isinstance(rp.get("replay", rp), dict):
        r = rp.get("replay", rp)
        if "stored_form" in r and "obs" in r and "ens" in r:
            nstored += 1
            stored_form_check(ctx, rng, r["stored_form"], [float(x) for x in r["obs"]],
                              [[float(x) for x in e] for e in r["ens"]])
        if "session" in r:
            run_session(ctx, rng, r["session"])
    stride = 3 if ctx.thorough else 1
    for i in range(0, len(cases), stride):
        nstored += 1
        if stored_form_check(ctx, rng, gen_recipe(rng, len(cases[i]["obs"])), cases[i]["obs"], cases[i]["ens"]):
            orc_fail.add(i)
    ctx.notes["stored_form_cases"] = nstored
    # sessions: the same objects / the module over sequences of calls and in-place changes
    nsess = ctx.scale(150, 1200)
    for _ in range(nsess):
        run_session(ctx, rng, gen_session(rng, ctx.thorough))
    ctx.notes["sessions"] = nsess
    # long records / wide ensembles / large tables, judged by the exact integer oracle
    deep = (not proved) or bool(bad) or bool(failed) or ctx.violation_count > 0
    if isinstance(rp, dict) and isinstance(rp.get("replay", rp), dict) and "large_recipe" in rp.get("replay", rp):
        r = rp.get("replay", rp)
        large_check(ctx, r["large_recipe"], r.get("class", "replay"))
    plan = large_plan(rng, ctx.thorough, deep)
    import time
    t_large = time.time()
    seen = set()
    for cls, n, m in plan:
        large_check(ctx, gen_large_recipe(rng, n, m, degenerate_ok=(n < 40000 or ctx.thorough),
                                          valid_exact=(n in EDGE_FIRST and n not in seen)), cls)
        seen.add(n)
    ctx.notes["large_size_cases"] = len(plan)
    ctx.notes["large_size_wall_s"] = round(time.time() - t_large, 1)
    ctx.notes["large_size_deep_search"] = deep
    cm.settle(ctx, proved, bad, failed, orc_fail,
              lambda i: {"obs": cases[i]["obs"], "ens": cases[i]["ens"],
                         "impl_output": outs[i], "model": "Hy.Model.Crps.cr_ok"},
              "Model/Crps.v vs metrics.crps + c_crps.c")
    return ctx.finish()
