"""C03 - CRPS equals its definition and its decomposition is exact."""
import math
from fractions import Fraction as Fr

import numpy as np

from harness import common as cm

PID = "C03"
HEADER = ("From Coq Require Import ZArith List PrimFloat.\n"
          "From Hy Require Import Base.Num Model.Crps.")
NAN = float("nan")
NAMES = ["crps", "reliability", "resolution", "uncertainty", "potential"]


# ----------------------------------------------------------------------------
# generator (inside the property's quantifier: n >= 1 forecasts, m >= 1 members,
# finite members, finite or NaN observations; plus the wrapper's two filter
# branches "no valid row" and "row whose members are all NaN")

def gen_case(rng, thorough):
    nmax = 160 if thorough else 45
    mmax = 64 if thorough else 12
    n = rng.choice([1, 2, 3, 9, 11, 21, rng.randint(1, nmax), rng.randint(1, nmax)])
    m = rng.choice([1, 2, 3, rng.randint(1, mmax), rng.randint(1, mmax)])
    if thorough and n * m > 4000:
        m = max(1, 4000 // n)
    kind = rng.choice(["lattice", "lattice", "coarse", "gauss", "gauss", "skew", "big"])
    scale = rng.choice([1.0, 1.0, 1e-3, 1e3, 1e6, 2.0 ** -40, 1e-12, 2.0 ** 40])
    shift = rng.choice([0.0, 0.0, 0.0, 100.0, -1e4])

    def draw():
        if kind == "lattice":      # dyadic lattice: many exact ties
            return rng.randint(-8, 8) / 4.0
        if kind == "coarse":       # very coarse: ties everywhere, +0/-0
            v = float(rng.randint(-1, 1))
            return -0.0 if (v == 0.0 and rng.random() < 0.3) else v
        if kind == "gauss":
            return rng.gauss(0, 1) * scale + shift
        if kind == "skew":
            return math.exp(rng.gauss(0, 2)) * scale
        return rng.gauss(0, 1) * 1e150   # "big": products overflow, results inf/NaN
    obs = [draw() for _ in range(n)]
    ens = [[draw() for _ in range(m)] for _ in range(n)]
    shape = rng.random()
    tag = "plain"
    if shape < 0.12:      # every observation below its whole ensemble
        tag = "below"
        obs = [min(e) - abs(draw()) - (0.25 if kind in ("lattice", "coarse") else abs(scale) * 1e-3)
               for e in ens]
    elif shape < 0.24:    # every observation above its whole ensemble
        tag = "above"
        obs = [max(e) + abs(draw()) + (0.25 if kind in ("lattice", "coarse") else abs(scale) * 1e-3)
               for e in ens]
    elif shape < 0.32:    # constant ensembles
        tag = "const-ens"
        ens = [[e[0]] * m for e in ens]
    elif shape < 0.40:    # observation equal to a member (first, last or any)
        tag = "obs-on-member"
        for i in range(n):
            r = rng.random()
            obs[i] = min(ens[i]) if r < 0.3 else max(ens[i]) if r < 0.6 else rng.choice(ens[i])
    elif shape < 0.46:    # same forecast repeated, observation constant
        tag = "all-equal"
        ens = [list(ens[0]) for _ in range(n)]
        obs = [obs[0]] * n
    elif shape < 0.52:    # already sorted / reverse sorted members
        tag = "sorted"
        rev = rng.random() < 0.5
        ens = [sorted(e, reverse=rev) for e in ens]
    nanmode = rng.random()
    if nanmode < 0.22:
        tag += "+nanobs"
        k = rng.randint(1, max(1, n // 2))
        for _ in range(k):
            obs[rng.randrange(n)] = NAN
    elif nanmode < 0.26:
        tag += "+allnanobs"
        obs = [NAN] * n
    elif nanmode < 0.32:
        tag += "+nanrow"     # rows whose members are all missing are dropped too
        for _ in range(rng.randint(1, max(1, n // 3))):
            ens[rng.randrange(n)] = [NAN] * m
    # the documented input forms: obs as [n] or [n,1] array
    form = "column" if (n >= 2 and rng.random() < 0.15) else "flat"
    return {"obs": obs, "ens": ens, "tag": tag, "kind": kind, "obsform": form}


# ----------------------------------------------------------------------------
# implementation

def run_impl(obs, ens, form="flat", layout="C"):
    """public API; returns (decomposition[5], table rows) or None on ValueError.
    `layout`: memory layout of the ensemble array handed to crps (same values)."""
    from hydrodiy.stat import metrics
    o = np.array(obs, dtype=np.float64)
    if form == "column" and len(obs) >= 2:
        o = o.reshape(-1, 1)
    e = np.array(ens, dtype=np.float64).reshape(len(obs), -1)
    if layout == "F":                 # column-major (e.g. DataFrame.values of a float frame)
        e = np.asfortranarray(e)
    elif layout == "T":               # transposed view of a members x forecasts array
        e = np.ascontiguousarray(e.T).T
    elif layout == "strided":         # every other column of a wider array
        w = np.zeros((e.shape[0], 2 * e.shape[1]))
        w[:, ::2] = e
        e = w[:, ::2]
    elif layout == "frame":
        import pandas as pd
        e = pd.DataFrame(e)
    try:
        with np.errstate(all="ignore"):
            dec, tab = metrics.crps(o, e)
    except ValueError:
        return None
    # by position: the labels are tied to the positions by the theorem
    # C03_source_constants (labels re-extracted from the source)
    d = [float(x) for x in np.asarray(dec.values, dtype=np.float64)]
    t = [[float(x) for x in row] for row in np.asarray(tab.values, dtype=np.float64)]
    return d, t


def term(case, out):
    rows = "[" + "; ".join("(%s, %s)" % (cm.coq_float(y), cm.coq_flist(e))
                           for y, e in zip(case["obs"], case["ens"])) + "]"
    if out is None:
        exp = "None"
    else:
        exp = "(Some (%s, [%s]))" % (cm.coq_flist(out[0]),
                                     "; ".join(cm.coq_flist(r) for r in out[1]))
    return "{| cr_rows := %s; cr_expect := %s |}" % (rows, exp)


# ----------------------------------------------------------------------------
# independent oracle: exact rational arithmetic on the definition

def valid_rows(obs, ens):
    return [(y, e) for y, e in zip(obs, ens)
            if not math.isnan(y) and not all(math.isnan(x) for x in e)]


def exact_pairsum(xs):
    """sum_{i<k} |x_i - x_k| (exact) through the order statistics"""
    s = sorted(xs)
    m = len(s)
    return sum((2 * k - m + 1) * s[k] for k in range(m))


def exact_crps(rows):
    n = len(rows)
    tot = Fr(0)
    for y, e in rows:
        m = len(e)
        fy = Fr(y)
        fe = [Fr(x) for x in e]
        tot += sum(abs(x - fy) for x in fe) / m - exact_pairsum(fe) / (m * m)
    return tot / n


def exact_unc(rows):
    n = len(rows)
    return exact_pairsum([Fr(y) for y, _ in rows]) / (n * n)


def magnitude(rows):
    vals = [abs(y) for y, _ in rows] + [abs(x) for _, e in rows for x in e]
    return max(vals) if vals else 0.0


TOL = 1e-9


def oracle(rng, case, out):
    """Returns a list of (key, what).  Asserts what the property states:
    definition, the two identities, signs, uncertainty = climatological CRPS,
    the invariances, and that rows with a missing observation are ignored."""
    obs, ens = case["obs"], case["ens"]
    fails = []
    rows = valid_rows(obs, ens)
    if any(math.isnan(x) for _, e in rows for x in e):
        return fails          # partly missing ensemble: outside the quantifier
    if not rows:
        return fails          # no forecast left: the property says nothing
    S = magnitude(rows)
    if out is None:
        fails.append(("C03/crps/valid-input-rejected",
                      f"crps raised ValueError for {len(rows)} valid forecast(s)"))
        return fails
    if S > 1e100:
        return fails          # intermediate overflow: not the property's subject
    d = dict(zip(NAMES, out[0]))
    tol = TOL * S
    n, m = len(rows), len(rows[0][1])
    if any(math.isnan(v) or math.isinf(v) for v in out[0]):
        fails.append(("C03/crps/not-finite", f"decomposition {d} is not finite (n={n}, m={m})"))
        return fails
    want = float(exact_crps(rows))
    if abs(d["crps"] - want) > tol:
        fails.append(("C03/crps/definition",
                      f"crps={d['crps']!r} but mean(E|X-y| - 0.5 E|X-X'|)={want!r} (n={n}, m={m})"))
    wantu = float(exact_unc(rows))
    if abs(d["uncertainty"] - wantu) > tol:
        fails.append(("C03/crps/uncertainty-climatology",
                      f"uncertainty={d['uncertainty']!r} but the CRPS of the observed climatology "
                      f"is {wantu!r} (n={n})"))
    if abs(d["crps"] - (d["reliability"] + d["potential"])) > tol:
        fails.append(("C03/crps/identity-reliability-potential",
                      f"crps={d['crps']!r} != reliability+potential="
                      f"{d['reliability'] + d['potential']!r}"))
    if abs(d["resolution"] - (d["uncertainty"] - d["potential"])) > tol:
        fails.append(("C03/crps/identity-resolution",
                      f"resolution={d['resolution']!r} != uncertainty-potential="
                      f"{d['uncertainty'] - d['potential']!r}"))
    for k in ("reliability", "potential", "uncertainty"):
        if d[k] < 0:
            fails.append((f"C03/crps/negative-{k}",
                          f"{k}={d[k]!r} is negative (n={n}, m={m}, case {case.get('tag')})"))
    return fails


def variants(rng, case, out):
    """Metamorphic clauses, checked on the implementation.  Yields
    (key, what, obs2, ens2, expected decomposition, tolerance)."""
    obs, ens = case["obs"], case["ens"]
    rows = valid_rows(obs, ens)
    if out is None or not rows or any(math.isnan(x) for _, e in rows for x in e):
        return
    S = magnitude(rows)
    if S > 1e100 or any(math.isnan(v) or math.isinf(v) for v in out[0]):
        return
    d = out[0]
    n = len(obs)
    which = rng.randrange(5)
    if which == 0:
        ens2 = [rng.sample(e, len(e)) for e in ens]
        yield ("C03/crps/member-order", "changes when ensemble members are reordered",
               obs, ens2, d, TOL * S)
    elif which == 1:
        perm = rng.sample(range(n), n)
        yield ("C03/crps/forecast-order", "changes when forecasts are reordered",
               [obs[i] for i in perm], [ens[i] for i in perm], d, TOL * S)
    elif which == 2:
        c = rng.choice([1.0, -3.5, 1024.0, rng.gauss(0, 10) * max(S, 1e-300)])
        obs2 = [y + c for y in obs]
        ens2 = [[x + c for x in e] for e in ens]
        # the shifted inputs are rounded: |fl(x+c)-(x+c)| <= 2^-53 (S+|c|)
        yield ("C03/crps/shift", f"changes when {c!r} is added to observations and members",
               obs2, ens2, d, TOL * (S + abs(c)))
    elif which == 3:
        c = rng.choice([2.0, 0.125, 3.0, 1e-3, 7.3e4, 2.0 ** -40, 2.0 ** -60, 1e-13, 2.0 ** 30])
        if S * c > 1e100 or (S > 0 and S * c < 1e-200):
            return
        obs2 = [y * c for y in obs]
        ens2 = [[x * c for x in e] for e in ens]
        yield ("C03/crps/scale", f"is not multiplied by {c!r} when observations and members are",
               obs2, ens2, [v * c for v in d], TOL * S * c)
    else:
        # insert forecasts whose observation is missing
        obs2, ens2 = list(obs), [list(e) for e in ens]
        m = len(ens[0])
        for _ in range(rng.randint(1, 3)):
            k = rng.randint(0, len(obs2))
            obs2.insert(k, NAN)
            ens2.insert(k, [rng.gauss(0, 1) * (S or 1.0) for _ in range(m)])
        yield ("C03/crps/missing-observation", "changes when forecasts with a missing observation are added",
               obs2, ens2, d, TOL * S)


# ----------------------------------------------------------------------------

def signature(case, out):
    n, m = len(case["obs"]), len(case["ens"][0])
    ncl = 0 if n == 1 else 1 if n == 2 else 2 if n < 10 else 3
    mcl = m if m <= 3 else 4 if m <= 12 else 5
    return (case["tag"], case["kind"], ncl, mcl, out is None, case.get("obsform", "flat"))


def run(ctx):
    ctx.rule = ("cases from one PRNG: n in {1,2,3,9,11,21, 1..45 (160 thorough)} forecasts x m in {1,2,3, 1..12 "
                "(64 thorough)} members x values on a dyadic lattice / in {-1,-0,0,1} / Gaussian with scale "
                "1e-3..1e6 and offsets / log-normal / 1e150 (overflow) x shape: plain, every observation below "
                "or above its whole ensemble, constant ensembles, observation equal to a member, identical "
                "forecasts, pre-sorted members x NaN observations (some/all) and all-NaN member rows x observations "
                "passed as [n] or [n,1] array; "
                "non-trivial = distinct (shape+missing tag, value kind, n class, m class, error) signature")
    ctx.trusted = cm.STD_TRUST + [
        "glibc qsort and the model's insertion sort give the same value sequence on NaN-free data",
        "pow(x,2) == x*x in binary64 (gcc folding / glibc pow)"]
    ctx.tested_not_proved = [
        "binary64 results within 1e-9*max|value| of the exact rational definition, identities and "
        "invariances - tested on the implementation with an exact rational oracle",
        "sign of reliability/potential/uncertainty in binary64 (proved over the reals; tested strictly in binary64)",
        "Python wrapper glue (atleast_1d/astype/squeeze, Series/DataFrame labels read by name)"]
    proved = cm.prove_with_kernels(ctx, ["c_crps"])
    cm.use_impl()
    rng = ctx.rng
    ncases = ctx.scale(700, 9000)
    # a replay file given on the command line, then the corpus, then the recorded findings
    corpus = []
    rp = getattr(ctx, "replay", None)
    if rp:
        r = rp.get("replay", rp)
        r = r.get("first_mismatch", r) if isinstance(r, dict) else r
        if isinstance(r, dict) and "obs" in r and "ens" in r:
            corpus.append({"obs": [float(x) for x in r["obs"]],
                           "ens": [[float(x) for x in e] for e in r["ens"]], "tag": "replay"})
            if "obs2" in r and "ens2" in r:
                corpus.append({"obs": [float(x) for x in r["obs2"]],
                               "ens": [[float(x) for x in e] for e in r["ens2"]], "tag": "replay-variant",
                               "expected": r.get("expected2"), "tolerance": r.get("tolerance")})
    corpus += cm.load_corpus(PID)
    for k in cm.load_known():
        if k["property"] == PID and isinstance(k.get("replay"), dict) and "obs" in k["replay"]:
            corpus.append({"obs": k["replay"]["obs"], "ens": k["replay"]["ens"], "tag": "recorded-finding"})
    cases, outs, terms = [], [], []
    for i in range(len(corpus) + ncases):
        case = corpus[i] if i < len(corpus) else gen_case(rng, ctx.thorough)
        case.setdefault("tag", "corpus")
        case.setdefault("kind", "corpus")
        cm.mark({"call": "metrics.crps", "case": case})
        case.setdefault("layout", rng.choice(["C", "C", "F", "T", "strided", "frame"]))
        out = run_impl(case["obs"], case["ens"], case.get("obsform", "flat"), case["layout"])
        cases.append(case)
        outs.append(out)
        terms.append(term(case, out))
        ctx.count(signature(case, out))
        if i % 120 == 0:
            ctx.sample({"obs": case["obs"][:6], "ens": [e[:6] for e in case["ens"][:3]],
                        "tag": case["tag"], "decomposition": None if out is None else out[0]})
    bad, nshards, failed = cm.run_case_files(PID, HEADER, "crcase", "cr_ok", terms,
                                             shard=ctx.scale(90, 300), max_bytes=1200000)
    drift = []
    if bad and not failed:
        # second chance for the disagreeing cases only: equal up to 1e-11 relative
        # (a re-associated floating sum in the code is not a disagreement; it is counted)
        bad2, _, failed2 = cm.run_case_files(PID, HEADER, "crcase", "cr_ok_close",
                                             [terms[i] for i in bad], shard=90, max_bytes=1200000)
        if not failed2:
            still = {bad[j] for j in bad2}
            drift = [i for i in bad if i not in still]
            bad = sorted(still)
    ctx.notes["correspondence_cases"] = len(terms)
    ctx.notes["correspondence_mismatches"] = len(bad)
    ctx.notes["rounding_drift_cases"] = len(drift)
    ctx.notes["correspondence_compared"] = "5 decomposition values + 7*(m+1) table values, bit-exact (f_same); ValueError class"
    for k in range(nshards):
        ctx.obligation(f"Cases_{PID}_{k}.agree (model = implementation on the shard)", True)

    # oracle on every case + one metamorphic variant per case
    orc_fail = set()
    nvar = 0
    for i, (case, out) in enumerate(zip(cases, outs)):
        for key, what in oracle(rng, case, out):
            orc_fail.add(i)
            ctx.failure(key, {"obs": case["obs"], "ens": case["ens"],
                              "output": None if out is None else dict(zip(NAMES, out[0]))}, what)
        if case.get("expected") and case.get("tolerance") is not None:
            # replayed metamorphic variant: compare with the recorded expectation
            want = [case["expected"][k] for k in NAMES]
            if out is None or not all(abs(a - b) <= case["tolerance"] for a, b in zip(out[0], want)):
                orc_fail.add(i)
                ctx.failure("C03/crps/replayed-variant",
                            {"obs": case["obs"], "ens": case["ens"], "expected": case["expected"],
                             "output": None if out is None else dict(zip(NAMES, out[0]))},
                            "replayed variant still differs from the expected decomposition")
        for key, what, obs2, ens2, want, tol in variants(rng, case, out):
            nvar += 1
            cm.mark({"call": "metrics.crps", "obs": obs2, "ens": ens2})
            out2 = run_impl(obs2, ens2)
            ctx.count()
            ok = out2 is not None and all(
                (not math.isnan(a)) and abs(a - b) <= tol for a, b in zip(out2[0], want))
            if not ok:
                orc_fail.add(i)
                ctx.failure(key, {"obs": case["obs"], "ens": case["ens"], "obs2": obs2, "ens2": ens2,
                                  "output": dict(zip(NAMES, out[0])),
                                  "output2": None if out2 is None else dict(zip(NAMES, out2[0])),
                                  "expected2": dict(zip(NAMES, want)), "tolerance": tol},
                            f"the decomposition {what}")
    ctx.notes["oracle_cases"] = len(cases)
    ctx.notes["metamorphic_variants"] = nvar
    cm.settle(ctx, proved, bad, failed, orc_fail,
              lambda i: {"obs": cases[i]["obs"], "ens": cases[i]["ens"],
                         "impl_output": outs[i], "model": "Hy.Model.Crps.cr_ok"},
              "Model/Crps.v vs metrics.crps + c_crps.c")
    return ctx.finish()
