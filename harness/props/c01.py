"""C01 - every data transform is invertible on its domain.

proof      : coq/Props/C01.v (round-trip theorems over R for the 13 classes)
tie        : harness/extractors/c01.py -> coq/Gen/ConstsC01.v (EPS, Vector tables,
             numpy.isclose defaults); engine E3: the model evaluated by `interval`
             inside Coq at the implementation's inputs, compared with the
             implementation's outputs (forward, backward, backward_censored)
oracle     : numeric round trips on the implementation (relative 1e-6 inside the
             conditioning region of the property), shapes/types through dutils.cast;
             input class X (threshold exponents x extreme logarithms) and the stateful
             mode (one object, many settings) are oracle-only
"""
import math
import os

import numpy as np

from harness import common as cm
from harness.props import transform_common as tc

PID = "C01"

NVEC_QUICK = {"Identity": 2, "Logit": 7, "Log": 8, "BoxCox2": 10, "BoxCox1lam": 7, "BoxCox1nu": 7,
              "BoxCox2sym": 8, "YeoJohnson": 14, "LogSinh": 8, "Reciprocal": 7, "Sinh": 7, "Manly": 10}


def vec_k(name, opts, rng, k):
    return tc.param_vectors(name, opts, rng, k + 1)[k]


# ----------------------------------------------------------------------------
# oracle helpers (independent of the Coq model)

def x_scale(name, opts, vals, x):
    """magnitude against which the recovered x is compared (relative 1e-6)"""
    if name in ("Log", "BoxCox2", "BoxCox1lam", "BoxCox1nu", "BoxCox2sym", "Reciprocal", "Sinh"):
        return max(abs(x), abs(vals["nu"]))
    if name == "Logit":
        return max(abs(x), abs(vals["lower"]))
    if name == "YeoJohnson":
        # the closed forms work on 1 + |w|, w = nu + scale*x: accuracy is relative to 1 in w
        return max(abs(x), (abs(vals["nu"]) + 1.0) / vals["scale"])
    if name == "LogSinh":
        return max(abs(x), vals["xmax"] * math.exp(vals["loga"] - vals["logb"]))
    return abs(x)


def y_scale(name, opts, vals, y):
    if name in ("Identity", "Reciprocal"):
        return abs(y)
    if name == "LogSinh":
        return max(abs(y), math.exp(-vals["logb"]))
    if name == "Log":
        o = tc.full_opts(name, opts)
        bf = 1.0 if o["base"] is None else abs(math.log(o["base"]))
        return max(abs(y), 1.0 / bf)
    return max(abs(y), 1.0)


def rt_rtol(name, vals):
    """1e-6, widened where the closed form itself cancels: (z^lam - 1)/lam loses
    log10(1/|lam|) digits for EPS < |lam| < 1e-7 (DESIGN 5/C02 S, measured)"""
    r = 1e-6
    lams = []
    if "lam" in vals:
        lams.append(vals["lam"])
        if name == "YeoJohnson":
            lams.append(2 - vals["lam"])
    for lam in lams:
        if 0 < abs(lam) < 1e-7:
            r = max(r, 1e-6 + 8 * 2.0 ** -52 / abs(lam))
    return r


def in_accuracy_region(name, vals):
    """conditioning region of the property that concerns the parameters alone
    (the regions that concern x are enforced by transform_common.points)"""
    if name == "Manly":        # "|lam| >= 1e-3 or lam == 0 for Manly"
        return vals["lam"] == 0 or abs(vals["lam"]) >= 1e-3
    return True


def branch_sig(name, vals, x):
    s = []
    if "lam" in vals:
        lam = vals["lam"]
        e = tc.eps()
        if name == "YeoJohnson":
            s.append("lam~0" if abs(lam) <= 1e-8 else "lam~2" if abs(lam - 2) <= 2.001e-5 else
                     "lam<0" if lam < 0 else "lam>2" if lam > 2 else "lam")
            w = vals["nu"] + x * vals["scale"]
            s.append("w>=EPS" if w >= e else "w<EPS")
        else:
            s.append("lam=0" if lam == 0 else "|lam|<=EPS" if abs(lam) <= e else
                     "|lam|<1e-7" if abs(lam) < 1e-7 else "lam<0" if lam < 0 else "lam>0")
    s.append("x<0" if x < 0 else "x=0" if x == 0 else "x>0")
    return tuple(s)


# ----------------------------------------------------------------------------

def check_tables(ctx):
    """the extracted Vector tables describe the live objects (names, defaults,
    mins, maxs) for every class and constructor variant"""
    from hydrodiy.stat import transform as T
    ok = True
    for name in tc.CLASSES:
        for opts in tc.ctor_variants(name, ctx.rng):
            t = getattr(T, name)(**opts)
            b = tc.bounds(name, opts)
            live = {}
            for role, vec in (("params", t.params), ("constants", t.constants)):
                for i, n in enumerate(vec.names):
                    live[str(n)] = (role, float(vec.defaults[i]), float(vec.mins[i]), float(vec.maxs[i]))
            same = set(live) == set(b)
            if same:
                for n in b:
                    for a, c in zip(b[n][1:], live[n][1:]):
                        if not (a == c or (math.isnan(a) and math.isnan(c))):
                            same = False
                    same = same and b[n][0] == live[n][0]
            if not same:
                ok = False
                ctx.failure("C01/tables/extracted-differs-from-live",
                            {"class": name, "opts": opts, "extracted": b, "live": live},
                            f"{name}{opts}: Vector table extracted from the source differs from "
                            f"the live object", nofail=True)
            ctx.count(("tables", name, tuple(sorted(opts))))
    ctx.obligation("extracted Vector tables = live parameter/constant vectors", ok)


def run(ctx):
    ctx.rule = ("13 classes x constructor-option variants x parameter vectors (bounds, defaults, exact "
                "branch values lam=0, |lam|=EPS and one ulp either side, isclose thresholds of "
                "Yeo-Johnson, log-uniform magnitudes 1e-12..10) x domain points inside the conditioning "
                "region of the property; methods forward, backward, backward_censored through the "
                "public API (direct construction and get_transform); oracle only: class X = exponents at "
                "and either side of every threshold of the module (EPS, 1e-8, 1e-8+2e-5; 0 and 2) x "
                "arguments with x+nu resp. 1+|w| in 1e-100..1e100 inside |lam*ln| <= 13.8; stateful = "
                "one object per class and constructor variant taken through a sequence of settings "
                "(element assignment by attribute / key / key on .params, whole-vector assignment, "
                "reset()) with round trips and comparison with a fresh object after each step; "
                "non-trivial = distinct "
                "(class, method, parameter branch, sign of x, NaN/exception expected) signature")
    ctx.trusted = cm.STD_TRUST + [
        "no binary64 instance for transcendental closed forms: engine E3 evaluates the real-number "
        "model at the implementation's inputs with the `interval` tactic (CoqInterval; primitive "
        "integer computation in the kernel) and compares with the implementation's output under an "
        "a priori forward-error bound of the float algorithm (harness/props/transform_common.py: amp)",
        "numpy.isclose tolerances are read from the installed numpy",
    ]
    ctx.tested_not_proved = [
        "floating-point accuracy of the round trips (relative 1e-6 in the conditioning region) - "
        "tested on the implementation",
        "dutils.cast glue (scalar / n-d inputs), get_transform, Vector clipping of stored values",
        "independence of the results from the history of one object (parameters changed in place, by "
        "whole-vector assignment, reset()): tested (stateful mode), the model is a pure function of "
        "the stored values",
        "Yeo-Johnson in the band 0 < w < 1e3*EPS above the forward/backward switch (exact "
        "invertibility is false there; DESIGN 5/C01 G)",
    ]
    ctx.checker_cmd = (f"cd /verif && ./check {PID} --tier {ctx.tier}  (make -C coq Props/{PID}.vo "
                       f"Proofs/TransformTac.vo; coqc on the generated E3_{PID}_*.v: one "
                       "`Goal close_R (model args x) y_impl tol. Proof. tr_solve. Qed.` per evaluation)")
    import time
    t0 = time.time()
    proved = cm.prove(ctx, extractors=["c01", "pygen"], extra_targets=["Proofs/TransformTac.vo", "Props/PyTie.vo"])
    t_prove = time.time() - t0
    cm.use_impl()
    from hydrodiy.stat import transform as T   # noqa: F401
    rng = ctx.rng
    check_tables(ctx)

    goals, meta = [], []          # meta[i]: replay description of goal i
    orc_fail = set()              # goal indices on which the oracle found a failure

    def add_goal(g, m):
        goals.append(g)
        meta.append(m)
        return len(goals) - 1

    npts = ctx.scale(4, 6)
    # work list: corpus first (earlier failures: corpus/C01/*.json, {"case": {class, opts,
    # vals, xs}}), then the generated instances
    work = []
    for c in cm.load_corpus(PID):
        if c.get("class") in tc.CLASSES and c.get("class") != "Softmax":
            work.append((c["class"], dict(c.get("opts", {})), dict(c["vals"]), False, 0,
                         [float(v) for v in c["xs"]]))
    for name in tc.CLASSES:
        if name == "Softmax":
            continue
        variants = tc.ctor_variants(name, rng)
        nvec = ctx.scale(NVEC_QUICK[name], 5 * NVEC_QUICK[name] + 10)
        for k in range(nvec):
            opts = variants[k % len(variants)]
            work.append((name, opts, vec_k(name, opts, rng, k), k % 2 == 1, k, None))
    if True:
        for name, opts, vals, via_get, k, xs0 in work:
            cm.mark({"call": "transform", "class": name, "opts": opts, "vals": vals})
            t, eff = tc.make(name, opts, vals, via_get)
            xs = xs0 if xs0 is not None else tc.points(name, opts, eff, rng, npts)
            if not xs:
                continue
            base = {"class": name, "opts": opts, "values": eff, "via_get_transform": via_get}
            ys, err = tc.call(t, "fwd", xs)
            rtol = rt_rtol(name, eff)
            for j, x in enumerate(xs):
                y = None if ys is None else ys[j]
                sig = branch_sig(name, eff, x)
                rep = dict(base, method="forward", x=x, output=y, exception=err)
                if y is None or math.isnan(y):
                    gi = add_goal(tc.goal_scalar(name, "fwd", opts, eff, x, None, 0.0), rep)
                    ctx.count((name, "fwd", sig, "nan"))
                    orc_fail.add(gi)
                    mode = "forward-raises" if y is None else "forward-nan-in-domain"
                    ctx.failure(f"C01/{name}/{mode}", rep,
                                f"{name}{opts} {eff}: forward({x!r}) "
                                f"{'raised ' + str(err) if y is None else 'is NaN'} inside the domain")
                    continue
                tol = tc.tolerance(name, "fwd", opts, eff, x, y)
                if tol is not None and math.isfinite(y):
                    add_goal(tc.goal_scalar(name, "fwd", opts, eff, x, y, tol), rep)
                    ctx.count((name, "fwd", sig))
            # backward on the image
            yfin = [(j, y) for j, y in enumerate(ys or []) if math.isfinite(y)]
            if yfin:
                bs, berr = tc.call(t, "bwd", [y for _, y in yfin])
                for q, (j, y) in enumerate(yfin):
                    x = xs[j]
                    b = None if bs is None else bs[q]
                    sig = branch_sig(name, eff, x)
                    rep = dict(base, method="backward", x=x, y=y, output=b, exception=berr)
                    if b is None or math.isnan(b):
                        gi = add_goal(tc.goal_scalar(name, "bwd", opts, eff, y, None, 0.0), rep)
                        ctx.count((name, "bwd", sig, "nan"))
                        orc_fail.add(gi)
                        mode = "backward-raises" if b is None else "backward-nan-on-image"
                        ctx.failure(f"C01/{name}/{mode}", rep,
                                    f"{name}{opts} {eff}: backward(forward({x!r})) "
                                    f"{'raised ' + str(berr) if b is None else 'is NaN'}")
                        continue
                    tol = tc.tolerance(name, "bwd", opts, eff, y, b)
                    gi = None
                    if tol is not None and math.isfinite(b):
                        gi = add_goal(tc.goal_scalar(name, "bwd", opts, eff, y, b, tol), rep)
                        ctx.count((name, "bwd", sig))
                    if not in_accuracy_region(name, eff):
                        continue
                    # oracle: backward(forward(x)) = x
                    if not abs(b - x) <= rtol * x_scale(name, opts, eff, x):
                        if gi is not None:
                            orc_fail.add(gi)
                        ctx.failure(f"C01/{name}/roundtrip-backward-forward", rep,
                                    f"{name}{opts} {eff}: backward(forward({x!r})) = {b!r}")
                    # oracle: forward(backward(y)) = y
                    if math.isfinite(b):
                        f2, _ = tc.call(t, "fwd", [b])
                        y2 = None if f2 is None else f2[0]
                        if y2 is None or not abs(y2 - y) <= rtol * y_scale(name, opts, eff, y):
                            ctx.failure(f"C01/{name}/roundtrip-forward-backward",
                                        dict(base, method="forward(backward(y))", y=y, x=b, output=y2),
                                        f"{name}{opts} {eff}: forward(backward({y!r})) = {y2!r}")
                        ctx.count()
            # explicit np.where guards of forward outside the domain (NaN expected)
            for method, xg in tc.guard_points(name, opts, eff, rng):
                if method != "fwd" or not math.isfinite(xg):
                    continue
                out, gerr = tc.call(t, "fwd", [xg])
                o = None if out is None or math.isnan(out[0]) else out[0]
                tol = 0.0 if o is None else (tc.tolerance(name, "fwd", opts, eff, xg, o) or 0.0)
                add_goal(tc.goal_scalar(name, "fwd", opts, eff, xg, o, tol),
                         dict(base, method="forward (outside the domain)", x=xg, output=o, exception=gerr))
                ctx.count((name, "fwd", "guard"))
            # backward_censored (1-D y, scalar censor); cast glue of YeoJohnson's scalar
            # forward is not modelled
            # (BoxCox2sym: the nested term is the costliest of all for `interval`; the
            # base-class method is exercised through the other eleven classes)
            if name not in ("YeoJohnson", "BoxCox2sym") and yfin and k % 2 == 0:
                # censor values inside the domain of forward (the model's forward is only
                # meaningful there: NaN from log of a negative number is not modelled)
                censors = [xs[0], xs[min(1, len(xs) - 1)]]
                for ci, censor in enumerate(censors):
                    j, y = yfin[(k // 2 + ci) % len(yfin)]
                    try:
                        with np.errstate(all="ignore"):
                            out = float(np.asarray(t.backward_censored(np.array([y]), censor)).ravel()[0])
                        cerr = None
                    except Exception as e:      # noqa: BLE001
                        out, cerr = None, type(e).__name__
                    rep = dict(base, method="backward_censored", y=y, censor=censor, output=out,
                               exception=cerr)
                    if cerr is not None:
                        ctx.failure(f"C01/{name}/backward_censored-raises", rep,
                                    f"{name}{opts} {eff}: backward_censored([{y!r}], {censor!r}) raised {cerr}")
                        continue
                    o = None if math.isnan(out) else out
                    # tolerance: forward-error bound of backward at the argument actually used,
                    # yc = max(y, forward(censor)); when the censor is active the exact value is
                    # censor itself and the implementation returns max(backward(forward(censor)),
                    # censor): allow the round-trip error there
                    tcen, _ = tc.call(t, "fwd", [censor])
                    if tcen is None or not math.isfinite(tcen[0]):
                        continue
                    if o is None:       # NaN although y is on the image and censor in the domain
                        add_goal(tc.goal_censored(name, opts, eff, censor, y, None, 0.0), rep)
                        ctx.count((name, "censored", "nan"))
                        continue
                    yc = max(y, tcen[0])
                    tb = tc.tolerance(name, "bwd", opts, eff, yc, out)
                    if tb is None:
                        continue
                    tol = 4 * tb + 1e-9 * max(1.0, abs(out))
                    if y <= tcen[0] + 1e-6 * max(1.0, abs(tcen[0])):
                        tol += 2 * rtol * x_scale(name, opts, eff, censor)
                    add_goal(tc.goal_censored(name, opts, eff, censor, y, o, tol), rep)
                    ctx.count((name, "censored", "nan" if o is None else
                               "censor-active" if o == censor else "plain"))
            if k % 5 == 0:
                ctx.sample({"class": name, "opts": opts, "values": eff, "x": xs[:3],
                            "forward": None if ys is None else ys[:3]})

    # ---- Softmax (2-D rows)
    from hydrodiy.stat import transform as T
    sm = T.Softmax()
    nmat = ctx.scale(10, 60)
    e = tc.eps()
    for k in range(nmat):
        nrows = [1, 2, 3][k % 3]
        ncols = [1, 2, 3, 5][k % 4]
        rows = tc.softmax_rows(rng, nrows, ncols)
        kind = "ok"
        if k % 5 == 3:
            rows[-1][0] = -abs(rows[-1][0]) - 1e-3
            kind = "negative-entry"
        elif k % 5 == 4:
            s = sum(rows[0])
            rows[0] = [v / s * (1 - e / 4) for v in rows[0]]
            kind = "sum>1-EPS"
        elif k == 0:
            rows, nrows, ncols = [[0.25, 0.25]], 1, 2
        cm.mark({"call": "Softmax", "rows": rows})
        ys, err = tc.call(sm, "fwd", rows)
        rep = {"class": "Softmax", "method": "forward", "rows": rows, "output": ys, "exception": err,
               "kind": kind}
        ctx.count(("Softmax", "fwd", kind, nrows, ncols))
        if ys is None:
            add_goal(f"close_optlist (oflat (softmax_fwd {tc.hxll(rows)})) None []", rep)
            if kind == "ok":
                ctx.failure("C01/Softmax/forward-raises", rep, f"Softmax.forward raised {err} in the domain")
            continue
        if kind != "ok":
            add_goal(f"close_optlist (oflat (softmax_fwd {tc.hxll(rows)})) (Some {tc.hxl(ys)}) "
                     f"{tc.hxl([0.0] * len(ys))}", rep)
            ctx.failure(f"C01/Softmax/accepts-{kind}", rep, f"Softmax.forward accepted a row with {kind}")
            continue
        flat = [v for r in rows for v in r]
        tols = []
        for r in rows:
            sx = sum(r)
            for v in r:
                yv = math.log(v / (1 - sx))
                tols.append(1e-10 * max(1.0, abs(yv)) + 16 * tc.U * (len(r) / (1 - sx) + abs(yv) + 2))
        add_goal(f"close_optlist (oflat (softmax_fwd {tc.hxll(rows)})) (Some {tc.hxl(ys)}) {tc.hxl(tols)}",
                 rep)
        yrows = [ys[i * ncols:(i + 1) * ncols] for i in range(nrows)]
        bs, berr = tc.call(sm, "bwd", yrows)
        rep2 = {"class": "Softmax", "method": "backward", "rows": yrows, "output": bs, "exception": berr}
        if bs is None:
            ctx.failure("C01/Softmax/backward-raises", rep2, f"Softmax.backward raised {berr}")
            continue
        btol = [1e-10 + 16 * tc.U * (2 + abs(y)) * max(b, 1e-300) * (ncols + 2) for y, b in zip(ys, bs)]
        add_goal(f"close_list (concat (softmax_bwd {tc.hxll(yrows)})) {tc.hxl(bs)} {tc.hxl(btol)}", rep2)
        ctx.count(("Softmax", "bwd", nrows, ncols))
        for v, b in zip(flat, bs):
            # 1 - sum(x) is formed by subtraction: relative accuracy of 1e-6 needs 1 - sum >= ~1e-9
            if not abs(b - v) <= 1e-6 * abs(v):
                ctx.failure("C01/Softmax/roundtrip-backward-forward", rep2,
                            f"Softmax: backward(forward(x)) entry {b!r} != {v!r}")
                break
        if k % 4 == 0:
            ctx.sample({"class": "Softmax", "rows": rows, "forward": yrows})

    # ---- shapes / scalar types through dutils.cast (float scalars, n-d arrays)
    shape_checks(ctx)

    # ---- oracle-only input classes (after everything that feeds E3: the random stream of
    # the instances above does not depend on them)
    t2 = time.time()
    extreme_checks(ctx)
    stateful_checks(ctx)
    t_extra = time.time() - t2

    # ---- E3
    t1 = time.time()
    bad, nok, nshards, failed = tc.run_e3(PID, goals, shard=ctx.scale(40, 60))
    ctx.notes["timing_s"] = {"prove": round(t_prove, 1), "generate+oracle": round(t1 - t0 - t_prove, 1),
                             "e3": round(time.time() - t1, 1),
                             "classX+stateful": round(t_extra, 1)}
    ctx.notes["correspondence_goals"] = len(goals)
    ctx.notes["correspondence_mismatches"] = len(bad)
    ctx.notes["e3_shards"] = nshards
    for kk in range(nok):
        ctx.obligation(f"E3 shard {kk}: every goal closed by interval + Qed", True)
    for kk in range(nshards - nok):
        ctx.obligation(f"E3 shard (failing) {kk}", False)
    if bad and proved:
        ctx.notes["first_mismatch"] = meta[bad[0]]
    if os.environ.get("HYVERIF_E3_DUMP"):      # debugging aid: goals, replay data, mismatches
        import json
        with open(os.environ["HYVERIF_E3_DUMP"], "w") as fh:
            json.dump({"goals": goals, "meta": meta, "bad": bad,
                       "failed": failed}, fh, indent=1, default=str)
    cm.settle(ctx, proved, bad, failed, orc_fail,
              lambda i: {"case": meta[i], "goal": goals[i], "model": "Hy.Model.Transform (tr_solve)"},
              "Model/Transform.v vs stat/transform.py (E3: forward, backward, backward_censored)")
    return ctx.finish()


def roundtrip_failures(t, name, opts, eff, xs):
    """the round-trip oracle of the main loop on a list of in-region points:
    [(failure mode, replay fields, text)]"""
    out = []
    rtol = rt_rtol(name, eff)
    ys, err = tc.call(t, "fwd", xs)
    if ys is None:
        return [("forward-raises", {"method": "forward", "x": xs, "exception": err},
                 f"forward({xs!r}) raised {err} inside the domain")]
    fin = []
    for x, y in zip(xs, ys):
        if math.isnan(y):
            out.append(("forward-nan-in-domain", {"method": "forward", "x": x, "output": y},
                        f"forward({x!r}) is NaN inside the domain"))
        elif math.isfinite(y):
            fin.append((x, y))
    if not fin:
        return out
    bs, berr = tc.call(t, "bwd", [y for _, y in fin])
    if bs is None:
        out.append(("backward-raises", {"method": "backward", "y": [y for _, y in fin], "exception": berr},
                    f"backward(forward({[x for x, _ in fin]!r})) raised {berr}"))
        return out
    again = []
    for (x, y), b in zip(fin, bs):
        if math.isnan(b):
            out.append(("backward-nan-on-image", {"method": "backward", "x": x, "y": y, "output": b},
                        f"backward(forward({x!r})) is NaN"))
            continue
        if not in_accuracy_region(name, eff):
            continue
        if not abs(b - x) <= rtol * x_scale(name, opts, eff, x):
            out.append(("roundtrip-backward-forward", {"method": "backward", "x": x, "y": y, "output": b},
                        f"backward(forward({x!r})) = {b!r}"))
        if math.isfinite(b):
            again.append((y, b))
    if again:
        f2, _ = tc.call(t, "fwd", [b for _, b in again])
        for q, (y, b) in enumerate(again):
            y2 = None if f2 is None else f2[q]
            if y2 is None or not abs(y2 - y) <= rtol * y_scale(name, opts, eff, y):
                out.append(("roundtrip-forward-backward",
                            {"method": "forward(backward(y))", "y": y, "x": b, "output": y2},
                            f"forward(backward({y!r})) = {y2!r}"))
    return out


def extreme_checks(ctx):
    """input class X (transform_common): threshold exponents x extreme logarithms,
    same oracle, same keys as the main loop"""
    n = 0
    for name in ("Log", "BoxCox2", "BoxCox1lam", "BoxCox1nu", "BoxCox2sym", "YeoJohnson"):
        cm.mark({"call": "transform (class X)", "class": name})
        for k, (opts, vals) in enumerate(tc.extreme_vectors(name)):
            via_get = k % 8 == 3          # (get_transform inspects the signature: slow)
            t, eff = tc.make(name, opts, vals, via_get)
            xs = tc.extreme_points(name, opts, eff)
            if not xs:
                continue
            base = {"class": name, "opts": opts, "values": eff, "via_get_transform": via_get,
                    "input_class": "threshold exponent x extreme logarithm"}
            for mode, rep, text in roundtrip_failures(t, name, opts, eff, xs):
                ctx.failure(f"C01/{name}/{mode}", dict(base, **rep), f"{name}{opts} {eff}: {text}")
            for x in xs:
                ctx.count((name, "X") + branch_sig(name, eff, x))
            n += len(xs)
    ctx.notes["classX_points"] = n


def _same(a, b, scale):
    """bit-identical, or within 1e-9 of the scale (a thousandth of the property's
    tolerance: a last-bit difference must not alarm, a stale value does)"""
    if a is None or b is None:
        return a is None and b is None
    if a == b or (math.isnan(a) and math.isnan(b)):
        return True
    return abs(a - b) <= 1e-9 * scale


def stateful_checks(ctx):
    """one object, a sequence of settings: after every change the object must be the
    transform of its CURRENT stored values - round trips hold, and forward/backward
    equal those of a freshly constructed object holding the same values"""
    rng = ctx.rng
    nsteps = ctx.scale(12, 40)
    nobj = 0
    for name in tc.CLASSES:
        variants = tc.ctor_variants(name, rng)
        if not tc.bounds(name, variants[0]):      # Identity, Softmax: nothing to set
            continue
        for vi, opts in enumerate(variants):
            first, steps = tc.stateful_plan(name, opts, rng, nsteps)
            cm.mark({"call": "transform (stateful)", "class": name, "opts": opts, "first": first,
                     "steps": steps})
            t, _ = tc.make(name, opts, first, via_get=vi % 2 == 1)
            history = [("construct", first)]
            nobj += 1
            for si in range(len(steps) + 1):
                if si:
                    style, changes = steps[si - 1]
                    history.append((style, changes))
                    try:
                        tc.apply_step(t, style, changes)
                    except Exception as e:      # noqa: BLE001
                        ctx.failure(f"C01/{name}/stateful-set-raises",
                                    {"class": name, "opts": opts, "history": history, "exception": repr(e)},
                                    f"{name}{opts}: {style} {changes} raised {type(e).__name__}")
                        break
                else:
                    style = "construct"
                eff = tc.stored_values(t)
                if any(math.isnan(v) for v in eff.values()):
                    continue
                base = {"class": name, "opts": opts, "history": list(history), "values": eff,
                        "input_class": "stateful: one object, parameters changed between calls"}
                fresh, eff2 = tc.make(name, opts, eff)
                if eff2 != eff:           # cannot happen for values inside the bounds; not C01's matter
                    ctx.notes["stateful_fresh_object_differs"] = ctx.notes.get("stateful_fresh_object_differs", 0) + 1
                    continue
                xs = tc.points(name, opts, eff, rng, 4)
                if name == "BoxCox2sym" and xs:      # |x| of the order of nu, both signs
                    L = tc._lnz_limit(eff["lam"])
                    xs += [s * c * eff["nu"] for c in (0.01, 0.5, 2.0) for s in (1, -1)
                           if abs(math.log((c + 1) * eff["nu"])) <= L]
                cmp_xs = xs or [0.25, 1.0, 5.0]
                # (1) same results as a fresh object with the same stored values
                yr, er = tc.call(t, "fwd", cmp_xs)
                yf, ef = tc.call(fresh, "fwd", cmp_xs)
                diff = None
                if (yr is None) != (yf is None) or er != ef:
                    diff = ("forward", cmp_xs, yr or er, yf or ef)
                elif yr is not None:
                    for x, a, b in zip(cmp_xs, yr, yf):
                        if not _same(a, b, y_scale(name, opts, eff, b) if math.isfinite(b) else 1.0):
                            diff = ("forward", x, a, b)
                            break
                    if diff is None:
                        yb = [b for b in yf if math.isfinite(b)]
                        br, ebr = tc.call(t, "bwd", yb) if yb else ([], None)
                        bf, ebf = tc.call(fresh, "bwd", yb) if yb else ([], None)
                        if (br is None) != (bf is None) or ebr != ebf:
                            diff = ("backward", yb, br or ebr, bf or ebf)
                        elif br is not None:
                            for y, a, b in zip(yb, br, bf):
                                if not _same(a, b, x_scale(name, opts, eff, b) if math.isfinite(b) else 1.0):
                                    diff = ("backward", y, a, b)
                                    break
                if diff is not None:
                    meth, arg, got, want = diff
                    ctx.failure(f"C01/{name}/stateful-{meth}-differs-from-fresh-object",
                                dict(base, method=meth, argument=arg, output=got, fresh_object_output=want),
                                f"{name}{opts} after {len(history) - 1} change(s) on one object (last: {history[-1]}) holding "
                                f"{eff}: {meth}({arg!r}) = {got!r}, a fresh object with the same values "
                                f"gives {want!r}")
                # (2) round trips on the reused object; a failure that the fresh object shows
                # too is not a matter of state: ordinary key
                if xs:
                    fails = roundtrip_failures(t, name, opts, eff, xs)
                    if fails:
                        stateless = {m for m, _, _ in roundtrip_failures(fresh, name, opts, eff, xs)}
                        for mode, rep, text in fails:
                            key = f"C01/{name}/{mode}" if mode in stateless else f"C01/{name}/stateful-{mode}"
                            ctx.failure(key, dict(base, **rep),
                                        f"{name}{opts} after {len(history) - 1} change(s) on one object (last: {history[-1]}) "
                                        f"holding {eff}: {text}")
                ctx.count((name, "stateful", style, len(history) > 1), n=len(cmp_xs))
    ctx.notes["stateful_objects"] = nobj


def shape_checks(ctx):
    """public methods return the input's type/shape and the element-wise values"""
    from hydrodiy.stat import transform as T
    rng = ctx.rng
    for name in tc.CLASSES:
        if name == "Softmax":
            continue
        opts = {}
        vals = vec_k(name, opts, rng, 6)
        t, eff = tc.make(name, opts, vals)
        xs = tc.points(name, opts, eff, rng, 6)
        if len(xs) < 6:
            continue
        ref, _ = tc.call(t, "fwd", xs)
        if ref is None:
            continue
        rep = {"class": name, "values": eff, "x": xs}
        try:
            with np.errstate(all="ignore"):
                y2 = t.forward(np.array(xs).reshape(2, 3))
                ok = isinstance(y2, np.ndarray) and y2.shape == (2, 3) and \
                    np.allclose(y2.ravel(), ref, rtol=1e-12, atol=0, equal_nan=True)
                if not ok:
                    ctx.failure(f"C01/{name}/cast-2d", rep, f"{name}.forward of a 2-D array is not "
                                "the element-wise forward with the input's shape")
                b2 = t.backward(y2)
                if not (isinstance(b2, np.ndarray) and b2.shape == (2, 3)):
                    ctx.failure(f"C01/{name}/cast-2d", rep, f"{name}.backward loses the 2-D shape")
                if name != "YeoJohnson":     # _forward of YeoJohnson works on atleast_1d copies
                    ys = t.forward(float(xs[1]))
                    if not (isinstance(ys, float) and (ys == ref[1] or abs(ys - ref[1]) <= 1e-12 * abs(ref[1]))):
                        ctx.failure(f"C01/{name}/cast-scalar", rep,
                                    f"{name}.forward(float) = {ys!r}, element-wise value {ref[1]!r}")
        except Exception as e:      # noqa: BLE001
            ctx.failure(f"C01/{name}/cast-raises", dict(rep, exception=repr(e)),
                        f"{name}: forward/backward of a 2-D float64 array or a float raised {type(e).__name__}")
        ctx.count((name, "cast"))
