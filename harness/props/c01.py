"""C01 - every data transform is invertible on its domain.

proof      : coq/Props/C01.v (round-trip theorems over R for the 13 classes)
tie        : harness/extractors/c01.py -> coq/Gen/ConstsC01.v (EPS, Vector tables,
             numpy.isclose defaults); engine E3: the model evaluated by `interval`
             inside Coq at the implementation's inputs, compared with the
             implementation's outputs (forward, backward, backward_censored)
oracle     : numeric round trips on the implementation (relative 1e-6 inside the
             conditioning region of the property), shapes/types through dutils.cast;
             input class X (threshold exponents x extreme logarithms), class E (ends of
             the conditioning region of the other classes), class F (every class at the far ends of
             the region in which an exact 50-digit reference says the round trip is representable
             and well conditioned: internal arguments of 1e-300 .. 1e300, either side of every
             overflow / absorption limit of exp, parameters and constants at the far ends of their
             bounds; long and 2-D arrays), the stateful mode (one object,
             many settings), the censored lives (backward_censored on re-used objects with
             recurring censor values, censors outside / at the end of the domain) and the
             sessions (several live objects, interleaved calls, reused array objects, stored
             representations of the float64 input) are oracle-only
"""
import decimal
import math
import os
from decimal import Decimal as D
from fractions import Fraction

import numpy as np

from harness import common as cm
from harness.props import transform_common as tc

PID = "C01"

NVEC_QUICK = {"Identity": 2, "Logit": 7, "Log": 8, "BoxCox2": 10, "BoxCox1lam": 7, "BoxCox1nu": 7,
              "BoxCox2sym": 8, "YeoJohnson": 14, "LogSinh": 8, "Reciprocal": 7, "Sinh": 7, "Manly": 10}


def vec_k(name, opts, rng, k):
    return tc.param_vectors(name, opts, rng, k + 1)[k]


# ----------------------------------------------------------------------------
# oracle helpers (independent of the Coq model)

def x_scale(name, opts, vals, x):
    """magnitude against which the recovered x is compared (relative 1e-6)"""
    if name in ("Log", "BoxCox2", "BoxCox1lam", "BoxCox1nu", "BoxCox2sym", "Reciprocal", "Sinh"):
        return max(abs(x), abs(vals["nu"]))
    if name == "Logit":
        return max(abs(x), abs(vals["lower"]))
    if name == "YeoJohnson":
        # the closed forms work on 1 + |w|, w = nu + scale*x: accuracy is relative to 1 in w
        return max(abs(x), (abs(vals["nu"]) + 1.0) / vals["scale"])
    if name == "LogSinh":
        return max(abs(x), vals["xmax"] * math.exp(vals["loga"] - vals["logb"]))
    return abs(x)


def y_scale(name, opts, vals, y):
    if name in ("Identity", "Reciprocal"):
        return abs(y)
    if name == "LogSinh":
        return max(abs(y), math.exp(-vals["logb"]))
    if name == "Log":
        o = tc.full_opts(name, opts)
        bf = 1.0 if o["base"] is None else abs(math.log(o["base"]))
        return max(abs(y), 1.0 / bf)
    return max(abs(y), 1.0)


def rt_rtol(name, vals):
    """1e-6, widened where the closed form itself cancels: (z^lam - 1)/lam loses
    log10(1/|lam|) digits for EPS < |lam| < 1e-7 (DESIGN 5/C02 S, measured)"""
    r = 1e-6
    lams = []
    if "lam" in vals:
        lams.append(vals["lam"])
        if name == "YeoJohnson":
            lams.append(2 - vals["lam"])
    for lam in lams:
        if 0 < abs(lam) < 1e-7:
            r = max(r, 1e-6 + 8 * 2.0 ** -52 / abs(lam))
    return r


def in_accuracy_region(name, vals):
    """conditioning region of the property that concerns the parameters alone
    (the regions that concern x are enforced by transform_common.points)"""
    if name == "Manly":        # "|lam| >= 1e-3 or lam == 0 for Manly"
        return vals["lam"] == 0 or abs(vals["lam"]) >= 1e-3
    return True


def branch_sig(name, vals, x):
    s = []
    if "lam" in vals:
        lam = vals["lam"]
        e = tc.eps()
        if name == "YeoJohnson":
            s.append("lam~0" if abs(lam) <= 1e-8 else "lam~2" if abs(lam - 2) <= 2.001e-5 else
                     "lam<0" if lam < 0 else "lam>2" if lam > 2 else "lam")
            w = vals["nu"] + x * vals["scale"]
            s.append("w>=EPS" if w >= e else "w<EPS")
        else:
            s.append("lam=0" if lam == 0 else "|lam|<=EPS" if abs(lam) <= e else
                     "|lam|<1e-7" if abs(lam) < 1e-7 else "lam<0" if lam < 0 else "lam>0")
    s.append("x<0" if x < 0 else "x=0" if x == 0 else "x>0")
    return tuple(s)


# ----------------------------------------------------------------------------

def check_tables(ctx):
    """the extracted Vector tables describe the live objects (names, defaults,
    mins, maxs) for every class and constructor variant"""
    from hydrodiy.stat import transform as T
    ok = True
    for name in tc.CLASSES:
        for opts in tc.ctor_variants(name, ctx.rng):
            t = getattr(T, name)(**opts)
            b = tc.bounds(name, opts)
            live = {}
            for role, vec in (("params", t.params), ("constants", t.constants)):
                for i, n in enumerate(vec.names):
                    live[str(n)] = (role, float(vec.defaults[i]), float(vec.mins[i]), float(vec.maxs[i]))
            same = set(live) == set(b)
            if same:
                for n in b:
                    for a, c in zip(b[n][1:], live[n][1:]):
                        if not (a == c or (math.isnan(a) and math.isnan(c))):
                            same = False
                    same = same and b[n][0] == live[n][0]
            if not same:
                ok = False
                ctx.failure("C01/tables/extracted-differs-from-live",
                            {"class": name, "opts": opts, "extracted": b, "live": live},
                            f"{name}{opts}: Vector table extracted from the source differs from "
                            f"the live object", nofail=True)
            ctx.count(("tables", name, tuple(sorted(opts))))
    ctx.obligation("extracted Vector tables = live parameter/constant vectors", ok)


def run(ctx):
    ctx.rule = ("13 classes x constructor-option variants x parameter vectors (bounds, defaults, exact "
                "branch values lam=0, |lam|=EPS and one ulp either side, isclose thresholds of "
                "Yeo-Johnson, log-uniform magnitudes 1e-12..10) x domain points inside the conditioning "
                "region of the property; methods forward, backward, backward_censored through the "
                "public API (direct construction and get_transform); oracle only: class X = exponents at "
                "and either side of every threshold of the module (EPS, 1e-8, 1e-8+2e-5; 0 and 2) x "
                "arguments with x+nu resp. 1+|w| in 1e-100..1e100 inside |lam*ln| <= 13.8; class E = the "
                "other classes at the ends of the ranges of the point generator (Logit within 1e-4 of a "
                "bound, LogSinh w = 1e-4 and 30, arguments of 1e-6 / 1e6, Manly at |lam*u| = 13.8); class F = "
                "every class with its internal argument (x+nu, 1+|w|, a+b*x/xmax, (x-nu)*scale, lam*x/xmax, "
                "(x-lower)/delta, Softmax entries and 1-sum) from 1e-300 to 1e300 through every magnitude at "
                "which exp / sinh / a square overflows, vanishes or is absorbed (18.4, 37, 88.7, 355, 373, 709.8, "
                "745; 9.5e7, 1.3e154), at the end |lam*ln| = 13.8 of the stated region and log-uniform at random, x "
                "nu / xmax / scale of 1e-305 .. 1e300, any base, all branch exponents; a point belongs to the "
                "class when the closed forms evaluated in 50-digit decimal arithmetic say that x and its image "
                "are representable and that 8 ulps on y (resp. on the scale of x) move the round trip by less "
                "than 2 % of the tolerance; judged by the round-trip clauses at 1e-6 (also as a long 1-D and a "
                "2-D array, and by backward_censored = max(x, censor)); stateful = "
                "one object per class and constructor variant taken through a sequence of settings "
                "(element assignment by attribute / key / key on .params, whole-vector assignment, "
                "reset()) with round trips and comparison with a fresh object after each step; "
                "censored lives = one object per class / constructor variant (and a second live object of "
                "the class, also with other constructor options) through steps that change the constants "
                "only / the parameters only / one value / all / nothing / back to an earlier setting (every "
                "setter; values from the branch pool or moved by a factor or offset either way), "
                "backward_censored after each step with censor values that recur over the whole life (the "
                "censor of the previous call alone, or all in changing order, one twice; float / "
                "numpy.float64 / default; inside the domain, outside it and exactly at its end where "
                "forward is NaN / infinite), x either side of the censor on every scale, y from the object "
                "or from a new one, 1-D / 2-D / stored representations, jacobian / params_sample / "
                "params_logprior / str called in between: backward_censored(forward(x), c) = max(x, c) "
                "(increasing transforms), = the result of a new object, argument unchanged; "
                "sessions = several live objects per class (and of the Box-Cox family together), built "
                "directly and by get_transform, operations interleaved (forward, backward on the array "
                "forward returned, backward_censored, parameter change, object replaced, input / returned "
                "array changed in place by its owner), float64 input arrays C-contiguous / strided / "
                "negative stride / read-only / slice of a larger array / non-native byte order (Softmax: "
                "C, Fortran, transposed, row- and column-sliced, flipped, read-only, byte-swapped, 1-D row): "
                "no exception, argument unchanged, result = that of a new object with the intended values "
                "on a new C-contiguous copy, round trips across the interleaving; "
                "non-trivial = distinct "
                "(class, method, parameter branch, sign of x, NaN/exception expected) signature")
    ctx.trusted = cm.STD_TRUST + [
        "no binary64 instance for transcendental closed forms: engine E3 evaluates the real-number "
        "model at the implementation's inputs with the `interval` tactic (CoqInterval; primitive "
        "integer computation in the kernel) and compares with the implementation's output under an "
        "a priori forward-error bound of the float algorithm (harness/props/transform_common.py: amp)",
        "numpy.isclose tolerances are read from the installed numpy",
    ]
    ctx.tested_not_proved = [
        "floating-point accuracy of the round trips (relative 1e-6 in the conditioning region) - "
        "tested on the implementation",
        "absence of overflow / underflow / absorption of intermediate quantities at the far ends of the "
        "well-conditioned region (arguments of 1e-300 .. 1e300): tested (class F; the model is over R); not "
        "asserted where the pinned formulas are not careful: Logit (x-lower)/delta < 1e-8, Manly 0 < "
        "|lam*x/xmax| < 1e-8, Softmax 1 - sum < 1e-9",
        "dutils.cast glue (scalar / n-d inputs), get_transform, Vector clipping of stored values",
        "independence of the results from the history of one object (parameters changed in place, by "
        "whole-vector assignment, reset()): tested (stateful mode), the model is a pure function of "
        "the stored values",
        "backward_censored(forward(x), c) = max(x, c) on re-used objects whatever was set or called before "
        "(constants, parameters, other objects of the class, other censor values): tested (censored lives)",
        "independence of the results from other live transform objects, from earlier calls, from the "
        "identity of the array objects passed and from the stored representation (strides, byte order, "
        "writeability) of the float64 input: tested (sessions)",
        "Yeo-Johnson in the band 0 < w < 1e3*EPS above the forward/backward switch (exact "
        "invertibility is false there; DESIGN 5/C01 G)",
    ]
    ctx.checker_cmd = (f"cd /verif && ./check {PID} --tier {ctx.tier}  (make -C coq Props/{PID}.vo "
                       f"Proofs/TransformTac.vo; coqc on the generated E3_{PID}_*.v: one "
                       "`Goal close_R (model args x) y_impl tol. Proof. tr_solve. Qed.` per evaluation)")
    import time
    t0 = time.time()
    proved = cm.prove(ctx, extractors=["c01", "pygen"], extra_targets=["Proofs/TransformTac.vo", "Props/PyTie.vo"])
    t_prove = time.time() - t0
    cm.use_impl()
    from hydrodiy.stat import transform as T   # noqa: F401
    rng = ctx.rng
    check_tables(ctx)
    # ---- sessions (own random stream; first, so that they run whatever happens to the tie)
    t3 = time.time()
    session_checks(ctx)
    t_sess = time.time() - t3

    goals, meta = [], []          # meta[i]: replay description of goal i
    orc_fail = set()              # goal indices on which the oracle found a failure

    def add_goal(g, m):
        goals.append(g)
        meta.append(m)
        return len(goals) - 1

    npts = ctx.scale(4, 6)
    # work list: corpus first (earlier failures: corpus/C01/*.json, {"case": {class, opts,
    # vals, xs}}), then the generated instances
    work = []
    for c in cm.load_corpus(PID):
        if c.get("class") in tc.CLASSES and c.get("class") != "Softmax":
            work.append((c["class"], dict(c.get("opts", {})), dict(c["vals"]), False, 0,
                         [float(v) for v in c["xs"]]))
    for name in tc.CLASSES:
        if name == "Softmax":
            continue
        variants = tc.ctor_variants(name, rng)
        nvec = ctx.scale(NVEC_QUICK[name], 5 * NVEC_QUICK[name] + 10)
        for k in range(nvec):
            opts = variants[k % len(variants)]
            work.append((name, opts, vec_k(name, opts, rng, k), k % 2 == 1, k, None))
    if True:
        for name, opts, vals, via_get, k, xs0 in work:
            cm.mark({"call": "transform", "class": name, "opts": opts, "vals": vals})
            t, eff = tc.make(name, opts, vals, via_get)
            xs = xs0 if xs0 is not None else tc.points(name, opts, eff, rng, npts)
            if not xs:
                continue
            base = {"class": name, "opts": opts, "values": eff, "via_get_transform": via_get}
            ys, err = tc.call(t, "fwd", xs)
            rtol = rt_rtol(name, eff)
            for j, x in enumerate(xs):
                y = None if ys is None else ys[j]
                sig = branch_sig(name, eff, x)
                rep = dict(base, method="forward", x=x, output=y, exception=err)
                if y is None or math.isnan(y):
                    gi = add_goal(tc.goal_scalar(name, "fwd", opts, eff, x, None, 0.0), rep)
                    ctx.count((name, "fwd", sig, "nan"))
                    orc_fail.add(gi)
                    mode = "forward-raises" if y is None else "forward-nan-in-domain"
                    ctx.failure(f"C01/{name}/{mode}", rep,
                                f"{name}{opts} {eff}: forward({x!r}) "
                                f"{'raised ' + str(err) if y is None else 'is NaN'} inside the domain")
                    continue
                tol = tc.tolerance(name, "fwd", opts, eff, x, y)
                if tol is not None and math.isfinite(y):
                    add_goal(tc.goal_scalar(name, "fwd", opts, eff, x, y, tol), rep)
                    ctx.count((name, "fwd", sig))
            # backward on the image
            yfin = [(j, y) for j, y in enumerate(ys or []) if math.isfinite(y)]
            if yfin:
                bs, berr = tc.call(t, "bwd", [y for _, y in yfin])
                for q, (j, y) in enumerate(yfin):
                    x = xs[j]
                    b = None if bs is None else bs[q]
                    sig = branch_sig(name, eff, x)
                    rep = dict(base, method="backward", x=x, y=y, output=b, exception=berr)
                    if b is None or math.isnan(b):
                        gi = add_goal(tc.goal_scalar(name, "bwd", opts, eff, y, None, 0.0), rep)
                        ctx.count((name, "bwd", sig, "nan"))
                        orc_fail.add(gi)
                        mode = "backward-raises" if b is None else "backward-nan-on-image"
                        ctx.failure(f"C01/{name}/{mode}", rep,
                                    f"{name}{opts} {eff}: backward(forward({x!r})) "
                                    f"{'raised ' + str(berr) if b is None else 'is NaN'}")
                        continue
                    tol = tc.tolerance(name, "bwd", opts, eff, y, b)
                    gi = None
                    if tol is not None and math.isfinite(b):
                        gi = add_goal(tc.goal_scalar(name, "bwd", opts, eff, y, b, tol), rep)
                        ctx.count((name, "bwd", sig))
                    if not in_accuracy_region(name, eff):
                        continue
                    # oracle: backward(forward(x)) = x
                    if not abs(b - x) <= rtol * x_scale(name, opts, eff, x):
                        if gi is not None:
                            orc_fail.add(gi)
                        ctx.failure(f"C01/{name}/roundtrip-backward-forward", rep,
                                    f"{name}{opts} {eff}: backward(forward({x!r})) = {b!r}")
                    # oracle: forward(backward(y)) = y
                    if math.isfinite(b):
                        f2, _ = tc.call(t, "fwd", [b])
                        y2 = None if f2 is None else f2[0]
                        if y2 is None or not abs(y2 - y) <= rtol * y_scale(name, opts, eff, y):
                            ctx.failure(f"C01/{name}/roundtrip-forward-backward",
                                        dict(base, method="forward(backward(y))", y=y, x=b, output=y2),
                                        f"{name}{opts} {eff}: forward(backward({y!r})) = {y2!r}")
                        ctx.count()
            # explicit np.where guards of forward outside the domain (NaN expected)
            for method, xg in tc.guard_points(name, opts, eff, rng):
                if method != "fwd" or not math.isfinite(xg):
                    continue
                out, gerr = tc.call(t, "fwd", [xg])
                o = None if out is None or math.isnan(out[0]) else out[0]
                tol = 0.0 if o is None else (tc.tolerance(name, "fwd", opts, eff, xg, o) or 0.0)
                add_goal(tc.goal_scalar(name, "fwd", opts, eff, xg, o, tol),
                         dict(base, method="forward (outside the domain)", x=xg, output=o, exception=gerr))
                ctx.count((name, "fwd", "guard"))
            # backward_censored (1-D y, scalar censor); cast glue of YeoJohnson's scalar
            # forward is not modelled
            # (BoxCox2sym: the nested term is the costliest of all for `interval`; the
            # base-class method is exercised through the other eleven classes)
            if name not in ("YeoJohnson", "BoxCox2sym") and yfin and k % 2 == 0:
                # censor values inside the domain of forward (the model's forward is only
                # meaningful there: NaN from log of a negative number is not modelled)
                censors = [xs[0], xs[min(1, len(xs) - 1)]]
                for ci, censor in enumerate(censors):
                    j, y = yfin[(k // 2 + ci) % len(yfin)]
                    try:
                        with np.errstate(all="ignore"):
                            out = float(np.asarray(t.backward_censored(np.array([y]), censor)).ravel()[0])
                        cerr = None
                    except Exception as e:      # noqa: BLE001
                        out, cerr = None, type(e).__name__
                    rep = dict(base, method="backward_censored", y=y, censor=censor, output=out,
                               exception=cerr)
                    if cerr is not None:
                        ctx.failure(f"C01/{name}/backward_censored-raises", rep,
                                    f"{name}{opts} {eff}: backward_censored([{y!r}], {censor!r}) raised {cerr}")
                        continue
                    o = None if math.isnan(out) else out
                    # tolerance: forward-error bound of backward at the argument actually used,
                    # yc = max(y, forward(censor)); when the censor is active the exact value is
                    # censor itself and the implementation returns max(backward(forward(censor)),
                    # censor): allow the round-trip error there
                    tcen, _ = tc.call(t, "fwd", [censor])
                    if tcen is None or not math.isfinite(tcen[0]):
                        continue
                    if o is None:       # NaN although y is on the image and censor in the domain
                        add_goal(tc.goal_censored(name, opts, eff, censor, y, None, 0.0), rep)
                        ctx.count((name, "censored", "nan"))
                        continue
                    yc = max(y, tcen[0])
                    tb = tc.tolerance(name, "bwd", opts, eff, yc, out)
                    if tb is None:
                        continue
                    tol = 4 * tb + 1e-9 * max(1.0, abs(out))
                    if y <= tcen[0] + 1e-6 * max(1.0, abs(tcen[0])):
                        tol += 2 * rtol * x_scale(name, opts, eff, censor)
                    add_goal(tc.goal_censored(name, opts, eff, censor, y, o, tol), rep)
                    ctx.count((name, "censored", "nan" if o is None else
                               "censor-active" if o == censor else "plain"))
            if k % 5 == 0:
                ctx.sample({"class": name, "opts": opts, "values": eff, "x": xs[:3],
                            "forward": None if ys is None else ys[:3]})

    # ---- Softmax (2-D rows)
    from hydrodiy.stat import transform as T
    sm = T.Softmax()
    nmat = ctx.scale(10, 60)
    e = tc.eps()
    for k in range(nmat):
        nrows = [1, 2, 3][k % 3]
        ncols = [1, 2, 3, 5][k % 4]
        rows = tc.softmax_rows(rng, nrows, ncols)
        kind = "ok"
        if k % 5 == 3:
            rows[-1][0] = -abs(rows[-1][0]) - 1e-3
            kind = "negative-entry"
        elif k % 5 == 4:
            s = sum(rows[0])
            rows[0] = [v / s * (1 - e / 4) for v in rows[0]]
            kind = "sum>1-EPS"
        elif k == 0:
            rows, nrows, ncols = [[0.25, 0.25]], 1, 2
        cm.mark({"call": "Softmax", "rows": rows})
        ys, err = tc.call(sm, "fwd", rows)
        rep = {"class": "Softmax", "method": "forward", "rows": rows, "output": ys, "exception": err,
               "kind": kind}
        ctx.count(("Softmax", "fwd", kind, nrows, ncols))
        if ys is None:
            add_goal(f"close_optlist (oflat (softmax_fwd {tc.hxll(rows)})) None []", rep)
            if kind == "ok":
                ctx.failure("C01/Softmax/forward-raises", rep, f"Softmax.forward raised {err} in the domain")
            continue
        if kind != "ok":
            add_goal(f"close_optlist (oflat (softmax_fwd {tc.hxll(rows)})) (Some {tc.hxl(ys)}) "
                     f"{tc.hxl([0.0] * len(ys))}", rep)
            ctx.failure(f"C01/Softmax/accepts-{kind}", rep, f"Softmax.forward accepted a row with {kind}")
            continue
        flat = [v for r in rows for v in r]
        tols = []
        for r in rows:
            sx = sum(r)
            for v in r:
                yv = math.log(v / (1 - sx))
                tols.append(1e-10 * max(1.0, abs(yv)) + 16 * tc.U * (len(r) / (1 - sx) + abs(yv) + 2))
        add_goal(f"close_optlist (oflat (softmax_fwd {tc.hxll(rows)})) (Some {tc.hxl(ys)}) {tc.hxl(tols)}",
                 rep)
        yrows = [ys[i * ncols:(i + 1) * ncols] for i in range(nrows)]
        bs, berr = tc.call(sm, "bwd", yrows)
        rep2 = {"class": "Softmax", "method": "backward", "rows": yrows, "output": bs, "exception": berr}
        if bs is None:
            ctx.failure("C01/Softmax/backward-raises", rep2, f"Softmax.backward raised {berr}")
            continue
        btol = [1e-10 + 16 * tc.U * (2 + abs(y)) * max(b, 1e-300) * (ncols + 2) for y, b in zip(ys, bs)]
        add_goal(f"close_list (concat (softmax_bwd {tc.hxll(yrows)})) {tc.hxl(bs)} {tc.hxl(btol)}", rep2)
        ctx.count(("Softmax", "bwd", nrows, ncols))
        for v, b in zip(flat, bs):
            # 1 - sum(x) is formed by subtraction: relative accuracy of 1e-6 needs 1 - sum >= ~1e-9
            if not abs(b - v) <= 1e-6 * abs(v):
                ctx.failure("C01/Softmax/roundtrip-backward-forward", rep2,
                            f"Softmax: backward(forward(x)) entry {b!r} != {v!r}")
                break
        if k % 4 == 0:
            ctx.sample({"class": "Softmax", "rows": rows, "forward": yrows})

    # ---- shapes / scalar types through dutils.cast (float scalars, n-d arrays)
    shape_checks(ctx)

    # ---- oracle-only input classes (after everything that feeds E3: the random stream of
    # the instances above does not depend on them)
    t2 = time.time()
    extreme_checks(ctx)
    stateful_checks(ctx)
    t_extra = time.time() - t2
    t4 = time.time()
    censored_life_checks(ctx)
    t_life = time.time() - t4
    t5 = time.time()
    far_checks(ctx)
    t_far = time.time() - t5

    # ---- E3
    t1 = time.time()
    bad, nok, nshards, failed = tc.run_e3(PID, goals, shard=ctx.scale(40, 60))
    ctx.notes["timing_s"] = {"prove": round(t_prove, 1), "generate+oracle": round(t1 - t0 - t_prove - t_sess - t_life - t_far, 1),
                             "e3": round(time.time() - t1, 1),
                             "classX+stateful": round(t_extra, 1), "sessions": round(t_sess, 1),
                             "censored-lives": round(t_life, 1), "classF": round(t_far, 1)}
    ctx.notes["correspondence_goals"] = len(goals)
    ctx.notes["correspondence_mismatches"] = len(bad)
    ctx.notes["e3_shards"] = nshards
    for kk in range(nok):
        ctx.obligation(f"E3 shard {kk}: every goal closed by interval + Qed", True)
    for kk in range(nshards - nok):
        ctx.obligation(f"E3 shard (failing) {kk}", False)
    if bad and proved:
        ctx.notes["first_mismatch"] = meta[bad[0]]
    if os.environ.get("HYVERIF_E3_DUMP"):      # debugging aid: goals, replay data, mismatches
        import json
        with open(os.environ["HYVERIF_E3_DUMP"], "w") as fh:
            json.dump({"goals": goals, "meta": meta, "bad": bad,
                       "failed": failed}, fh, indent=1, default=str)
    cm.settle(ctx, proved, bad, failed, orc_fail,
              lambda i: {"case": meta[i], "goal": goals[i], "model": "Hy.Model.Transform (tr_solve)"},
              "Model/Transform.v vs stat/transform.py (E3: forward, backward, backward_censored)")
    return ctx.finish()


def roundtrip_failures(t, name, opts, eff, xs, keep_infinite=False):
    """the round-trip oracle of the main loop on a list of in-region points:
    [(failure mode, replay fields, text)].  keep_infinite: an infinite forward(x) is handed to
    backward like any other value (class F: the exact image is representable there)"""
    out = []
    rtol = rt_rtol(name, eff)
    ys, err = tc.call(t, "fwd", xs)
    if ys is None:
        return [("forward-raises", {"method": "forward", "x": xs, "exception": err},
                 f"forward({xs!r}) raised {err} inside the domain")]
    fin = []
    for x, y in zip(xs, ys):
        if math.isnan(y):
            out.append(("forward-nan-in-domain", {"method": "forward", "x": x, "output": y},
                        f"forward({x!r}) is NaN inside the domain"))
        elif math.isfinite(y) or keep_infinite:
            fin.append((x, y))
    if not fin:
        return out
    bs, berr = tc.call(t, "bwd", [y for _, y in fin])
    if bs is None:
        out.append(("backward-raises", {"method": "backward", "y": [y for _, y in fin], "exception": berr},
                    f"backward(forward({[x for x, _ in fin]!r})) raised {berr}"))
        return out
    again = []
    for (x, y), b in zip(fin, bs):
        if math.isnan(b):
            out.append(("backward-nan-on-image", {"method": "backward", "x": x, "y": y, "output": b},
                        f"backward(forward({x!r})) is NaN"))
            continue
        if not in_accuracy_region(name, eff):
            continue
        if not abs(b - x) <= rtol * x_scale(name, opts, eff, x):
            out.append(("roundtrip-backward-forward", {"method": "backward", "x": x, "y": y, "output": b},
                        f"backward(forward({x!r})) = {b!r}"))
        if math.isfinite(b):
            again.append((y, b))
    if again:
        f2, _ = tc.call(t, "fwd", [b for _, b in again])
        for q, (y, b) in enumerate(again):
            y2 = None if f2 is None else f2[q]
            if y2 is None or not abs(y2 - y) <= rtol * y_scale(name, opts, eff, y):
                out.append(("roundtrip-forward-backward",
                            {"method": "forward(backward(y))", "y": y, "x": b, "output": y2},
                            f"forward(backward({y!r})) = {y2!r}"))
    return out


def extreme_checks(ctx):
    """input class X (transform_common): threshold exponents x extreme logarithms,
    same oracle, same keys as the main loop"""
    n = 0
    for name in ("Log", "BoxCox2", "BoxCox1lam", "BoxCox1nu", "BoxCox2sym", "YeoJohnson"):
        cm.mark({"call": "transform (class X)", "class": name})
        for k, (opts, vals) in enumerate(tc.extreme_vectors(name)):
            via_get = k % 8 == 3          # (get_transform inspects the signature: slow)
            t, eff = tc.make(name, opts, vals, via_get)
            xs = tc.extreme_points(name, opts, eff)
            if not xs:
                continue
            base = {"class": name, "opts": opts, "values": eff, "via_get_transform": via_get,
                    "input_class": "threshold exponent x extreme logarithm"}
            for mode, rep, text in roundtrip_failures(t, name, opts, eff, xs):
                ctx.failure(f"C01/{name}/{mode}", dict(base, **rep), f"{name}{opts} {eff}: {text}")
            for x in xs:
                ctx.count((name, "X") + branch_sig(name, eff, x))
            n += len(xs)
    ctx.notes["classX_points"] = n
    edge_checks(ctx)


# input class E (oracle only): the classes that class X does not concern, at the ENDS of the
# ranges in which transform_common.points draws at random (and rarely lands on): Logit within
# 1e-4 of either bound, LogSinh w = 1e-4 (the end stated by the property) .. 30, Reciprocal and
# Sinh arguments of 1e-6 and 1e6, Manly |x|/xmax = 1e-6 and at the limit |lam*x/xmax| = 13.8
# (or 1e3), Identity 1e5; every point passes the acceptance test of the sessions (in_region).
# Measured on the unchanged code (6 seeds x 40 vectors per class and constructor variant):
# round-trip error <= 0.07 x the oracle's tolerance (Manly), <= 3e-5 x for the other classes.

def edge_points(name, opts, vals):
    xs = []
    if name == "Identity":
        xs = [0.0, 1e5, -1e5, 1e-5, -1e-5]
    elif name == "Logit":
        d = math.exp(vals["logdelta"])
        xs = [vals["lower"] + v * d for v in (1.0001e-4, 1e-3, 0.5, 1 - 1e-3, 1 - 1.0001e-4)]
    elif name == "LogSinh":
        a, b = math.exp(vals["loga"]), math.exp(vals["logb"])
        xs = [(w - a) / b * vals["xmax"] for w in (1.0001e-4, 1e-3, 1e-2, 1.0, 10.0, 29.9)]
    elif name == "Reciprocal":
        xs = [z - vals["nu"] for z in (1.0001e-6, 1e-3, 1.0, 1e3, 9.99e5)]
    elif name == "Sinh":
        xs = [vals["nu"]] + [sg * u / vals["scale"] + vals["nu"]
                             for u in (1.0001e-6, 1e-3, 1.0, 1e3, 9.99e5) for sg in (1, -1)]
    elif name == "Manly":
        lam = vals["lam"]
        lim = min(1e3, tc.LNMAX / abs(lam)) if lam != 0 else 1e3
        xs = [0.0] + [sg * u * vals["xmax"] for u in (1.0001e-6, 1e-3, 1.0, 0.999 * lim) for sg in (1, -1)]
    return [float(x) for x in xs if in_region(name, opts, vals, x)]


def edge_checks(ctx):
    import random
    rng = random.Random(f"{PID}:edges:{ctx.seed}")
    n = 0
    for name in ("Identity", "Logit", "LogSinh", "Reciprocal", "Sinh", "Manly"):
        cm.mark({"call": "transform (class E)", "class": name})
        variants = tc.ctor_variants(name, rng)
        nvec = ctx.scale(14, 40) if tc.bounds(name, variants[0]) else 1
        for vi, opts in enumerate(variants):
            for k, vals in enumerate(tc.param_vectors(name, opts, rng, nvec)):
                t, eff = tc.make(name, opts, vals, via_get=k % 8 == 3)
                xs = edge_points(name, opts, eff)
                if not xs:
                    continue
                base = {"class": name, "opts": opts, "values": eff, "via_get_transform": k % 8 == 3,
                        "input_class": "ends of the conditioning region"}
                for mode, rep, text in roundtrip_failures(t, name, opts, eff, xs):
                    ctx.failure(f"C01/{name}/{mode}", dict(base, **rep), f"{name}{opts} {eff}: {text}")
                for j, x in enumerate(xs):
                    ctx.count((name, "E", j) + branch_sig(name, eff, x))
                n += len(xs)
    ctx.notes["classE_points"] = n


# ----------------------------------------------------------------------------
# input class F (oracle only): the FAR ENDS of the region in which the round trip is well
# conditioned.  The points of the other classes keep every internal argument of the closed forms
# moderate (|ln z| <= 11.5, LogSinh w <= 30, arguments of 1e-6 .. 1e6); the property has no such
# limit: it quantifies over all x of the domain at which the mapping is well conditioned.  Class
# F takes the internal argument of every class (x + nu, 1 + |w|, w = a + b*x/xmax, (x - nu)*scale,
# lam*x/xmax, (x - lower)/delta, the entries of a Softmax row and 1 - their sum) to the far ends:
# up to 1e300 and down to 1e-300, through every magnitude at which an intermediate quantity of a
# naive formula leaves the binary64 (or binary32) range or is absorbed (exp overflows at 88.7 /
# 709.8, exp(2w) at 354.9, exp(-w) vanishes at 745.1, exp(-2w) at 372.6 and drops below 2^-53
# at 18.4, u*u overflows at 1.3e154 and absorbs 1 at 9.5e7, ...), combined with parameters and
# constants at the far ends of their declared bounds (nu, xmax, scale of 1e-10 .. 1e300, any
# logarithm base, exponents up to the limit |lam*ln z| = 13.8 of the property).
#
# WHICH points belong to the class is decided by an exact reference, not by the library: the
# closed forms of the class evaluated in 50-digit decimal arithmetic (python's decimal: ln, exp,
# power, sqrt; series where 50 digits would cancel) on the stored binary64 values.  A point x
# is accepted when (1) x and the exact image y* = F(x) are representable (0 or 1e-300 <= |.| <=
# 1e300), (2) the exact backward of the binary64 nearest to y*, moved by 8 ulps either way, is
# within 2 % of the property's tolerance of x, (3) the exact forward of the binary64 nearest to
# B(y), moved either way by 8 * 2^-52 of the magnitude against which x is compared, is within
# 2 % of the tolerance of y.  (2) and (3) say that the round trip is representable and well
# conditioned: a careful binary64 implementation (one that loses a few ulps per operation and
# never forms an intermediate quantity outside the range) meets the property's tolerance there
# with a margin of 50.  The regions stated by the property itself (|lam*ln| <= 13.8, LogSinh
# w >= 1e-4, Manly |lam| >= 1e-3 or 0, Yeo-Johnson outside 0 < w < 1e3*EPS) are applied first.
# The implementation is then judged by the property's own clause and tolerance
# (roundtrip_failures: backward(forward(x)) against x, forward(backward(y)) against y, 1e-6),
# never against the reference's values; a forward that is infinite at an accepted point is
# passed on to backward like any other value (the round trip then fails).  The same points are
# also passed as one long 1-D array and as a 2-D array (numpy's vector loops), and to
# backward_censored with one of them as censor (= max(x, censor), increasing transforms).
#
# Where the unchanged library is NOT careful, the class stops at the measured limit of the
# library's formula (LIB_LIMITS below; each is an observation of notes/C01.md, not asserted):
#   Logit   forward forms 1/(1-v) - 1: relative error 2^-53/v; asserted for v >= 1e-8 only
#           (the reference accepts v down to 1e-300 when lower = 0)
#   Manly   forward forms exp(lam*u) - 1, backward log(1 + lam*y): relative error 2^-53/|lam*u|;
#           asserted for |lam*u| >= 1e-8 (and all u in the branch |lam| <= EPS, which is u itself)
#   Softmax forward raises for 1 - sum(x) < EPS = 1e-10 (documented guard); 1 - sum is formed by
#           subtraction; asserted for 1 - sum >= 1e-9

_DC = decimal.Context(prec=50, Emax=10 ** 15, Emin=-10 ** 15, rounding=decimal.ROUND_HALF_EVEN,
                      traps=[decimal.InvalidOperation, decimal.DivisionByZero, decimal.Overflow])
_TINY = D("1e-20")
_U52 = D(2) ** -52

MAGS_BIG = (1e7, 1e8, 1e9, 1e12, 1e15, 1e16, 1e17, 1e30, 1e60, 1e100, 1e153, 1e154, 1e155, 1e200, 1e250,
            1e300)
MAGS_SMALL = (1e-7, 1e-8, 1e-9, 1e-10, 1e-12, 1e-15, 1e-16, 1e-17, 1e-30, 1e-60, 1e-100, 1e-153, 1e-154,
              1e-155, 1e-200, 1e-250, 1e-300)
# arguments of exp / sinh / log-sum forms either side of every range or absorption limit
EXPARGS = (18.0, 19.0, 36.0, 37.5, 40.0, 60.0, 88.0, 89.5, 100.0, 200.0, 354.0, 356.0, 372.0, 373.5, 500.0,
           700.0, 709.0, 709.7, 710.6, 720.0, 745.0, 746.0, 1e3, 1e4, 1e5, 1e6)
# moderate arguments, where an implementation may switch to an asymptotic form
MODERATE = (1.5, 2.0, 3.0, 4.0, 5.0, 6.0, 7.0, 8.0, 10.0, 12.0, 15.0, 25.0, 30.0)
LIB_LIMITS = {"Logit_vmin": 1e-8, "Manly_tmin": 1e-8, "Softmax_gapmin": 1e-9}


def _d_ln1p(s):
    """ln(1 + s), 50 digits also for tiny s"""
    return s - s * s / 2 + s * s * s / 3 if abs(s) < _TINY else (1 + s).ln()


def _d_expm1(t):
    return t + t * t / 2 + t * t * t / 6 if abs(t) < _TINY else t.exp() - 1


def _d_bc_fwd(z, lam, e):
    """Box-Cox of z > 0 with the branch test of the module"""
    if abs(lam) > e:
        return _d_expm1(lam * z.ln()) / lam
    return z.ln()


def _d_bc_bwd(y, lam, e):
    if abs(lam) > e:
        s = lam * y
        if 1 + s <= 0:
            return None
        return (_d_ln1p(s) / lam).exp()
    return y.exp()


def ref_fwd(name, opts, vals, x):
    """exact (50 digits) forward of the class at the Decimal x for the stored binary64 values; None
    outside the domain.  Call inside decimal.localcontext(_DC)."""
    e = D(tc.eps())
    v = {k: D(f) for k, f in vals.items()}
    if name == "Identity":
        return x
    if name == "Logit":
        d = v["logdelta"].exp()
        p = (x - v["lower"]) / d
        return (p / (1 - p)).ln() if 0 < p < 1 else None
    if name == "Log":
        base = tc.full_opts(name, opts)["base"]
        z = x + v["nu"]
        return None if z <= 0 else z.ln() / (1 if base is None else D(math.log(base)))
    if name in ("BoxCox2", "BoxCox1lam", "BoxCox1nu"):
        z = x + v["nu"]
        return None if z <= 0 else _d_bc_fwd(z, v["lam"], e)
    if name == "BoxCox2sym":
        z = abs(x) + v["nu"]
        if z <= 0 or v["nu"] <= 0:
            return None
        r = _d_bc_fwd(z, v["lam"], e) - _d_bc_fwd(v["nu"], v["lam"], e)
        return r if x >= 0 else -r
    if name == "YeoJohnson":
        w = v["nu"] + x * v["scale"]
        lam = v["lam"]
        if w >= e:
            return (1 + w).ln() if np.isclose(vals["lam"], 0.0) else _d_expm1(lam * (1 + w).ln()) / lam
        p = 2 - lam
        return -(1 - w).ln() if np.isclose(vals["lam"], 2.0) else -_d_expm1(p * (1 - w).ln()) / p
    if name == "LogSinh":
        a, b = D(math.exp(vals["loga"])), D(math.exp(vals["logb"]))
        w = a + b * x / v["xmax"]
        if w <= 0:
            return None
        return (w.ln() if w < _TINY else w + ((1 - (-2 * w).exp()) / 2).ln()) / b
    if name == "Reciprocal":
        z = v["nu"] + x
        return None if z <= 0 else -1 / z
    if name == "Sinh":
        u = (x - v["nu"]) * v["scale"]
        if abs(u) < _TINY:
            return u
        r = (abs(u) + (u * u + 1).sqrt()).ln()
        return r if u > 0 else -r
    if name == "Manly":
        u = x / v["xmax"]
        return _d_expm1(v["lam"] * u) / v["lam"] if abs(v["lam"]) > e else u
    raise KeyError(name)


def ref_bwd(name, opts, vals, y):
    """exact backward (see ref_fwd); None where it is not defined"""
    e = D(tc.eps())
    v = {k: D(f) for k, f in vals.items()}
    if name == "Identity":
        return y
    if name == "Logit":
        return v["lower"] + v["logdelta"].exp() / (1 + (-y).exp())
    if name == "Log":
        base = tc.full_opts(name, opts)["base"]
        return (y * (1 if base is None else D(math.log(base)))).exp() - v["nu"]
    if name in ("BoxCox2", "BoxCox1lam", "BoxCox1nu"):
        z = _d_bc_bwd(y, v["lam"], e)
        return None if z is None else z - v["nu"]
    if name == "BoxCox2sym":
        z = _d_bc_bwd(abs(y) + _d_bc_fwd(v["nu"], v["lam"], e), v["lam"], e)
        if z is None:
            return None
        return z - v["nu"] if y >= 0 else -(z - v["nu"])
    if name == "YeoJohnson":
        lam = v["lam"]
        if y >= e:
            if np.isclose(vals["lam"], 0.0):
                w = _d_expm1(y)
            else:
                if 1 + lam * y <= 0:
                    return None
                w = _d_expm1(_d_ln1p(lam * y) / lam)
        else:
            p = 2 - lam
            if np.isclose(vals["lam"], 2.0):
                w = -_d_expm1(-y)
            else:
                if 1 - p * y <= 0:
                    return None
                w = -_d_expm1(_d_ln1p(-p * y) / p)
        return (w - v["nu"]) / v["scale"]
    if name == "LogSinh":
        a, b = D(math.exp(vals["loga"])), D(math.exp(vals["logb"]))
        t = b * y
        return v["xmax"] * (t + (1 + (1 + (-2 * t).exp()).sqrt()).ln() - a) / b
    if name == "Reciprocal":
        return None if y >= 0 else -1 / y - v["nu"]
    if name == "Sinh":
        s = y + y * y * y / 6 if abs(y) < _TINY else (y.exp() - (-y).exp()) / 2
        return s / v["scale"] + v["nu"]
    if name == "Manly":
        if abs(v["lam"]) > e:
            s = v["lam"] * y
            return None if 1 + s <= 0 else v["xmax"] * _d_ln1p(s) / v["lam"]
        return v["xmax"] * y
    raise KeyError(name)


def _representable(q):
    return q == 0 or D("1e-300") <= abs(q) <= D("1e300")


def stated_region(name, opts, vals, x):
    """the regions stated by the property text itself (floats; cheap, applied before the reference)"""
    try:
        if name in ("Log", "BoxCox2", "BoxCox1lam", "BoxCox1nu", "BoxCox2sym"):
            z = (abs(x) if name == "BoxCox2sym" else x) + vals["nu"]
            lam = vals.get("lam", 0.0)
            if not z > 0:
                return False
            if name == "BoxCox2sym" and abs(lam * math.log(vals["nu"])) > tc.LNMAX:
                return False
            return abs(lam * math.log(z)) <= tc.LNMAX
        if name == "YeoJohnson":
            w = vals["nu"] + x * vals["scale"]
            if 0 < w < 1e3 * tc.eps():
                return False
            ex_ = vals["lam"] if w >= tc.eps() else 2 - vals["lam"]
            return abs(ex_ * math.log1p(abs(w))) <= tc.LNMAX
        if name == "LogSinh":
            return math.exp(vals["loga"]) + math.exp(vals["logb"]) * (x / vals["xmax"]) >= 1e-4
        if name == "Manly":
            if not in_accuracy_region(name, vals):
                return False
            t = vals["lam"] * (x / vals["xmax"])
            return abs(vals["lam"]) <= tc.eps() or t == 0 or abs(t) >= LIB_LIMITS["Manly_tmin"]
        if name == "Logit":
            p = (x - vals["lower"]) / math.exp(vals["logdelta"])
            return LIB_LIMITS["Logit_vmin"] <= p < 1
    except (ValueError, OverflowError, ZeroDivisionError):
        return False
    return True


def far_ok(name, opts, vals, x, lib_limits=True):
    """the exact reference accepts x for the setting `vals` (see the header of class F)"""
    if not math.isfinite(x) or (lib_limits and not stated_region(name, opts, vals, x)):
        return False
    try:
        with decimal.localcontext(_DC):
            X = D(x)
            xs = D(x_scale(name, opts, vals, x))
            lim = D("0.02") * D(rt_rtol(name, vals))
            if not _representable(X):
                return False
            Y = ref_fwd(name, opts, vals, X)
            if Y is None or not _representable(Y):
                return False
            yf = float(Y)
            ys = D(y_scale(name, opts, vals, yf))
            for k in (-8, 8):
                Xk = ref_bwd(name, opts, vals, D(yf) * (1 + k * _U52))
                if Xk is None or not abs(Xk - X) <= lim * xs:
                    return False
            B = ref_bwd(name, opts, vals, D(yf))
            if B is None or not _representable(B):
                return False
            xb = D(float(B))
            for k in (-8, 8):
                Yk = ref_fwd(name, opts, vals, xb + k * _U52 * xs)
                if Yk is None or not abs(Yk - D(yf)) <= lim * ys:
                    return False
            return True
    except (decimal.DecimalException, ValueError, OverflowError, ZeroDivisionError):
        return False


def far_candidates(name, opts, vals, rng, nrandom):
    """candidate points of class F for the (effective) values `vals`: the internal argument of the
    class at every magnitude of MAGS_* / EXPARGS and at the end of the region stated by the property,
    plus `nrandom` log-uniform draws over the whole range"""
    xs = []
    lu = [10 ** rng.uniform(-300, 300) for _ in range(nrandom)]
    mags = MAGS_SMALL + MAGS_BIG
    if name == "Identity":
        xs = [s * m for m in mags + tuple(lu) for s in (1, -1)]
    elif name == "Logit":
        d = math.exp(vals["logdelta"])
        ps = list(MAGS_SMALL[:4]) + [1 - m for m in MAGS_SMALL[:4]] + \
            [1 / (1 + math.exp(-s * y)) for y in MODERATE + EXPARGS[:5] for s in (1, -1)] + \
            [1 / (1 + math.exp(-rng.uniform(-21, 21))) for _ in range(nrandom)]
        xs = [vals["lower"] + p * d for p in ps]
    elif name in ("Log", "BoxCox2", "BoxCox1lam", "BoxCox1nu", "BoxCox2sym"):
        lam = vals.get("lam", 0.0)
        zs = list(mags) + lu
        if lam != 0:       # the end of the stated region |lam*ln z| = 13.8
            zs += [math.exp(s * c * tc.LNMAX / abs(lam)) for c in (0.9999, 0.9) for s in (1, -1)
                   if c * tc.LNMAX / abs(lam) < 690]
        for z in zs:
            x = z - vals["nu"]
            xs += [x, -x] if name == "BoxCox2sym" else [x]
    elif name == "YeoJohnson":
        lam = vals["lam"]
        ws = [s * m for m in MAGS_BIG + tuple(v for v in lu if v > 1) for s in (1, -1)]
        ws += [-m for m in MAGS_SMALL] + [-v for v in lu if v < 1]
        for ex_, s in ((lam, 1), (2 - lam, -1)):
            if ex_ != 0:
                ws += [s * math.expm1(c * tc.LNMAX / abs(ex_)) for c in (0.9999, 0.9)
                       if c * tc.LNMAX / abs(ex_) < 690]
        xs = [(w - vals["nu"]) / vals["scale"] for w in ws]
    elif name == "LogSinh":
        a, b = math.exp(vals["loga"]), math.exp(vals["logb"])
        ws = list(MODERATE) + list(EXPARGS) + list(MAGS_BIG) + [v for v in lu if v > 30] + \
            [10 ** rng.uniform(1.5, 6) for _ in range(nrandom)]
        xs = [(w - a) / b * vals["xmax"] for w in ws]
    elif name == "Reciprocal":
        xs = [z - vals["nu"] for z in list(mags) + lu]
    elif name == "Sinh":
        xs = [s * u / vals["scale"] + vals["nu"] for u in list(mags) + lu + list(MODERATE) + list(EXPARGS[:10])
              for s in (1, -1)]
    elif name == "Manly":
        lam = vals["lam"]
        us = [s * u for u in list(mags) + lu for s in (1, -1)]
        if lam != 0:
            us += [s * t / lam for t in MODERATE + EXPARGS[:18] + (1e-8, 1e-7, 1e-6) for s in (1, -1)]
            us += [s * 10 ** rng.uniform(-8, 2.85) / lam for _ in range(nrandom) for s in (1, -1)]
        xs = [u * vals["xmax"] for u in us]
    return list(dict.fromkeys(float(x) for x in xs if math.isfinite(x)))


def far_vectors(name, rng, thorough):
    """[(constructor options, values)] of class F: the branch values of the parameters and the far
    ends of the declared bounds of parameters and constants"""
    e = tc.eps()
    out = []
    if name == "Identity":
        out = [({}, {})]
    elif name == "Logit":
        out = [({}, {"lower": lo, "logdelta": ld}) for lo, ld in
               ((0.0, 0.0), (0.0, -10.0), (0.0, 10.0), (1.0, 0.0), (-1.0, 1.0), (100.0, 5.0), (-1e3, 10.0),
                (1e-5, -10.0), (0.0, 3.0), (rng.gauss(0, 5), rng.uniform(-10, 10)))]
    elif name in ("Log", "Reciprocal"):
        variants = [{}, {"mininu": 1e-305}, {"mininu": 1.0}]
        if name == "Log":
            variants += [{"base": 10.0}, {"base": 2.0}, {"base": 0.5}, {"mininu": 1e-305, "base": 10.0},
                         {"base": 1.0001}, {"base": 1e300}, {"base": 1e-300}, {"base": math.e},
                         {"mininu": 0.5, "base": round(rng.uniform(1.5, 20), 3)}]
        k = 0
        for opts in variants:
            lo = tc.full_opts(name, opts)["mininu"]
            nus = [lo, 1.0, 1e10, 1e100, 1e300, lo + 10 ** rng.uniform(-12, 12)]
            for nu in (nus if thorough or opts in ({}, {"mininu": 1e-305}) else [nus[k % len(nus)], lo]):
                if nu >= lo:
                    out.append((dict(opts), {"nu": nu}))
            k += 1
    elif name in ("BoxCox2", "BoxCox1lam", "BoxCox1nu", "BoxCox2sym"):
        variants = [{}, {"mininu": 1e-305, "minilam": -3.0}, {"minilam": -3.0}, {"mininu": 1.0, "minilam": -1.0}]
        lams = _far_lams(e) + [rng.choice([1, -1]) * 10 ** rng.uniform(-3, -1.3) for _ in range(2)]
        k = 0
        for lam in lams:
            for vi, opts in enumerate(variants):
                if not thorough and vi != k % len(variants):
                    continue
                b = tc.bounds(name, opts)
                lo = b["nu"][2]
                if not b["lam"][2] <= lam <= b["lam"][3]:
                    continue
                nus = [lo, 1.0, 1e10, 1e200]
                for nu in (nus if thorough else [nus[(k // len(variants)) % len(nus)]]):
                    if nu >= lo:
                        out.append((dict(opts), {"nu": nu, "lam": lam}))
            k += 1
    elif name == "YeoJohnson":
        b = tc.bounds(name, {})
        combos = [(0.0, 1.0), (0.0, b["scale"][2]), (0.0, 1e3), (0.5, 1e10), (100.0, 10.0), (-3.0, 1e-3),
                  (0.0, 1e100), (-1e10, 1.0)]
        lams = []
        for c in (0.0, 2.0):
            lams += [c + s * d for d in (0.0, e, 1e-8, math.nextafter(1e-8, 1), 2.001e-5, 3e-5, 1e-3, 5e-3, 0.01,
                                         0.0199, 0.02, 0.05, 0.1) for s in ((1, -1) if d else (1,))]
        lams += [1.0, -1.0, 3.0, 0.5, 1.5, rng.uniform(-1, 3)]
        k = 0
        for lam in lams:
            if not b["lam"][2] <= lam <= b["lam"][3]:
                continue
            for j in (range(len(combos)) if thorough else (k,)):
                nu, sc = combos[j % len(combos)]
                out.append(({}, {"nu": nu, "scale": sc, "lam": lam}))
            k += 1
    elif name == "LogSinh":
        b = tc.bounds(name, {})
        alo, ahi, blo, bhi, xlo = b["loga"][2], b["loga"][3], b["logb"][2], b["logb"][3], b["xmax"][2]
        out = [({}, {"loga": la, "logb": lb, "xmax": xm}) for la, lb, xm in
               ((-1.0, 0.0, 1.0), (-1.0, bhi, 2.0), (ahi, bhi, 1.0), (alo, bhi, xlo), (alo, blo, 1.0),
                (-1.0, 0.0, xlo), (ahi, blo, 1e100), (-5.0, 2.0, 0.1), (-1.0, 3.0, 2.0), (ahi, 0.0, 0.01),
                (-0.1, -2.0, 1e10), (-3.0, 1.0, 1e300), (-10.0, 0.3, 1e-3),
                (rng.uniform(alo, ahi), rng.uniform(blo, bhi), 10 ** rng.uniform(-10, 10)),
                (rng.uniform(alo, ahi), rng.uniform(blo, bhi), 10 ** rng.uniform(-6, 5)))]
    elif name == "Sinh":
        b = tc.bounds(name, {})
        out = [({}, {"nu": nu, "scale": sc}) for nu, sc in
               ((0.0, 1.0), (0.0, b["scale"][2]), (0.0, 1e10), (0.0, 1e100), (1.0, 1.0), (-1e10, 1e-5),
                (100.0, 1e3), (-0.01, 2.0), (1e100, 1.0), (rng.gauss(0, 10), 10 ** rng.uniform(-10, 10)))]
    elif name == "Manly":
        b = tc.bounds(name, {})
        llo, lhi, xlo = b["lam"][2], b["lam"][3], b["xmax"][2]
        lams = [0.0, e, math.nextafter(e, 1), -math.nextafter(e, 1), 1e-3, -1e-3, 0.1, -0.1, 1.0, -1.0, lhi, llo,
                0.01, -0.02, rng.choice([1, -1]) * 10 ** rng.uniform(-3, 0.69)]
        xms = [1.0, xlo, 1e10, 1e100, 2.0, 1e-3, 1e300]
        for k, lam in enumerate(lams):
            for xm in (xms if thorough else [xms[k % len(xms)], xms[(k + 3) % len(xms)]]):
                out.append(({}, {"lam": lam, "xmax": xm}))
    return out


def _far_lams(e):
    s = [0.0]
    for d in (e, math.nextafter(e, 1), 1e-9, 1e-7, 1e-5, 1e-3, 5e-3, 0.01, 0.0199, 0.02, 0.03, 0.05, 0.1, 0.2,
              0.5, 1.0, 2.0, 3.0):
        s += [d, -d]
    return s


def far_array_failures(t, name, opts, eff, xs, shape):
    """the round-trip clause on the points `xs` passed as one float64 array of the given shape
    (numpy's vector loops): [(failure mode, replay fields, text)], at most one per mode"""
    X = np.resize(np.array(xs, dtype=np.float64), shape)
    flat = X.ravel()
    sx = np.array([x_scale(name, opts, eff, x) for x in xs], dtype=np.float64)
    sx = np.resize(sx, flat.shape)
    rtol = rt_rtol(name, eff)
    out = []
    info = {"array_shape": list(X.shape)}

    def first(mask):
        i = int(np.flatnonzero(mask)[0])
        return i, float(flat[i])
    try:
        with np.errstate(all="ignore"):
            Y = np.asarray(t.forward(X), dtype=np.float64)
            Bk = np.asarray(t.backward(Y), dtype=np.float64)
    except Exception as e:      # noqa: BLE001
        return [("forward-raises", dict(info, method="forward / backward", x=xs, exception=repr(e)),
                 f"forward / backward of a float64 array of shape {list(X.shape)} holding the points {xs!r} raised "
                 f"{type(e).__name__}")]
    if Y.shape != X.shape or Bk.shape != X.shape:
        return [("cast-2d", dict(info, method="forward / backward", x=xs),
                 f"forward / backward of a float64 array of shape {list(X.shape)} returned the shapes "
                 f"{list(Y.shape)} / {list(Bk.shape)}")]
    y, b = Y.ravel(), Bk.ravel()
    if np.isnan(y).any():
        i, x = first(np.isnan(y))
        out.append(("forward-nan-in-domain", dict(info, method="forward", x=x, index=i, output=float(y[i])),
                    f"forward({x!r}) (element {i} of a float64 array of shape {list(X.shape)}) is NaN inside the "
                    f"domain"))
    ok = ~np.isnan(y)
    if (np.isnan(b) & ok).any():
        i, x = first(np.isnan(b) & ok)
        out.append(("backward-nan-on-image", dict(info, method="backward", x=x, index=i, y=float(y[i]),
                                                  output=float(b[i])),
                    f"backward(forward({x!r})) (element {i} of a float64 array of shape {list(X.shape)}) is NaN"))
    ok &= ~np.isnan(b)
    with np.errstate(all="ignore"):
        bad = ok & ~(np.abs(b - flat) <= rtol * sx)
    if bad.any() and in_accuracy_region(name, eff):
        i, x = first(bad)
        out.append(("roundtrip-backward-forward", dict(info, method="backward", x=x, index=i, y=float(y[i]),
                                                       output=float(b[i])),
                    f"backward(forward({x!r})) = {float(b[i])!r} (element {i} of a float64 array of shape "
                    f"{list(X.shape)})"))
    return out


def far_censored_failures(t, name, opts, eff, xs, c):
    """backward_censored(forward(x), c) = max(x, c) on the accepted points, c one of them"""
    ys, _ = tc.call(t, "fwd", xs)
    if ys is None or not all(math.isfinite(y) for y in ys):
        return []                       # (reported by the round-trip oracle)
    try:
        with np.errstate(all="ignore"):
            got = _flat(t.backward_censored(np.array(ys, dtype=np.float64), float(c)))
    except Exception as e:      # noqa: BLE001
        return [("backward_censored-raises", {"method": "backward_censored", "x": xs, "y": ys, "censor": c,
                                              "exception": repr(e)},
                 f"backward_censored(forward({xs!r}), {c!r}) raised {type(e).__name__}")]
    if len(got) != len(xs):
        return []
    bad = censored_oracle(name, opts, eff, xs, c, got)
    if not bad:
        return []
    x, g, want = bad[0]
    return [("backward_censored-roundtrip", {"method": "backward_censored", "x": xs, "y": ys, "censor": c,
                                             "output": got, "x_failing": x, "expected": want},
             f"backward_censored(forward({x!r}), censor={c!r}) = {g!r}, expected max(x, censor) = {want!r} "
             f"({len(bad)} of {len(xs)} points wrong)")]


def far_checks(ctx):
    import random
    rng = random.Random(f"{PID}:far:{ctx.seed}")
    nrandom = ctx.scale(3, 12)
    npts = nvec = 0
    for name in tc.CLASSES:
        if name == "Softmax":
            continue
        cm.mark({"call": "transform (class F)", "class": name})
        vectors = far_vectors(name, rng, ctx.thorough)
        if True:
            for k, (opts, vals) in enumerate(vectors):
                via_get = k % 8 == 3
                try:
                    t, eff = tc.make(name, opts, vals, via_get)
                except Exception:      # noqa: BLE001 - a setting the constructor refuses is not C01's matter
                    continue
                if any(math.isnan(v) for v in eff.values()):
                    continue
                xs = [x for x in far_candidates(name, opts, eff, rng, nrandom) if far_ok(name, opts, eff, x)]
                if not xs:
                    continue
                nvec += 1
                base = {"class": name, "opts": opts, "values": eff, "via_get_transform": via_get,
                        "input_class": "far ends of the well-conditioned region (accepted by the exact reference)"}
                fails = roundtrip_failures(t, name, opts, eff, xs, keep_infinite=True)
                if not fails:
                    # the same points through numpy's vector loops, and backward_censored
                    n = len(xs)
                    shape = [(4099,), (2, n), (n, 3), (64, 65)][k % 4]
                    fails = far_array_failures(t, name, opts, eff, xs, shape)
                    if not fails and name not in LIFE_EXCLUDED and increasing(name, opts) and \
                            in_accuracy_region(name, eff):
                        fails = far_censored_failures(t, name, opts, eff, xs, sorted(xs)[(k * 7) % n])
                for mode, rep, text in fails:
                    ctx.failure(f"C01/{name}/{mode}", dict(base, **rep), f"{name}{opts} {eff}: {text}")
                for x in xs:
                    ctx.count((name, "F", _far_sig(name, eff, x)) + branch_sig(name, eff, x))
                npts += len(xs)
    ctx.notes["classF_points"] = npts
    ctx.notes["classF_settings"] = nvec
    far_softmax(ctx, rng)


def _far_sig(name, vals, x):
    """decade (in steps of 50) of the internal argument, for the coverage count"""
    try:
        if name in ("Log", "BoxCox2", "BoxCox1lam", "BoxCox1nu", "Reciprocal"):
            a = x + vals["nu"]
        elif name == "BoxCox2sym":
            a = abs(x) + vals["nu"]
        elif name == "YeoJohnson":
            a = vals["nu"] + x * vals["scale"]
        elif name == "LogSinh":
            a = math.exp(vals["loga"]) + math.exp(vals["logb"]) * (x / vals["xmax"])
        elif name == "Sinh":
            a = (x - vals["nu"]) * vals["scale"]
        elif name == "Manly":
            a = vals["lam"] * (x / vals["xmax"]) if abs(vals["lam"]) > tc.eps() else x / vals["xmax"]
        elif name == "Logit":
            a = (x - vals["lower"]) / math.exp(vals["logdelta"])
        else:
            a = x
        return 0 if a == 0 else int(math.floor(math.log10(abs(a)) / 50))
    except (ValueError, OverflowError, ZeroDivisionError):
        return None


def far_softmax(ctx, rng):
    """Softmax at the far ends: entries down to 1e-300 beside ordinary ones, 1 - sum(row) down to
    LIB_LIMITS (exact: Fraction), long rows, many rows; backward(forward(x)) = x entry-wise at 1e-6
    and forward(backward(y)) = y at 1e-6 * max(|y|, 1)"""
    from hydrodiy.stat import transform as T
    sm = T.Softmax()
    n = 0
    shapes = [(1, 1), (1, 2), (3, 4), (2, 300), (400, 3), (1, 5), (5, 1), (2, 2)]
    for k in range(ctx.scale(16, 80)):
        nrows, ncols = shapes[k % len(shapes)]
        rows = []
        for i in range(nrows):
            gap = [1.001e-9, 1e-8, 1e-6, 1e-3, 0.5, 1 - 1e-12, 10 ** rng.uniform(-8.9, 0)][(k + i) % 7]
            ent = [10 ** rng.uniform(-3, 0) for _ in range(ncols)]
            tot = sum(ent)
            row = [v / tot * (1 - gap) for v in ent]
            # a few entries at the far end (the others keep the sum)
            for j in range(ncols):
                if ncols > 1 and (i + j + k) % 3 == 0 and j != ncols - 1 - (i % ncols):
                    row[j] = rng.choice(MAGS_SMALL)
            if ncols == 1 and (k + i) % 2:
                row[0] = rng.choice(MAGS_SMALL)
            # exact gap; keep the row inside the class
            g = 1 - sum(Fraction(v) for v in row)
            if g < Fraction(LIB_LIMITS["Softmax_gapmin"]) or min(row) < 1e-300:
                row = [v * 0.5 for v in row]
            rows.append(row)
        cm.mark({"call": "Softmax (class F)", "shape": [nrows, ncols]})
        ys, err = tc.call(sm, "fwd", rows)
        rep = {"class": "Softmax", "method": "forward", "rows": rows if nrows * ncols <= 60 else rows[:2],
               "shape": [nrows, ncols], "exception": err,
               "input_class": "far ends: entries down to 1e-300, 1 - sum down to 1e-9, long rows, many rows"}
        ctx.count(("Softmax", "F", nrows, ncols))
        if ys is None:
            ctx.failure("C01/Softmax/forward-raises", rep, f"Softmax.forward raised {err} in the domain (rows "
                        f"positive, sums below 1 - 1e-9, shape {[nrows, ncols]})")
            continue
        yrows = [ys[i * ncols:(i + 1) * ncols] for i in range(nrows)]
        bs, berr = tc.call(sm, "bwd", yrows)
        if bs is None:
            ctx.failure("C01/Softmax/backward-raises", dict(rep, method="backward", exception=berr),
                        f"Softmax.backward raised {berr} on forward of a {[nrows, ncols]} matrix")
            continue
        flat = [v for r in rows for v in r]
        bad = [(i, v, b) for i, (v, b) in enumerate(zip(flat, bs)) if not abs(b - v) <= 1e-6 * abs(v)]
        if bad or len(bs) != len(flat):
            i, v, b = bad[0] if bad else (None, None, None)
            ctx.failure("C01/Softmax/roundtrip-backward-forward",
                        dict(rep, method="backward", row=rows[i // ncols] if bad else None, forward=None if not bad
                             else yrows[i // ncols], index=i, output=b),
                        f"Softmax ({[nrows, ncols]} matrix): backward(forward(x)) entry {b!r} != {v!r} (row "
                        f"{None if not bad else i // ncols}, column {None if not bad else i % ncols})")
            continue
        brows = [bs[i * ncols:(i + 1) * ncols] for i in range(nrows)]
        y2, err2 = tc.call(sm, "fwd", brows)
        bad = y2 is None or any(not abs(a - y) <= 1e-6 * max(abs(y), 1.0) for a, y in zip(y2, ys))
        if bad:
            ctx.failure("C01/Softmax/roundtrip-forward-backward",
                        dict(rep, method="forward(backward(y))", exception=err2),
                        f"Softmax ({[nrows, ncols]} matrix): forward(backward(y)) "
                        f"{'raised ' + str(err2) if y2 is None else 'differs from y by more than 1e-6'}")
        n += len(flat)
    ctx.notes["classF_softmax_entries"] = n


def _same(a, b, scale):
    """bit-identical, or within 1e-9 of the scale (a thousandth of the property's
    tolerance: a last-bit difference must not alarm, a stale value does)"""
    if a is None or b is None:
        return a is None and b is None
    if a == b or (math.isnan(a) and math.isnan(b)):
        return True
    return abs(a - b) <= 1e-9 * scale


def stateful_checks(ctx):
    """one object, a sequence of settings: after every change the object must be the
    transform of its CURRENT stored values - round trips hold, and forward/backward
    equal those of a freshly constructed object holding the same values"""
    rng = ctx.rng
    nsteps = ctx.scale(12, 40)
    nobj = 0
    for name in tc.CLASSES:
        variants = tc.ctor_variants(name, rng)
        if not tc.bounds(name, variants[0]):      # Identity, Softmax: nothing to set
            continue
        for vi, opts in enumerate(variants):
            first, steps = tc.stateful_plan(name, opts, rng, nsteps)
            cm.mark({"call": "transform (stateful)", "class": name, "opts": opts, "first": first,
                     "steps": steps})
            t, _ = tc.make(name, opts, first, via_get=vi % 2 == 1)
            history = [("construct", first)]
            nobj += 1
            for si in range(len(steps) + 1):
                if si:
                    style, changes = steps[si - 1]
                    history.append((style, changes))
                    try:
                        tc.apply_step(t, style, changes)
                    except Exception as e:      # noqa: BLE001
                        ctx.failure(f"C01/{name}/stateful-set-raises",
                                    {"class": name, "opts": opts, "history": history, "exception": repr(e)},
                                    f"{name}{opts}: {style} {changes} raised {type(e).__name__}")
                        break
                else:
                    style = "construct"
                eff = tc.stored_values(t)
                if any(math.isnan(v) for v in eff.values()):
                    continue
                base = {"class": name, "opts": opts, "history": list(history), "values": eff,
                        "input_class": "stateful: one object, parameters changed between calls"}
                fresh, eff2 = tc.make(name, opts, eff)
                if eff2 != eff:           # cannot happen for values inside the bounds; not C01's matter
                    ctx.notes["stateful_fresh_object_differs"] = ctx.notes.get("stateful_fresh_object_differs", 0) + 1
                    continue
                xs = tc.points(name, opts, eff, rng, 4)
                if name == "BoxCox2sym" and xs:      # |x| of the order of nu, both signs
                    L = tc._lnz_limit(eff["lam"])
                    xs += [s * c * eff["nu"] for c in (0.01, 0.5, 2.0) for s in (1, -1)
                           if abs(math.log((c + 1) * eff["nu"])) <= L]
                cmp_xs = xs or [0.25, 1.0, 5.0]
                # (1) same results as a fresh object with the same stored values
                yr, er = tc.call(t, "fwd", cmp_xs)
                yf, ef = tc.call(fresh, "fwd", cmp_xs)
                diff = None
                if (yr is None) != (yf is None) or er != ef:
                    diff = ("forward", cmp_xs, yr or er, yf or ef)
                elif yr is not None:
                    for x, a, b in zip(cmp_xs, yr, yf):
                        if not _same(a, b, y_scale(name, opts, eff, b) if math.isfinite(b) else 1.0):
                            diff = ("forward", x, a, b)
                            break
                    if diff is None:
                        yb = [b for b in yf if math.isfinite(b)]
                        br, ebr = tc.call(t, "bwd", yb) if yb else ([], None)
                        bf, ebf = tc.call(fresh, "bwd", yb) if yb else ([], None)
                        if (br is None) != (bf is None) or ebr != ebf:
                            diff = ("backward", yb, br or ebr, bf or ebf)
                        elif br is not None:
                            for y, a, b in zip(yb, br, bf):
                                if not _same(a, b, x_scale(name, opts, eff, b) if math.isfinite(b) else 1.0):
                                    diff = ("backward", y, a, b)
                                    break
                if diff is not None:
                    meth, arg, got, want = diff
                    ctx.failure(f"C01/{name}/stateful-{meth}-differs-from-fresh-object",
                                dict(base, method=meth, argument=arg, output=got, fresh_object_output=want),
                                f"{name}{opts} after {len(history) - 1} change(s) on one object (last: {history[-1]}) holding "
                                f"{eff}: {meth}({arg!r}) = {got!r}, a fresh object with the same values "
                                f"gives {want!r}")
                # (2) round trips on the reused object; a failure that the fresh object shows
                # too is not a matter of state: ordinary key
                if xs:
                    fails = roundtrip_failures(t, name, opts, eff, xs)
                    if fails:
                        stateless = {m for m, _, _ in roundtrip_failures(fresh, name, opts, eff, xs)}
                        for mode, rep, text in fails:
                            key = f"C01/{name}/{mode}" if mode in stateless else f"C01/{name}/stateful-{mode}"
                            ctx.failure(key, dict(base, **rep),
                                        f"{name}{opts} after {len(history) - 1} change(s) on one object (last: {history[-1]}) "
                                        f"holding {eff}: {text}")
                ctx.count((name, "stateful", style, len(history) > 1), n=len(cmp_xs))
    ctx.notes["stateful_objects"] = nobj


# ----------------------------------------------------------------------------
# censored lives (oracle only): the round trip observed at backward_censored on RE-USED
# objects.  For an increasing transform and a censor c, backward_censored(forward(x), c) is
# backward(forward(x)) floored at c, i.e. max(x, c) (Props/C01.v: C01_backward_censored; a
# censor outside the domain, where forward gives NaN, leaves the plain floored backward, which
# is max(x, c) again because such a c lies below every x of the domain - or above all of them
# for Logit).  One object lives through a sequence of settings; the steps change the constants
# only / the parameters only / one value / everything / nothing (same values assigned again,
# or no setter at all) / go back to an earlier setting, by every setter of the public API
# (the six styles of the stateful mode and a caller-owned numpy array as whole vector); each
# value is taken from the pool of branch values or moved by a factor / an offset either way
# (so that forward(censor) rises as often as it falls).  A small set of censor values stays
# the same for the whole life; after every step backward_censored is called with them: one
# censor only (the one of the previous call), or all of them in turn, in changing order, the
# same one twice in a row; censor passed as float / numpy.float64 / left to its default (0.);
# inside the domain, and outside it for the classes whose forward gives NaN there.  The points x
# straddle the censor on every scale (c +- d*s, d = 1e-3 .. 10, s the magnitude against which
# x is compared) and include ordinary points of the domain; y = forward(x) is computed by the
# object itself or by a new object holding the same values (then backward_censored is the
# first call after the change); y is passed 1-D, 2-D or in a stored representation of REPRS.
# Oracle: (1) backward_censored(forward(x), c) = max(x, c), relative 1e-6 in the measures of
# the main loop (increasing transforms: all but Log with a base below 1); (2) same result as a
# new object holding the same values (bit-identical or within the a priori bound), no
# exception, the array passed is not modified; (3) the plain round trips on the same points.

CENSOR_OFFSETS = (1e-3, 1e-2, 0.1, 0.5, 1.0, 3.0, 10.0)
FACTORS = (0.1, 0.3, 0.5, 0.9, 0.999, 1.001, 1.1, 2.0, 3.0, 10.0)
SHIFTS = (1e-3, 0.1, 1.0, 5.0)
LIFE_EXCLUDED = ("YeoJohnson", "Softmax")       # forward(<float>) raises there (cast glue, see notes)


def increasing(name, opts):
    """forward is increasing on its domain (false only for Log with a base below 1)"""
    if name == "Log":
        base = tc.full_opts(name, opts)["base"]
        return base is None or base > 1
    return True


def censor_scale(name, opts, vals, c):
    s = max(abs(c), vals["xmax"]) if name == "Manly" else x_scale(name, opts, vals, c)
    if name == "Sinh":
        s = max(s, 1.0 / vals["scale"])
    return s if s > 0 and math.isfinite(s) else 1.0


def around(name, opts, vals, c):
    """points of the conditioning region either side of c, on every scale"""
    s = censor_scale(name, opts, vals, c)
    out = []
    for d in CENSOR_OFFSETS:
        for x in (c + d * s, c - d * s):
            if x != c and in_region(name, opts, vals, x):
                out.append(float(x))
    return out


def nan_censor(name, opts, vals, c):
    """c lies outside the domain, on a side where forward is NaN by an explicit guard or by
    the logarithm / a non-integer power of a negative number (numpy semantics), with a margin,
    or EXACTLY at the end of the domain (x + nu = 0, x = lower, x = upper; forward is then
    -inf, +inf, the finite limit -1/lam or NaN): backward_censored is the plain backward
    floored at c, and c is below every x of the domain (above, for the upper end of Logit)"""
    try:
        if name == "Logit":
            d = math.exp(vals["logdelta"])
            if c == vals["lower"] or c == vals["lower"] + d:
                return True
            return c < vals["lower"] - 1e-3 * d or c > vals["lower"] + (1 + 1e-3) * d
        if name in ("Log", "BoxCox2", "BoxCox1lam", "BoxCox1nu"):
            if c + vals["nu"] == 0:
                return True
            lam = vals.get("lam", 0.0)
            if abs(lam) > tc.eps() and lam == round(lam):
                return False          # integer power of a negative number: finite
            return c + vals["nu"] < -1e-3 * max(abs(c), abs(vals["nu"]))
        if name == "Reciprocal":
            return c + vals["nu"] == 0 or c + vals["nu"] < -1e-3 * max(abs(c), abs(vals["nu"]))
        if name == "LogSinh":
            a, b = math.exp(vals["loga"]), math.exp(vals["logb"])
            return c / vals["xmax"] <= -a / b
    except (ValueError, OverflowError, ZeroDivisionError):
        return False
    return False


def outside_censors(name, opts, vals):
    """censor values outside the domain (see nan_censor)"""
    cs = []
    if name == "Logit":
        d = math.exp(vals["logdelta"])
        cs = [vals["lower"] - 0.5 * d, vals["lower"] - 10 * d - 1.0, vals["lower"] + 1.5 * d,
              vals["lower"], vals["lower"] + d]
    elif name in ("Log", "BoxCox2", "BoxCox1lam", "BoxCox1nu", "Reciprocal"):
        cs = [-vals["nu"] - 0.5 * max(vals["nu"], 1e-3), -vals["nu"] - 7.0, -vals["nu"]]
    elif name == "LogSinh":
        a, b = math.exp(vals["loga"]), math.exp(vals["logb"])
        cs = [(-a / b - 0.5) * vals["xmax"], (-2 * a / b - 3.0) * vals["xmax"], (-a / b) * vals["xmax"]]
    return [float(c) for c in cs if math.isfinite(c) and nan_censor(name, opts, vals, c)]


def censor_value_text(chow):
    return "censor " + ("as in the object's previous call of backward_censored" if chow != "new" else
                        "not used before on this object")


def censored_oracle(name, opts, vals, xs, c, got):
    """[(x, output, expected)] where backward_censored(forward(x), c) is not max(x, c)"""
    rtol = rt_rtol(name, vals)
    bad = []
    for x, g in zip(xs, got):
        want = max(x, c)
        if not abs(g - want) <= rtol * x_scale(name, opts, vals, want):
            bad.append((x, g, want))
    return bad


class CensoredLife:
    def __init__(self, ctx, rng, name, opts, via_get, twin_opts=None):
        self.ctx, self.rng, self.name, self.opts, self.via_get = ctx, rng, name, dict(opts), via_get
        self.twin_opts = dict(opts if twin_opts is None else twin_opts)
        nspecial = {"BoxCox2": 23, "BoxCox1lam": 23, "BoxCox1nu": 23, "BoxCox2sym": 23, "Manly": 17}.get(name, 8)
        self.pool = tc.param_vectors(name, opts, rng, nspecial + 6)
        self.b = tc.bounds(name, opts)
        self.roles = {r: sorted(n for n in self.b if self.b[n][0] == r) for r in ("params", "constants")}
        self.history, self.calls, self.settings = [], [], []
        self.censors = [0.0]           # the default censor of the method
        self.last = None               # censor of the previous call
        self.keep = []                 # points of the previous step

    # -- settings
    def moved(self, n, v):
        rng = self.rng
        lo, hi = self.b[n][2], self.b[n][3]
        how = rng.random()
        if how < 0.25:
            new = rng.choice(self.pool)[n]
        elif how < 0.75 and v != 0:
            new = v * rng.choice(FACTORS)
        else:
            new = v + rng.choice([1, -1]) * rng.choice(SHIFTS)
        if math.isnan(new):
            new = v
        return min(max(new, lo), hi)

    def next_changes(self, eff):
        rng = self.rng
        kinds = ["constants"] * (4 if self.roles["constants"] else 0) + ["params"] * 3 + \
            ["one", "all", "pool", "same", "none", "back"]
        kind = rng.choice(kinds) if eff else "none"
        if kind == "back" and not self.settings:
            kind = "none"
        if kind == "constants":
            ch = {n: self.moved(n, eff[n]) for n in self.roles["constants"]}
        elif kind == "params":
            ch = {n: self.moved(n, eff[n]) for n in self.roles["params"]}
        elif kind == "one":
            n = rng.choice(sorted(eff))
            ch = {n: self.moved(n, eff[n])}
        elif kind == "all":
            ch = {n: self.moved(n, eff[n]) for n in eff}
        elif kind == "pool":
            ch = dict(rng.choice(self.pool))
        elif kind == "same":
            ch = dict(eff)
        elif kind == "back":
            ch = dict(rng.choice(self.settings))
        else:
            ch = {}
        return kind, ch

    def apply(self, t, style, changes):
        if style == "values (numpy array of the caller)":
            owned = []
            for vec in (t.params, t.constants):
                vn = [str(n) for n in vec.names]
                if any(n in changes for n in vn):
                    arr = np.array([changes[n] if n in changes else float(vec[n]) for n in vn], dtype=np.float64)
                    vec.values = arr
                    owned.append(arr)
            for arr in owned:          # the caller reuses his array: the object keeps what it was given
                arr[...] = 0.625
        else:
            tc.apply_step(t, style, changes)

    # -- reporting
    def fail(self, what, stateless, text, who="the object", **rep):
        name = self.name
        eff = self.eff if who == "the object" else self.twin_eff
        key = f"C01/{name}/{what}" if stateless else f"C01/{name}/stateful-{what}"
        base = {"class": name, "opts": self.opts, "opts_of_the_second_object": self.twin_opts,
                "via_get_transform": self.via_get,
                "input_class": "censored life: one object (and a second live object of the same class), "
                               "settings changed between calls of backward_censored with recurring censor values",
                "history": list(self.history), "failing_object": who, "values": eff,
                "calls (last 12)": self.calls[-12:]}
        self.ctx.failure(key, dict(base, **rep),
                         f"{name}{self.opts if who == 'the object' else self.twin_opts} after "
                         f"{len(self.history) - 1} operation(s) on one object"
                         f"{'' if who == 'the object' else ' and a second live object (the failing one)'} (last: "
                         f"{self.history[-1]}) holding {eff}: {text}")

    # -- one call of backward_censored and its oracles
    def other_methods(self, t, xs):
        """public methods that must leave the transform as it is"""
        rng = self.rng
        which = rng.choice(["jacobian", "jacobian", "params_logprior", "params_sample", "str", "read"])
        try:
            with np.errstate(all="ignore"):
                if which == "jacobian":
                    t.jacobian(np.array(xs, dtype=np.float64))
                elif which == "params_logprior":
                    t.params_logprior()
                elif which == "params_sample":
                    state = np.random.get_state()
                    try:
                        t.params_sample(3)
                    finally:
                        np.random.set_state(state)
                elif which == "str":
                    str(t)
                else:
                    for n in tc.value_names(t):
                        float(t[n]), float(getattr(t, n))
                    np.array(t.params.values), np.array(t.constants.values)
        except Exception:      # noqa: BLE001 - not C01's matter
            pass
        return which

    def censored(self, c, xs, how_c, y_from, y_shape, who="the object"):
        name, rng = self.name, self.rng
        t, eff, opts = (self.t, self.eff, self.opts) if who == "the object" else \
            (self.twin, self.twin_eff, self.twin_opts)
        fresh, eff2 = tc.make(name, opts, eff)
        if eff2 != eff:
            return
        ys, _ = tc.call(fresh if y_from == "new object" else t, "fwd", xs)
        if ys is None:
            return                      # (reported by the round-trip oracle below)
        pairs = [(x, y) for x, y in zip(xs, ys) if math.isfinite(y)]
        if not pairs:
            return
        xs, ys = [p[0] for p in pairs], [p[1] for p in pairs]
        if y_shape == "2-D" and len(ys) % 2 == 0:
            yin = np.array(ys, dtype=np.float64).reshape(2, -1)
        elif y_shape in REPRS:
            yin = Buf(ys, y_shape).arr
        else:
            yin, y_shape = np.array(ys, dtype=np.float64), "1-D"
        before = _content(yin)
        call = {"called_on": who, "censor": c, "censor_passed_as": how_c, "x": xs, "y": ys, "y_computed_by": y_from,
                "y_passed_as": y_shape, "values": dict(eff)}
        if rng.random() < 0.25:
            call["called_just_before"] = self.other_methods(t, xs)
        self.calls.append(call)
        cm.mark({"call": "transform (censored life)", "class": name, "opts": opts, "values": eff,
                 "censor": c, "x": xs})

        def run(obj, arr):
            with np.errstate(all="ignore"):
                if how_c == "default":
                    return _flat(obj.backward_censored(arr))
                return _flat(obj.backward_censored(arr, np.float64(c) if how_c == "numpy.float64" else float(c)))
        try:
            ref, rerr = run(fresh, np.array(ys, dtype=np.float64)), None
        except Exception as e:      # noqa: BLE001
            ref, rerr = None, type(e).__name__
        try:
            got = run(t, yin)
        except Exception as e:      # noqa: BLE001
            self.fail("backward_censored-raises", rerr is not None,
                      f"backward_censored(forward({xs!r}), {c!r}) raised {type(e).__name__}",
                      who=who, method="backward_censored", exception=repr(e), **call)
            return
        call["output"] = got
        if _content(yin) != before:
            self.fail("backward_censored-modifies-its-input", False,
                      f"backward_censored changed the array it was given: {ys!r} -> {_flat(yin)!r}",
                      who=who, method="backward_censored", **call)
        if len(got) != len(xs):
            self.fail("backward_censored-differs-from-fresh-object", False,
                      f"backward_censored of {len(xs)} values returned {len(got)}", who=who,
                      method="backward_censored", **call)
            return
        region = in_accuracy_region(name, eff)
        self.ctx.count((name, "life", who, self.step_kind, how_c, y_from, y_shape,
                        "nan-censor" if nan_censor(name, opts, eff, c) else "censor-in-domain",
                        any(x < c for x in xs), any(x > c for x in xs)), n=len(xs))
        # (1) the property's clause: max(x, c)
        if increasing(name, opts) and region:
            bad = censored_oracle(name, opts, eff, xs, c, got)
            if bad:
                stateless = ref is not None and len(ref) == len(xs) and \
                    bool(censored_oracle(name, opts, eff, xs, c, ref))
                x, g, want = bad[0]
                self.fail("backward_censored-roundtrip", stateless,
                          f"backward_censored(forward({x!r}), censor={c!r}) = {g!r}, expected max(x, censor) = "
                          f"{want!r} ({len(bad)} of {len(xs)} points wrong" +
                          ("" if stateless else "; a new object holding the same values is right") + ")",
                          who=who, method="backward_censored", x_failing=x, expected=want, reference_output=ref,
                          **call)
                return
        # (2) independence of the history: a new object holding the same values
        if ref is None or len(ref) != len(got):
            return
        try:
            with np.errstate(all="ignore"):
                tcen = float(fresh.forward(float(c)))
        except Exception:      # noqa: BLE001
            return
        rtol = rt_rtol(name, eff)
        for x, y, g, want in zip(xs, ys, got, ref):
            if _same(g, want, x_scale(name, opts, eff, want) if math.isfinite(want) else 1.0):
                continue
            ok = False
            if math.isfinite(g) and math.isfinite(want):
                yc = y if math.isnan(tcen) else max(y, tcen)
                tb = tc.tolerance(name, "bwd", opts, eff, yc, want)
                if tb is None:
                    continue
                tol = 4 * tb + 1e-9 * max(1.0, abs(want))
                if math.isfinite(tcen) and y <= tcen + 1e-6 * max(1.0, abs(tcen)):
                    tol += 2 * rtol * x_scale(name, opts, eff, c)
                ok = abs(g - want) <= tol
            if not ok:
                self.fail("backward_censored-differs-from-fresh-object", False,
                          f"backward_censored(forward({xs!r}), censor={c!r}) = {got!r}; a new object holding the "
                          f"same values gives {ref!r}", who=who, method="backward_censored", reference_output=ref,
                          **call)
                break

    def twin_call(self, c):
        """a second live object of the same class takes the values of the first but for the
        constants / the parameters / one value / nothing, and is called with the censor the
        first is about to be called with"""
        name, opts, rng = self.name, self.twin_opts, self.rng
        kind = rng.choice((["constants"] * 3 if self.roles["constants"] else []) + ["params", "one", "equal"] +
                          (["equal"] * 2 if self.twin_opts != self.opts else []))
        target = dict(self.eff)
        for n in {"constants": self.roles["constants"], "params": self.roles["params"],
                  "one": [rng.choice(sorted(target))], "equal": []}[kind]:
            target[n] = self.moved(n, target[n])
        style = rng.choice([s for s in tc.STYLES if s != "reset"] + ["values (numpy array of the caller)"])
        self.history.append((f"second object: {style}", target))
        try:
            self.apply(self.twin, style, target)
        except Exception:      # noqa: BLE001 - setters are exercised on the first object
            return 0
        self.twin_eff = teff = tc.stored_values(self.twin)
        if any(math.isnan(v) for v in teff.values()):
            return 0
        if not (in_region(name, opts, teff, c) or nan_censor(name, opts, teff, c)):
            return 0
        xs = around(name, opts, teff, c) + [x for x in tc.points(name, opts, teff, rng, 3) if in_region(name, opts, teff, x)]
        if in_region(name, opts, teff, c):
            xs.append(c)
        xs = list(dict.fromkeys(xs))
        if not xs:
            return 0
        rng.shuffle(xs)
        self.censored(c, xs[:14], "float", "the object" if rng.random() < 0.7 else "new object", "1-D",
                      who="the second object")
        return 1

    def pick_censors(self):
        """the censors of the life that are usable under the current setting (inside the
        conditioning region, or outside the domain where forward is NaN); new ones join when
        fewer than two are left"""
        name, opts, eff, rng = self.name, self.opts, self.eff, self.rng
        live = [c for c in self.censors if in_region(name, opts, eff, c) or nan_censor(name, opts, eff, c)]
        if len([c for c in live if in_region(name, opts, eff, c)]) < 2:
            cand = [x for x in tc.points(name, opts, eff, rng, 4) if in_region(name, opts, eff, x) and x not in live]
            if cand:
                c = rng.choice(cand)
                self.censors.append(c)
                live.append(c)
        if not any(nan_censor(name, opts, eff, c) for c in live) and rng.random() < 0.5:
            out = outside_censors(name, opts, eff)
            if out:
                c = rng.choice(out)
                self.censors.append(c)
                live.append(c)
        if len(self.censors) > 6:       # the oldest that is not usable now leaves
            for c in self.censors:
                if c not in live:
                    self.censors.remove(c)
                    break
            else:
                self.censors.pop(1)
                live = [c for c in live if c in self.censors]
        return live

    def run(self, nsteps):
        name, opts, rng = self.name, self.opts, self.rng
        first = None
        for _ in range(20):
            v = dict(rng.choice(self.pool))
            if not v or tc.points(name, opts, tc.make(name, opts, v)[1], rng, 2):
                first = v
                break
        if first is None:
            return 0
        self.t, self.eff = tc.make(name, opts, first, via_get=self.via_get)
        self.twin, self.twin_eff = tc.make(name, self.twin_opts, first, via_get=not self.via_get)
        self.history.append(("construct", first))
        self.step_kind = "construct"
        ncalls = 0
        for si in range(nsteps + 1):
            if si:
                kind, changes = self.next_changes(self.eff)
                style = rng.choice(tc.STYLES + ("values (numpy array of the caller)",)) if changes else "no setter"
                if kind in ("same", "none", "back", "pool") and style == "reset":
                    style = "values"
                self.history.append((style, {} if style == "reset" else changes))
                self.step_kind = "reset" if style == "reset" else kind
                try:
                    if changes or style == "reset":
                        self.apply(self.t, style, changes)
                except Exception as e:      # noqa: BLE001
                    self.eff = tc.stored_values(self.t)
                    self.fail("set-raises", False, f"{style} {changes} raised {type(e).__name__}", exception=repr(e))
                    return ncalls
            self.eff = eff = tc.stored_values(self.t)
            if any(math.isnan(v) for v in eff.values()):
                continue
            self.settings.append(dict(eff))
            live = self.pick_censors()
            if not live:
                continue
            # one censor only (the one of the previous call when it is still usable), or all
            # of them in a new order, one of them twice in a row
            mode = rng.random()
            if mode < 0.45 and self.last in live:
                todo = [self.last]
            elif mode < 0.6:
                todo = [rng.choice(live)]
            else:
                todo = list(live)
                rng.shuffle(todo)
                if self.last in todo and rng.random() < 0.5:
                    todo.remove(self.last)
                    todo.insert(0, self.last)
                if rng.random() < 0.3:
                    todo.append(todo[-1])
            base_pts = [x for x in tc.points(name, opts, eff, rng, 3) if in_region(name, opts, eff, x)]
            kept = [x for x in self.keep if in_region(name, opts, eff, x)]
            allx = []
            for ci, c in enumerate(todo):
                if ci == 0 and eff and rng.random() < (0.35 if self.twin_opts == self.opts else 0.6):
                    ncalls += self.twin_call(c)
                xs = around(name, opts, eff, c) + base_pts + kept[:4]
                if in_region(name, opts, eff, c):
                    xs.append(c)
                xs = list(dict.fromkeys(xs))
                if not xs:
                    continue
                rng.shuffle(xs)
                xs = xs[:14]
                how_c = "default" if c == 0.0 and rng.random() < 0.5 else rng.choice(["float", "float", "numpy.float64"])
                y_from = "the object" if rng.random() < 0.7 else "new object"
                y_shape = rng.choice(["1-D"] * 4 + ["2-D"] + list(REPRS[1:]))
                self.censored(c, xs, how_c, y_from, y_shape)
                self.last = c
                ncalls += 1
                allx += xs
            # (3) the plain round trips on the re-used object
            if allx:
                rt = list(dict.fromkeys(allx))[:8]
                fails = roundtrip_failures(self.t, name, opts, eff, rt)
                if fails:
                    fresh, eff2 = tc.make(name, opts, eff)
                    stateless = {m for m, _, _ in roundtrip_failures(fresh, name, opts, eff, rt)} if eff2 == eff else set()
                    for mode_, rep, text in fails:
                        self.fail(mode_, mode_ in stateless, text, **rep)
                self.keep = allx[-6:]
        return ncalls


def censored_life_checks(ctx):
    import random
    rng = random.Random(f"{PID}:censored-lives:{ctx.seed}")
    nsteps = ctx.scale(16, 40)
    nlives, ncalls = 0, 0
    for name in tc.CLASSES:
        if name in LIFE_EXCLUDED:
            continue
        variants = tc.ctor_variants(name, rng)
        has_const = any(v[0] == "constants" for v in tc.bounds(name, variants[0]).values())
        chosen = [variants[0]] + (variants[1:] if ctx.thorough else
                                  rng.sample(variants[1:], min(2, len(variants) - 1)))
        for vi, opts in enumerate(chosen):
            for li in range(ctx.scale(3 if has_const else 1, 6 if has_const else 2)):
                with _SessionBounds(ctx, [(name, v) for v in variants]):
                    # (constructor options that enter forward itself: the base of Log)
                    other = rng.choice(variants) if li % 2 == 1 or name == "Log" else opts
                    life = CensoredLife(ctx, rng, name, opts, via_get=(vi + li) % 3 == 2, twin_opts=other)
                    ncalls += life.run(nsteps if tc.bounds(name, opts) else 4)
                nlives += 1
    ctx.notes["censored_lives"] = nlives
    ctx.notes["censored_life_calls"] = ncalls


def shape_checks(ctx):
    """public methods return the input's type/shape and the element-wise values"""
    from hydrodiy.stat import transform as T
    rng = ctx.rng
    for name in tc.CLASSES:
        if name == "Softmax":
            continue
        opts = {}
        vals = vec_k(name, opts, rng, 6)
        t, eff = tc.make(name, opts, vals)
        xs = tc.points(name, opts, eff, rng, 6)
        if len(xs) < 6:
            continue
        ref, _ = tc.call(t, "fwd", xs)
        if ref is None:
            continue
        rep = {"class": name, "values": eff, "x": xs}
        try:
            with np.errstate(all="ignore"):
                y2 = t.forward(np.array(xs).reshape(2, 3))
                ok = isinstance(y2, np.ndarray) and y2.shape == (2, 3) and \
                    np.allclose(y2.ravel(), ref, rtol=1e-12, atol=0, equal_nan=True)
                if not ok:
                    ctx.failure(f"C01/{name}/cast-2d", rep, f"{name}.forward of a 2-D array is not "
                                "the element-wise forward with the input's shape")
                b2 = t.backward(y2)
                if not (isinstance(b2, np.ndarray) and b2.shape == (2, 3)):
                    ctx.failure(f"C01/{name}/cast-2d", rep, f"{name}.backward loses the 2-D shape")
                if name != "YeoJohnson":     # _forward of YeoJohnson works on atleast_1d copies
                    ys = t.forward(float(xs[1]))
                    if not (isinstance(ys, float) and (ys == ref[1] or abs(ys - ref[1]) <= 1e-12 * abs(ref[1]))):
                        ctx.failure(f"C01/{name}/cast-scalar", rep,
                                    f"{name}.forward(float) = {ys!r}, element-wise value {ref[1]!r}")
        except Exception as e:      # noqa: BLE001
            ctx.failure(f"C01/{name}/cast-raises", dict(rep, exception=repr(e)),
                        f"{name}: forward/backward of a 2-D float64 array or a float raised {type(e).__name__}")
        ctx.count((name, "cast"))


# ----------------------------------------------------------------------------
# sessions (oracle only): STATE, IDENTITY and STORED REPRESENTATION.
#
# The property quantifies over every transform object holding an admissible setting and
# every float64 array of its domain; it does not care how the object came to hold the
# setting, which other transform objects exist, which calls were made before, nor how the
# float64 array is laid out in memory.  A session keeps SEVERAL transform objects alive at
# once (same class, same constructor options - built directly and by get_transform - and,
# for the Box-Cox family, the classes that delegate to an inner BoxCox2), each with its own
# setting and its own input array OBJECT, and interleaves on them: forward / backward /
# backward_censored (backward receives the very object forward returned, or its values in
# another representation), a parameter change (the six styles of the stateful mode), the
# replacement of an object by a new one, an in-place change of the contents of an input
# array by its owner, an in-place change of a returned array by its owner, of a numpy array
# that was assigned as the whole parameter vector.  backward is also called as the FIRST call
# after an object was built or its setting changed (y computed by an equal transform).
# Input arrays are float64 in one of the stored representations of REPRS (C-contiguous,
# strided view, negative stride, read-only view, slice of a larger array, non-native byte
# order); Softmax matrices in those of REPRS2.
# Oracle after every call, for the object's intended setting W (what was read back right
# after the setting was made) and the CURRENT contents v of the array passed:
#   * the call does not raise and does not modify the array it was given;
#   * the result equals that of a newly built object set to W on a new C-contiguous native
#     float64 copy of v (bit-identical, or within twice the a priori forward-error bound
#     of the float algorithm: SIMD and strided loops of numpy may differ in the last bits);
#   * backward(forward(x)) = x and forward(backward(y)) = y (relative 1e-6, same error
#     measures as the main loop), whatever happened between the two calls.
# Nothing is asserted about the type / byte order / layout of the result, nor about
# whether the result shares memory with the input.

NPT = 4
REPRS = ("contiguous", "strided", "reversed", "readonly", "offset", "byteswapped")
REPRS2 = ("C", "F", "transposed", "rows-sliced", "cols-sliced", "flipped", "readonly", "byteswapped")
_SWAPPED = np.dtype(np.float64).newbyteorder()


class Buf:
    """a float64 array holding `values` in a stored representation; `base` is the
    owner's writable handle on the same memory (in-place changes by the owner)"""

    def __init__(self, values, kind):
        v = np.array(values, dtype=np.float64)
        self.kind = kind
        if v.ndim == 1:
            n = v.shape[0]
            if kind == "contiguous":
                self.base = self.arr = v
            elif kind == "strided":                 # every third element of a larger array
                big = np.full(3 * n + 2, -7.5e300)
                self.base = self.arr = big[1:1 + 3 * n:3]
                self.base[:] = v
            elif kind == "reversed":                # negative stride
                self.base = self.arr = v[::-1].copy()[::-1]
            elif kind == "readonly":                # read-only view (what pandas .values gives)
                self.base = v
                self.arr = v.view()
                self.arr.setflags(write=False)
            elif kind == "offset":                  # slice of a larger contiguous array
                big = np.full(n + 5, 3.25e200)
                self.base = self.arr = big[3:3 + n]
                self.base[:] = v
            elif kind == "byteswapped":             # float64, non-native byte order
                self.base = self.arr = v.astype(_SWAPPED)
            else:
                raise KeyError(kind)
        else:
            r, c = v.shape
            if kind == "C":
                self.base = self.arr = v
            elif kind == "F":
                self.base = self.arr = np.asfortranarray(v)
            elif kind == "transposed":
                self.base = self.arr = v.T.copy().T
            elif kind == "rows-sliced":
                big = np.full((2 * r + 1, c), 0.75)
                self.base = self.arr = big[1:1 + 2 * r:2]
                self.base[...] = v
            elif kind == "cols-sliced":
                big = np.full((r, 2 * c + 1), 0.75)
                self.base = self.arr = big[:, 1:1 + 2 * c:2]
                self.base[...] = v
            elif kind == "flipped":
                self.base = self.arr = v[::-1, ::-1].copy()[::-1, ::-1]
            elif kind == "readonly":
                self.base = v
                self.arr = v.view()
                self.arr.setflags(write=False)
            elif kind == "byteswapped":
                self.base = self.arr = v.astype(_SWAPPED)
            else:
                raise KeyError(kind)

    def values(self):
        return np.array(self.arr, dtype=np.float64).tolist()

    def poke(self, values):
        self.base[...] = np.array(values, dtype=np.float64)

    def describe(self):
        a = self.arr
        return {"representation": self.kind, "dtype": a.dtype.str, "shape": list(a.shape),
                "strides": list(a.strides), "writeable": bool(a.flags.writeable),
                "values": self.values()}


def _flat(out):
    """values of a result as Python floats (C order of the logical array)"""
    return [float(v) for v in np.array(out, dtype=np.float64).ravel()]


def _content(a):
    """bytes of the logical contents (C order), to detect a modification"""
    return np.asarray(a).tobytes()


def in_region(name, opts, vals, x):
    """x lies in the domain and in the conditioning region in which transform_common.points
    draws its points for the setting `vals` (same acceptance tests, same ranges)"""
    try:
        if not math.isfinite(x):
            return False
        if name == "Identity":
            return abs(x) <= 1e5
        if name == "Logit":
            d = math.exp(vals["logdelta"])
            vv = (x - vals["lower"]) / d
            return 1e-4 <= vv <= 1 - 1e-4 and abs(vals["lower"]) <= 1e6 * d
        if name in ("Log", "BoxCox2", "BoxCox1lam", "BoxCox1nu"):
            L = tc._lnz_limit(vals.get("lam", 0.0))
            zz = x + vals["nu"]
            return zz > 0 and abs(math.log(zz)) <= L and max(abs(x), abs(vals["nu"])) <= 1e6 * zz
        if name == "BoxCox2sym":
            L = tc._lnz_limit(vals["lam"])
            zz = abs(x) + vals["nu"]
            return zz > 0 and abs(math.log(zz)) <= L and abs(math.log(vals["nu"])) <= L
        if name == "YeoJohnson":
            ww = vals["nu"] + x * vals["scale"]
            L = tc._lnz_limit(vals["lam"] if ww >= tc.eps() else 2 - vals["lam"])
            if abs(math.log1p(abs(ww))) > L or 0 < ww < 1e3 * tc.eps():
                return False
            if ww != 0 and abs(ww) < 1e-9:
                return False
            return max(abs(vals["nu"]), abs(x * vals["scale"])) <= 1e6 * max(abs(ww), 1e-3)
        if name == "LogSinh":
            a, b = math.exp(vals["loga"]), math.exp(vals["logb"])
            xn = x / vals["xmax"]
            ww = a + b * xn
            return 1e-4 <= ww <= 30 and max(a, abs(b * xn)) <= 1e6 * ww
        if name == "Reciprocal":
            zz = vals["nu"] + x
            return 1e-6 <= zz <= 1e6 and max(abs(x), abs(vals["nu"])) <= 1e6 * zz
        if name == "Sinh":
            uu = (x - vals["nu"]) * vals["scale"]
            if not (uu == 0 or 1e-6 <= abs(uu) <= 1e6):
                return False
            return max(abs(x), abs(vals["nu"])) * vals["scale"] <= 1e6 * max(abs(uu), 1e-3)
        if name == "Manly":
            u = x / vals["xmax"]
            lam = vals["lam"]
            lim = min(1e3, tc.LNMAX / abs(lam)) if lam != 0 else 1e3
            return (u == 0 or 1e-6 <= abs(u) <= lim) and abs(lam * u) <= tc.LNMAX
    except (ValueError, OverflowError, ZeroDivisionError):
        return False
    raise KeyError(name)


def live_bounds(name, opts):
    """{name: (role, default, min, max)} read from a live object"""
    from hydrodiy.stat import transform as T
    t = getattr(T, name)(**opts)
    out = {}
    for role, vec in (("params", t.params), ("constants", t.constants)):
        for i, n in enumerate(vec.names):
            out[str(n)] = (role, float(vec.defaults[i]), float(vec.mins[i]), float(vec.maxs[i]))
    return out


def _same_bounds(a, b):
    if a is None or set(a) != set(b):
        return False
    for n in a:
        if a[n][0] != b[n][0]:
            return False
        for u, v in zip(a[n][1:], b[n][1:]):
            if not (u == v or (math.isnan(u) and math.isnan(v))):
                return False
    return True


class _SessionBounds:
    """the generators of transform_common read the bounds from the tables extracted from the
    source.  Where these differ from the live objects (reported by check_tables as a broken
    tie, without an input) the sessions use the live bounds, so that they still run and can
    show a concrete input."""

    def __init__(self, ctx, members):
        self.ctx, self.members, self.live = ctx, members, {}

    def __enter__(self):
        for name, opts in self.members:
            try:
                ext = tc.bounds(name, opts)
            except Exception:      # noqa: BLE001
                ext = None
            lb = live_bounds(name, opts)
            if not _same_bounds(ext, lb):
                self.live[(name, tuple(sorted(opts.items())))] = lb
        self.orig = tc.bounds
        if self.live:
            self.ctx.notes["sessions_on_live_bounds"] = sorted({k[0] for k in self.live} |
                                                              set(self.ctx.notes.get("sessions_on_live_bounds", [])))
            orig, live = self.orig, self.live

            def bounds(name, opts):
                k = (name, tuple(sorted(opts.items())))
                return live[k] if k in live else orig(name, opts)
            tc.bounds = bounds
        return self

    def __exit__(self, *exc):
        tc.bounds = self.orig
        return False


class Actor:
    """one live transform object of a session with its intended setting, its input
    array and the arrays the calls returned"""

    def __init__(self, idx, name, opts, vecs):
        self.idx, self.name, self.opts, self.vecs = idx, name, dict(opts), vecs
        self.t = self.want = self.buf = self.how = None
        self.Y = self.Yvals = self.Yx = self.B = None
        self.censor = None

    def describe(self):
        return {"object": self.idx, "class": self.name, "opts": self.opts, "built": self.how,
                "values": self.want, "input": None if self.buf is None else self.buf.describe()}


class Session:
    def __init__(self, ctx, rng, label, members):
        self.ctx, self.rng, self.label = ctx, rng, label
        self.history = []
        self.actors = []
        for i, (name, opts) in enumerate(members):
            nspecial = {"BoxCox2": 23, "BoxCox1lam": 23, "BoxCox1nu": 23, "BoxCox2sym": 23,
                        "YeoJohnson": 27, "Manly": 17}.get(name, 8)
            vecs = tc.param_vectors(name, opts, rng, nspecial + 6)
            self.actors.append(Actor(i, name, opts, vecs))

    # -- reporting
    def fail(self, a, what, text, **rep):
        base = {"input_class": "session: several live objects, calls interleaved, array objects "
                               "reused, stored representations", "session": self.label,
                "objects": [b.describe() for b in self.actors if b.t is not None],
                "history (last 40 operations)": self.history[-40:], "object": a.idx}
        plain = what in ("roundtrip-backward-forward", "roundtrip-forward-backward")
        key = f"C01/{a.name}/{what}" if plain else f"C01/{a.name}/session-{what}"
        self.ctx.failure(key, dict(base, **rep),
                         f"{a.name}{a.opts} holding {a.want} (object {a.idx} of session '{self.label}', "
                         f"{len(self.history)} operations; input array: "
                         f"{a.buf.kind if a.buf is not None else None}): {text}")

    def log(self, a, op, **kw):
        self.history.append(dict({"op": op, "object": a.idx}, **kw))

    # -- reference: a new object holding W, on new C-contiguous native arrays
    def reference(self, a):
        t, eff = tc.make(a.name, a.opts, a.want)
        return t if eff == a.want else None

    def close(self, a, method, arg, got, ref, scale, factor=2.0):
        if _same(got, ref, scale):
            return True
        if got is None or ref is None or not (math.isfinite(got) and math.isfinite(ref)):
            return False
        tol = tc.tolerance(a.name, method, a.opts, a.want, arg, ref)
        return tol is not None and abs(got - ref) <= factor * tol

    # -- building blocks
    def usable(self, a):
        return a.t is not None and a.want is not None and a.buf is not None and \
            not any(math.isnan(v) for v in a.want.values())

    def fill(self, a, keep=False):
        """give the object's owner in-domain points for the current setting: kept (array
        untouched) when `keep` and all current values are still inside the region, written
        IN PLACE into the same array object when the number of points allows, else a new array"""
        if any(math.isnan(v) for v in a.want.values()):
            a.buf = None
            return "none"
        if keep and a.buf is not None and all(in_region(a.name, a.opts, a.want, x) for x in a.buf.values()):
            return "kept"
        xs = tc.points(a.name, a.opts, a.want, self.rng, NPT)
        if a.name == "BoxCox2sym" and xs and self.rng.random() < 0.5:      # |x| of the order of nu, both signs
            L = tc._lnz_limit(a.want["lam"])
            c = self.rng.choice([0.01, 0.5, 2.0])
            if abs(math.log((c + 1) * a.want["nu"])) <= L:
                xs[-1] = self.rng.choice([1, -1]) * c * a.want["nu"]
        if not xs:
            a.buf = None
            return "none"
        if a.buf is not None and len(a.buf.values()) == len(xs) and self.rng.random() < 0.8:
            a.buf.poke(xs)
            return "in-place"
        a.buf = Buf(xs, self.rng.choice(REPRS))
        return "new-array"

    def build(self, a):
        """(re)place the object by a newly built one with a setting of the pool"""
        rng = self.rng
        for _ in range(6):
            vals = dict(rng.choice(a.vecs))
            a.how = rng.choice(["constructor", "get_transform"])
            a.t, a.want = tc.make(a.name, a.opts, vals, via_get=a.how == "get_transform")
            a.Y = a.Yvals = a.Yx = a.B = None
            a.buf = None
            a.censor = None
            if self.fill(a) != "none":
                break
        self.log(a, "build", how=a.how, values=a.want)

    def op_set(self, a):
        names = tc.value_names(a.t)
        if not names:
            return
        rng = self.rng
        style = rng.choice(tc.STYLES)
        target = dict(rng.choice(a.vecs))
        if style not in ("reset", "values") and len(target) > 1 and rng.random() < 0.6:
            k = sorted(target)[rng.randrange(len(target))]
            target = {k: target[k]}
        if style == "reset":
            target = {}
        owned = []
        try:
            if style == "values" and rng.random() < 0.5:
                # the whole vector given as a float64 numpy array that belongs to the caller ...
                style = "values (numpy array of the caller)"
                for vec in (a.t.params, a.t.constants):
                    vn = [str(n) for n in vec.names]
                    if any(n in target for n in vn):
                        arr = np.array([target[n] if n in target else float(vec[n]) for n in vn], dtype=np.float64)
                        vec.values = arr
                        owned.append((vn, arr))
            else:
                tc.apply_step(a.t, style, target)
        except Exception as e:      # noqa: BLE001
            self.log(a, "set", style=style, changes=target)
            self.fail(a, "set-raises", f"{style} {target} raised {type(e).__name__}", exception=repr(e))
            self.build(a)
            return
        a.want = tc.stored_values(a.t)
        a.Y = a.Yvals = a.Yx = a.B = None
        for vn, arr in owned:
            # ... who then reuses it for something else: the object keeps the setting it was given
            other = rng.choice(a.vecs)
            arr[...] = [other.get(n, 0.5) if not math.isnan(other.get(n, 0.5)) else 0.5 for n in vn]
        how = self.fill(a, keep=True)
        self.log(a, "set", style=style, changes=target, values=a.want, input=how)
        self.ctx.count((a.name, "session", "set", how))

    def op_forward(self, a, again=False):
        if not self.usable(a):
            return False
        ctx = self.ctx
        snap = a.buf.values()
        before = _content(a.buf.arr)
        self.log(a, "forward", input=a.buf.kind, x=snap)
        try:
            with np.errstate(all="ignore"):
                out = a.t.forward(a.buf.arr)
            ovals = _flat(out)
        except Exception as e:      # noqa: BLE001
            ref = self.reference(a)
            r, rerr = tc.call(ref, "fwd", snap) if ref is not None else (None, None)
            if r is not None or ref is None:
                self.fail(a, "forward-raises", f"forward of the {a.buf.kind} float64 array {snap!r} raised "
                          f"{type(e).__name__}; a new object on a new C-contiguous copy does not",
                          method="forward", x=snap, array=a.buf.describe(), exception=repr(e))
            else:
                self.fail(a, "forward-raises-in-domain", f"forward({snap!r}) raised {type(e).__name__} inside "
                          f"the domain", method="forward", x=snap, exception=repr(e))
            a.Y = a.Yvals = a.Yx = None
            return False
        if _content(a.buf.arr) != before:
            self.fail(a, "forward-modifies-its-input", f"forward changed the array it was given: {snap!r} "
                      f"-> {a.buf.values()!r}", method="forward", x=snap, array_after=a.buf.values())
            a.buf.poke(snap)
        ref = self.reference(a)
        if ref is not None:
            r, rerr = tc.call(ref, "fwd", snap)
            if r is None or len(r) != len(ovals):
                if r is not None:
                    self.fail(a, "forward-differs", f"forward({snap!r}) has {len(ovals)} values",
                              method="forward", x=snap, output=ovals, reference_output=r)
            else:
                for x, got, want in zip(snap, ovals, r):
                    sc = y_scale(a.name, a.opts, a.want, want) if math.isfinite(want) else 1.0
                    if not self.close(a, "fwd", x, got, want, sc):
                        self.fail(a, "forward-differs",
                                  f"forward of the {a.buf.kind} float64 array {snap!r} = {ovals!r}; a new object "
                                  f"with the same values on a new C-contiguous copy gives {r!r}",
                                  method="forward", x=snap, array=a.buf.describe(), output=ovals,
                                  reference_output=r)
                        break
        a.Y, a.Yvals, a.Yx = out, ovals, snap
        ctx.count((a.name, "session", "forward", a.buf.kind, again), n=len(snap))
        return True

    def _y_argument(self, a):
        """the array handed to backward: the very object forward returned, or its values
        in another stored representation"""
        if isinstance(a.Y, np.ndarray) and self.rng.random() < 0.6 and \
                np.array_equal(np.array(a.Y, dtype=np.float64).ravel(), np.array(a.Yvals), equal_nan=True):
            # (an array that no longer holds what forward returned - it shares memory with something
            # changed since - is not passed on: nothing is asserted about results sharing memory)
            return a.Y, "as-returned"
        kind = self.rng.choice(REPRS)
        return Buf(a.Yvals, kind).arr, kind

    def image_from_equal_transform(self, a):
        """y = forward(x) computed by ANOTHER object holding the same setting (a new one, on a
        C-contiguous copy): the object under test then meets backward before any forward since
        it was built / since its setting was changed"""
        ref = self.reference(a)
        if ref is None:
            return False
        snap = a.buf.values()
        r, _ = tc.call(ref, "fwd", snap)
        if r is None:
            return False
        a.Y, a.Yvals, a.Yx = None, r, snap
        self.log(a, "y = forward(x) by another object with the same values", x=snap, y=r)
        return True

    def op_backward(self, a):
        if not self.usable(a):
            return
        if a.Yvals is None:
            if not (self.image_from_equal_transform(a) if self.rng.random() < 0.5 else self.op_forward(a)):
                return
        if a.Yvals is None or not all(math.isfinite(y) for y in a.Yvals):
            return
        ctx = self.ctx
        yin, ykind = self._y_argument(a)
        before = _content(yin)
        ys, xs0 = list(a.Yvals), list(a.Yx)
        self.log(a, "backward", input=ykind, y=ys)
        try:
            with np.errstate(all="ignore"):
                out = a.t.backward(yin)
            bvals = _flat(out)
        except Exception as e:      # noqa: BLE001
            self.fail(a, "backward-raises", f"backward of the ({ykind}) float64 array {ys!r} = forward({xs0!r}) "
                      f"raised {type(e).__name__}", method="backward", y=ys, x=xs0, exception=repr(e))
            return
        if _content(yin) != before:
            self.fail(a, "backward-modifies-its-input", f"backward changed the array it was given: {ys!r} -> "
                      f"{_flat(yin)!r}", method="backward", y=ys, array_after=_flat(yin))
            a.Y = a.Yvals = a.Yx = None
        ref = self.reference(a)
        if ref is None or len(bvals) != len(ys):
            if ref is not None:
                self.fail(a, "backward-differs", f"backward({ys!r}) has {len(bvals)} values", method="backward",
                          y=ys, output=bvals)
            return
        r, rerr = tc.call(ref, "bwd", ys)
        if r is not None:
            for y, got, want in zip(ys, bvals, r):
                sc = x_scale(a.name, a.opts, a.want, want) if math.isfinite(want) else 1.0
                if not self.close(a, "bwd", y, got, want, sc):
                    self.fail(a, "backward-differs",
                              f"backward of the ({ykind}) float64 array {ys!r} = {bvals!r}; a new object with the "
                              f"same values on a new C-contiguous copy gives {r!r}", method="backward", y=ys,
                              output=bvals, reference_output=r)
                    break
        a.B = out
        ctx.count((a.name, "session", "backward", ykind), n=len(ys))
        if not in_accuracy_region(a.name, a.want):
            return
        # round trips, whatever happened since forward was called
        rtol = rt_rtol(a.name, a.want)
        bad = [(x, b) for x, b in zip(xs0, bvals)
               if not abs(b - x) <= rtol * x_scale(a.name, a.opts, a.want, x)]
        if bad:
            stateless = True
            if r is not None:
                stateless = any(not abs(b - x) <= rtol * x_scale(a.name, a.opts, a.want, x)
                                for x, b in zip(xs0, r))
                f0, _ = tc.call(ref, "fwd", xs0)
                stateless = stateless and f0 is not None and all(_same(u, v, 1.0) for u, v in zip(f0, ys))
            x, b = bad[0]
            self.fail(a, "roundtrip-backward-forward" if stateless else "roundtrip-backward-forward-broken",
                      f"backward(forward({x!r})) = {b!r}", method="backward", x=x, y=ys, output=b)
        if all(math.isfinite(b) for b in bvals) and isinstance(out, np.ndarray):
            try:
                with np.errstate(all="ignore"):
                    y2 = _flat(a.t.forward(out))      # the object backward returned, passed on as it is
            except Exception as e:      # noqa: BLE001
                self.fail(a, "forward-of-backward-raises", f"forward(backward({ys!r})) raised {type(e).__name__}",
                          method="forward(backward(y))", y=ys, x=bvals, exception=repr(e))
                return
            self.log(a, "forward", input="as-returned-by-backward", x=bvals)
            for y, v in zip(ys, y2):
                if not abs(v - y) <= rtol * y_scale(a.name, a.opts, a.want, y):
                    f2, _ = tc.call(ref, "fwd", bvals)
                    stateless = f2 is not None and any(
                        not abs(v2 - y_) <= rtol * y_scale(a.name, a.opts, a.want, y_) for y_, v2 in zip(ys, f2))
                    self.fail(a, "roundtrip-forward-backward" if stateless else "roundtrip-forward-backward-broken",
                              f"forward(backward({y!r})) = {v!r}", method="forward(backward(y))", y=y, x=bvals,
                              output=v)
                    break
            ctx.count((a.name, "session", "forward-of-backward"), n=len(ys))

    def op_censored(self, a):
        if a.name in ("YeoJohnson", "Softmax") or not self.usable(a):      # (cast glue of a scalar: see notes)
            return
        if a.Yvals is None and not self.op_forward(a):
            return
        if a.Yvals is None or not all(math.isfinite(y) for y in a.Yvals):
            return
        ys, xs0 = list(a.Yvals), list(a.Yx)
        # the censor of the object's previous call of backward_censored (whatever was set or
        # called since) while it is still inside the region, else one of the current points
        if a.censor is not None and self.rng.random() < 0.7 and in_region(a.name, a.opts, a.want, a.censor):
            censor, chow = a.censor, "as in the previous call"
        else:
            censor, chow = xs0[self.rng.randrange(len(xs0))], "new"
        a.censor = censor
        yin, ykind = self._y_argument(a)
        before = _content(yin)
        self.log(a, "backward_censored", input=ykind, y=ys, censor=censor, censor_value=chow)
        try:
            with np.errstate(all="ignore"):
                cvals = _flat(a.t.backward_censored(yin, censor))
        except Exception as e:      # noqa: BLE001
            self.fail(a, "backward_censored-raises", f"backward_censored({ys!r}, {censor!r}) raised "
                      f"{type(e).__name__}", method="backward_censored", y=ys, censor=censor, exception=repr(e))
            return
        if _content(yin) != before:
            self.fail(a, "backward_censored-modifies-its-input", f"backward_censored changed the array it was "
                      f"given: {ys!r} -> {_flat(yin)!r}", method="backward_censored", y=ys, censor=censor)
            a.Y = a.Yvals = a.Yx = None
        ref = self.reference(a)
        if ref is None:
            return
        self.ctx.count((a.name, "session", "censored", chow))
        # the property's clause: backward_censored(forward(x), c) = max(x, c) (increasing transforms)
        if increasing(a.name, a.opts) and in_accuracy_region(a.name, a.want) and len(cvals) == len(xs0) and \
                all(in_region(a.name, a.opts, a.want, x) for x in xs0):
            bad = censored_oracle(a.name, a.opts, a.want, xs0, censor, cvals)
            if bad:
                try:
                    with np.errstate(all="ignore"):
                        r0 = _flat(ref.backward_censored(np.array(ys, dtype=np.float64), censor))
                    f0, _ = tc.call(ref, "fwd", xs0)
                    stateless = bool(censored_oracle(a.name, a.opts, a.want, xs0, censor, r0)) and \
                        f0 is not None and all(_same(u, v, 1.0) for u, v in zip(f0, ys))
                except Exception:      # noqa: BLE001
                    r0, stateless = None, False
                x, g, want = bad[0]
                plain = f"C01/{a.name}/backward_censored-roundtrip"
                if stateless:
                    self.ctx.failure(plain, {"class": a.name, "opts": a.opts, "values": a.want, "x": xs0, "y": ys,
                                             "censor": censor, "output": cvals},
                                     f"{a.name}{a.opts} {a.want}: backward_censored(forward({x!r}), censor={censor!r}) = "
                                     f"{g!r}, expected max(x, censor) = {want!r}")
                else:
                    self.fail(a, "backward_censored-roundtrip-broken",
                              f"backward_censored(forward({x!r}), censor={censor!r}) = {g!r}, expected max(x, censor) = "
                              f"{want!r} ({censor_value_text(chow)}; a new object holding the same values gives {r0!r})",
                              method="backward_censored", x=xs0, y=ys, censor=censor, output=cvals,
                              reference_output=r0)
                return
        try:
            with np.errstate(all="ignore"):
                r = _flat(ref.backward_censored(np.array(ys, dtype=np.float64), censor))
                tcen = float(ref.forward(censor))
        except Exception:      # noqa: BLE001
            return
        if len(r) != len(cvals) or not math.isfinite(tcen):
            return
        rtol = rt_rtol(a.name, a.want)
        for y, got, want in zip(ys, cvals, r):
            if _same(got, want, x_scale(a.name, a.opts, a.want, want) if math.isfinite(want) else 1.0):
                continue
            ok = False
            if math.isfinite(got) and math.isfinite(want):
                tb = tc.tolerance(a.name, "bwd", a.opts, a.want, max(y, tcen), want)
                if tb is None:
                    continue
                tol = 4 * tb + 1e-9 * max(1.0, abs(want))
                if y <= tcen + 1e-6 * max(1.0, abs(tcen)):
                    tol += 2 * rtol * x_scale(a.name, a.opts, a.want, censor)
                ok = abs(got - want) <= tol
            if not ok:
                self.fail(a, "backward_censored-differs",
                          f"backward_censored of the ({ykind}) array {ys!r}, censor {censor!r} = {cvals!r}; a new "
                          f"object with the same values on a new C-contiguous copy gives {r!r}",
                          method="backward_censored", y=ys, censor=censor, output=cvals, reference_output=r)
                break
        self.ctx.count((a.name, "session", "censored", ykind), n=len(ys))

    def op_poke_input(self, a):
        """the owner of the input array changes its contents in place"""
        if not self.usable(a):
            return
        xs = tc.points(a.name, a.opts, a.want, self.rng, len(a.buf.values()))
        if len(xs) != len(a.buf.values()):
            return
        a.buf.poke(xs)
        self.log(a, "input array changed in place by its owner", x=xs)

    def op_poke_output(self, a):
        """the owner of a returned array changes it in place (and forgets it)"""
        done = []
        for attr in ("Y", "B"):
            arr = getattr(a, attr)
            # (nothing is asserted about a result sharing memory with the input: such an array is left alone)
            if isinstance(arr, np.ndarray) and arr.ndim == 1 and arr.flags.writeable and arr.size \
                    and not (a.buf is not None and np.shares_memory(arr, a.buf.base)):
                arr[...] = np.array(arr[::-1], dtype=np.float64) * -1.25 + 3.0
                done.append(attr)
        if done:
            self.log(a, "returned array changed in place by its owner", which=done)
        a.Y = a.Yvals = a.Yx = a.B = None

    def run(self, nops):
        rng = self.rng
        for a in self.actors:
            self.build(a)
        ops = (["forward"] * 5 + ["backward"] * 6 + ["set"] * 4 + ["poke-input"] * 2 + ["poke-output"] * 2 +
               ["build"] * 2 + ["censored"] * 2 + ["forward-twice"])
        for _ in range(nops):
            a = rng.choice(self.actors)
            op = rng.choice(ops)
            cm.mark({"call": "transform (session)", "session": self.label, "object": a.describe(), "op": op})
            if op == "forward":
                self.op_forward(a)
            elif op == "forward-twice":
                self.op_forward(a) and self.op_forward(a, again=True)
            elif op == "backward":
                self.op_backward(a)
            elif op == "censored":
                self.op_censored(a)
            elif op == "set":
                self.op_set(a)
            elif op == "build":
                self.build(a)
            elif op == "poke-input":
                self.op_poke_input(a)
            else:
                self.op_poke_output(a)
        for a in self.actors:          # every object once more, in turn
            self.op_forward(a)
        for a in self.actors:
            self.op_backward(a)


def softmax_session(ctx, rng, nmat):
    from hydrodiy.stat import transform as T
    objs = [T.Softmax(), T.get_transform("Softmax"), T.Softmax()]
    history = []

    def fail(what, text, **rep):
        ctx.failure(f"C01/Softmax/session-{what}",
                    dict({"input_class": "session: Softmax objects reused, array objects reused, stored "
                                         "representations", "history (last 20 operations)": history[-20:]}, **rep),
                    f"Softmax: {text}")

    buf = None
    for k in range(nmat):
        sm = objs[k % len(objs)]
        nrows, ncols = rng.choice([1, 2, 3, 4]), rng.choice([1, 2, 3, 5])
        rows = tc.softmax_rows(rng, nrows, ncols)
        one_d = nrows == 1 and rng.random() < 0.5
        if buf is not None and not one_d and list(buf.arr.shape) == [nrows, ncols] or \
                (buf is not None and one_d and list(buf.arr.shape) == [ncols]):
            buf.poke(rows[0] if one_d else rows)       # same array object, new contents
            how = "in-place"
        else:
            buf = Buf(rows[0], rng.choice(REPRS)) if one_d else Buf(rows, rng.choice(REPRS2))
            how = "new-array"
        cm.mark({"call": "Softmax (session)", "array": buf.describe()})
        history.append({"op": "forward", "array": buf.describe(), "filled": how})
        flat = [v for r in rows for v in r]
        before = _content(buf.arr)
        try:
            with np.errstate(all="ignore"):
                out = sm.forward(buf.arr)
            ovals = _flat(out)
        except Exception as e:      # noqa: BLE001
            fail("forward-raises", f"forward of the {buf.kind} float64 array {rows!r} raised {type(e).__name__} "
                 f"(rows positive, sums below 1)", rows=rows, array=buf.describe(), exception=repr(e))
            continue
        if _content(buf.arr) != before:
            fail("forward-modifies-its-input", f"forward changed the array it was given: {rows!r} -> "
                 f"{buf.values()!r}", rows=rows, array_after=buf.values())
            buf.poke(rows[0] if one_d else rows)
        r, rerr = tc.call(T.Softmax(), "fwd", rows)
        ok = r is not None and len(r) == len(ovals)
        if ok:
            tols = []
            for row in rows:
                sx = sum(row)
                for v in row:
                    yv = math.log(v / (1 - sx))
                    tols.append(1e-10 * max(1.0, abs(yv)) + 16 * tc.U * (len(row) / (1 - sx) + abs(yv) + 2))
            ok = all(a == b or abs(a - b) <= 2 * tl for a, b, tl in zip(ovals, r, tols))
        if not ok and r is not None:
            fail("forward-differs", f"forward of the {buf.kind} float64 array {rows!r} = {ovals!r}; a new object on a "
                 f"new C-contiguous copy gives {r!r}", rows=rows, array=buf.describe(), output=ovals,
                 reference_output=r)
        ctx.count(("Softmax", "session", "forward", buf.kind, one_d, how), n=len(flat))
        if not all(math.isfinite(v) for v in ovals) or len(ovals) != len(flat):
            continue
        # backward: the object forward returned, or its values in another representation
        yrows = [ovals[i * ncols:(i + 1) * ncols] for i in range(nrows)]
        if isinstance(out, np.ndarray) and rng.random() < 0.5:
            yin, ykind = out, "as-returned"
        else:
            ykind = rng.choice(REPRS2)
            yin = Buf(yrows, ykind).arr
        history.append({"op": "backward", "input": ykind, "rows": yrows})
        before = _content(yin)
        try:
            with np.errstate(all="ignore"):
                bvals = _flat(sm.backward(yin))
        except Exception as e:      # noqa: BLE001
            fail("backward-raises", f"backward of the ({ykind}) array {yrows!r} raised {type(e).__name__}",
                 rows=yrows, exception=repr(e))
            continue
        if _content(yin) != before:
            fail("backward-modifies-its-input", f"backward changed the array it was given: {yrows!r} -> "
                 f"{_flat(yin)!r}", rows=yrows)
        rb, _ = tc.call(T.Softmax(), "bwd", yrows)
        if rb is not None:
            btol = [1e-10 + 16 * tc.U * (2 + abs(y)) * max(b, 1e-300) * (ncols + 2) for y, b in zip(ovals, rb)]
            if len(rb) != len(bvals) or not all(a == b or abs(a - b) <= 2 * tl for a, b, tl in zip(bvals, rb, btol)):
                fail("backward-differs", f"backward of the ({ykind}) array {yrows!r} = {bvals!r}; a new object on a "
                     f"new C-contiguous copy gives {rb!r}", rows=yrows, output=bvals, reference_output=rb)
        if len(bvals) == len(flat):
            for v, b in zip(flat, bvals):
                if not abs(b - v) <= 1e-6 * abs(v):
                    stateless = rb is not None and any(not abs(b2 - v2) <= 1e-6 * abs(v2) for v2, b2 in zip(flat, rb))
                    ctx.failure("C01/Softmax/roundtrip-backward-forward" if stateless else
                                "C01/Softmax/session-roundtrip-backward-forward-broken",
                                {"rows": rows, "array": buf.describe(), "forward": yrows, "backward_input": ykind,
                                 "output": bvals, "history": history[-20:]},
                                f"Softmax ({buf.kind} array): backward(forward(x)) entry {b!r} != {v!r}")
                    break
        ctx.count(("Softmax", "session", "backward", ykind), n=len(flat))


def session_checks(ctx):
    import random
    rng = random.Random(f"{PID}:sessions:{ctx.seed}")
    nops = ctx.scale(40, 200)
    nobj = 0
    plans = []
    for name in tc.CLASSES:
        if name == "Softmax":
            continue
        variants = tc.ctor_variants(name, rng)
        other = variants[rng.randrange(len(variants))]
        plans.append((name, [(name, variants[0]), (name, variants[0]), (name, other)]))
    fam = ("BoxCox2", "BoxCox1lam", "BoxCox1nu", "BoxCox2sym")
    famv = tc.ctor_variants("BoxCox2", rng)
    plans.append(("Box-Cox family", [(n, {}) for n in fam] + [(n, famv[rng.randrange(len(famv))]) for n in fam]))
    for label, members in plans:
        with _SessionBounds(ctx, members):
            s = Session(ctx, rng, label, members)
            s.run(nops if len(members) <= 3 else 2 * nops)
        nobj += len(members)
    softmax_session(ctx, rng, ctx.scale(40, 200))
    ctx.notes["session_objects"] = nobj
