"""C14 - variable-to-fixed time step conversion (dutils.var2h / c_var2h) is the
exact period average of the data.

Two levels are exercised:
  kernel : c_hydrodiy_data.var2h(maxgapsec, hstartsec, nbsec_per_period,
           rainfall, 0, varsec, varvalues, hvalues)
  wrapper: hydrodiy.data.dutils.var2h(se, nbsec_per_period, maxgapsec, rainfall)
           over DatetimeIndex units s/ms/us/ns, naive or time-zone aware.
Both are compared bit-exactly with the binary64 instance of Model/Var2h.v
inside Coq, and checked by an exact rational oracle (fractions.Fraction) that
knows nothing of the model.

Time-zone clause: besides zones with a constant offset, aware indices in zones
whose UTC offset changes (daylight saving, permanent changes) are placed on a
change of offset (gen_wrapper_dst).  The series is given by its wall clock
(the reading used throughout: periods are the labelled wall-clock periods, and
the result must be the one of the naive index holding the same wall clock -
values, first label and number of periods).  A series over which the offset
varies has no model term (the model takes one offset): oracle only.

The kernel has two memory-unsafe corners that belong to property C05 (the
positioning loop runs past the end when no stamp is later than the origin).
Generators keep the last stamp strictly after the origin, and the wrapper is
called through a guard that refuses to enter the kernel outside that
contract (the refusal is reported as a failure of the wrapper case)."""
import math
from fractions import Fraction as Fr

import numpy as np

from harness import common as cm

PID = "C14"
HEADER = ("From Coq Require Import ZArith List PrimFloat.\n"
          "From Hy Require Import Base.Num Model.Var2h.")

UNITS = ["s", "ms", "us", "ns"]
SCALE = {"s": 1, "ms": 10 ** 3, "us": 10 ** 6, "ns": 10 ** 9}
# zones with a constant UTC offset over the generated dates (>= 1950)
# ("fixed:<minutes>" = datetime.timezone(timedelta(minutes=...)))
ZONES = [None, None, "UTC", "Australia/Darwin", "Etc/GMT+5", "Asia/Kolkata",
         "fixed:345", "fixed:-210", "Etc/GMT-10"]
# zones whose UTC offset changes (daylight saving in both hemispheres, shifts of 30 min, 1 h, 2 h and
# 24 h, changes at 00:00, 00:01, 01:00, 02:00, 02:45, 03:00 wall clock, permanent changes of the
# standard offset, "negative" daylight saving, zoneinfo and dateutil implementations of tzinfo)
DST_ZONES = ["Australia/Sydney", "Australia/Sydney", "Australia/Adelaide", "Australia/Lord_Howe",
             "Australia/Hobart", "America/New_York", "America/St_Johns", "America/Sao_Paulo",
             "America/Santiago", "America/Caracas", "Europe/London", "Europe/Dublin", "Europe/Berlin",
             "Pacific/Auckland", "Pacific/Chatham", "Pacific/Apia", "Asia/Tehran", "Africa/Casablanca",
             "Antarctica/Troll", "dateutil/Europe/London", "dateutil/Australia/Sydney",
             "dateutil/America/New_York"]
INV_TOL = 1e-8          # |.| of the validity tolerance of the kernel (not asserted)


class UnsafeKernelCall(Exception):
    """the wrapper was about to enter c_var2h outside its memory-safety contract"""


# ----------------------------------------------------------------------------
# generators

def gen_values(rng, n):
    mode = rng.choice(["dyadic", "int", "float", "float", "const", "tiny"])
    scale = rng.choice([1.0, 1.0, 1e-3, 1e3, 1e6])
    if mode == "dyadic":
        v = [rng.randint(0, 80) / 8.0 for _ in range(n)]
    elif mode == "int":
        v = [float(rng.randint(0, 50)) for _ in range(n)]
    elif mode == "const":
        c = rng.choice([0.0, 3.0, 0.1, 12.5])
        v = [c] * n
    elif mode == "tiny":
        v = [rng.random() * 1e-6 for _ in range(n)]
    else:
        v = [rng.random() * scale for _ in range(n)]
    r = rng.random()
    if r < 0.30:          # missing values
        for _ in range(rng.randint(1, max(1, n // 6))):
            v[rng.randrange(n)] = float("nan")
    r = rng.random()
    if r < 0.25:          # negative values (clearly negative)
        for _ in range(rng.randint(1, max(1, n // 8))):
            v[rng.randrange(n)] = rng.choice([-0.5, -3.0, -1e-6, -1e-7, -2.0 ** -20, -1e3])
    r = rng.random()
    if r < 0.15:          # values on the validity threshold of the kernel
        lo = -1e-8
        for _ in range(rng.randint(1, 3)):
            v[rng.randrange(n)] = rng.choice([lo, math.nextafter(lo, -1.0), math.nextafter(lo, 0.0),
                                              -0.0, 0.0, -1e-9])
    return v


def gen_stamps(rng, t0, n, P, origin):
    """n non-decreasing integer-second stamps from t0 at arbitrary spacing."""
    mode = rng.choice(["sec", "min", "min", "sub", "sub", "hour", "day", "mix", "mix"])
    out = [t0]
    for _ in range(n - 1):
        m = mode if mode != "mix" else rng.choice(["sec", "min", "sub", "hour", "day"])
        if m == "sec":
            d = rng.randint(1, 30)
        elif m == "min":
            d = rng.choice([60, 300, 600, rng.randint(31, 900)])
        elif m == "sub":
            d = rng.randint(600, 3600)
        elif m == "hour":
            d = rng.choice([1800, 3600, 3601, 7200, rng.randint(3000, 9000)])
        else:
            d = rng.choice([86400, 5 * 86400, 5 * 86400 + 1, rng.randint(3600, 3 * 86400)])
        r = rng.random()
        if r < 0.08:
            d = 0                                   # duplicate stamp
        t = out[-1] + d
        if r > 0.80:                                # stamp exactly on a period boundary
            t2 = origin + ((t - origin) // P + rng.choice([0, 1])) * P
            if t2 >= out[-1]:
                t = t2
        out.append(t)
    return out


def gen_t0(rng):
    base = rng.choice([0, 0, -63158400, 946684800, 1700000000, 7258118400,
                       rng.randint(-6 * 10 ** 8, 7 * 10 ** 9)])     # 1950 .. 2190
    base = base // 3600 * 3600
    return base + rng.choice([0, 0, 1, 600, 1799, 1800, 1801, 3599, rng.randint(0, 3599)])


def gen_kernel(rng, thorough):
    P = rng.choice([1800, 3600])
    rain = rng.choice([0, 1])
    maxgap = rng.choice([3600, 3601, 7200, 86400, 5 * 86400, rng.randint(3600, 20000)])
    t0 = gen_t0(rng)
    nmax = 120 if thorough else 36
    n = rng.choice([2, 2, 3, 4, rng.randint(2, nmax), rng.randint(2, nmax)])
    origin = t0 // 3600 * 3600 + 3600
    kind = rng.random()
    if kind < 0.70:
        hstart = origin                              # as the wrapper calls it
    elif kind < 0.80:
        hstart = t0 + rng.choice([0, 1, 17, 1800, 5000])
    elif kind < 0.90:
        hstart = t0 + rng.randint(0, 3 * P)
    else:
        hstart = origin
    sec = gen_stamps(rng, t0, n, P, hstart)
    vals = gen_values(rng, n)
    if sec[-1] <= hstart:                            # C05 contract: a stamp after the origin
        sec.append(hstart + rng.choice([1, 60, P, P + 1, 3 * P]))
        vals.append(vals[-1] if rng.random() < 0.5 else 1.0)
    full = (sec[-1] - hstart) // P                   # whole periods before the last stamp
    nvalh = rng.choice([full + 1, full + 1, (sec[-1] - sec[0]) // P, (sec[-1] - sec[0]) // P,
                        full, full + 2, full + 4, 0, 1, 2])
    nvalh = max(0, min(nvalh, 400))
    err = rng.random()
    tag = "ok"
    if err < 0.03:
        P = rng.choice([900, 7200, 0, 3599, -1800]); tag = "bad-period"
    elif err < 0.06:
        rain = rng.choice([-1, 2, 7]); tag = "bad-rainfall"
    elif err < 0.10:
        hstart = sec[0] - rng.choice([1, 3600, 10]); tag = "origin-before-data"
    elif err < 0.13:
        sec = [sec[0] + rng.choice([1, 100])]; vals = vals[:1]
        hstart = sec[0] - 1; tag = "one-stamp"
    elif err < 0.19 and len(sec) >= 3:
        i = rng.randrange(1, len(sec))               # a stamp going backwards
        sec[i - 1], sec[i] = sec[i], sec[i - 1] - rng.choice([0, 1, 50])
        if max(sec) <= hstart or sec[0] > hstart:
            sec[-1] = hstart + P
        tag = "unsorted"
    hinit = [rng.choice([float("nan"), -999.0])] * nvalh
    return dict(level="kernel", P=P, rain=rain, maxgap=maxgap, hstart=hstart,
                sec=sec, vals=vals, hinit=hinit, tag=tag)


def gen_wrapper(rng, thorough):
    P = rng.choice([1800, 3600])
    rain = rng.choice([False, True])
    maxgap = rng.choice([3600, 3601, 7200, 86400, 5 * 86400, None, rng.randint(3600, 20000)])
    t0 = gen_t0(rng)
    nmax = 100 if thorough else 30
    n = rng.choice([2, 3, 4, rng.randint(2, nmax), rng.randint(2, nmax)])
    origin = t0 // 3600 * 3600 + 3600
    sec = gen_stamps(rng, t0, n, P, origin)
    vals = gen_values(rng, n)
    # quantifier: >= 2 observations spanning at least two periods; C05: a stamp after the origin
    while sec[-1] - sec[0] < 2 * P or sec[-1] <= origin:
        sec.append(sec[-1] + rng.choice([P, 600, 2 * P, 3601, 1]))
        vals.append(rng.choice([vals[-1], 2.0, 0.25]))
    if (sec[-1] - sec[0]) // P > 600:                # keep the output short
        return gen_wrapper(rng, thorough)
    unit = rng.choice(UNITS)
    tz = rng.choice(ZONES)
    tag = "ok"
    err = rng.random()
    if err < 0.03:
        P = rng.choice([900, 7200, 60]); tag = "bad-period"
    elif err < 0.06:
        maxgap = rng.choice([3599, 0, 600]); tag = "bad-maxgap"
    elif err < 0.10 and len(sec) >= 3:
        i = rng.randrange(1, len(sec) - 1)
        if sec[i + 1] > sec[i]:
            sec[i], sec[i + 1] = sec[i + 1], sec[i]
            tag = "unsorted"
    return dict(level="wrapper", P=P, rain=rain, maxgap=maxgap, unit=unit, tz=tz,
                wall=sec, vals=vals, tag=tag)


_TRANS = {}


def zone_transitions(zone, year):
    """Changes of UTC offset of `zone` during `year`, found by bisection on the system's zone data
    (generator side only): [(wall-clock second at which the clock is moved, shift in seconds)].
    shift > 0: the wall-clock readings [w, w+shift) do not exist; shift < 0: [w+shift, w) occur twice."""
    key = (zone, year)
    if key not in _TRANS:
        import datetime as dt
        import zoneinfo
        name = zone.split("/", 1)[1] if zone.startswith("dateutil/") else zone
        out = []
        try:
            z = zoneinfo.ZoneInfo(name)
            ep = dt.datetime(1970, 1, 1, tzinfo=dt.timezone.utc)

            def off(s):
                return int((ep + dt.timedelta(seconds=s)).astimezone(z).utcoffset().total_seconds())
            s0 = int((dt.datetime(year, 1, 1, tzinfo=dt.timezone.utc) - ep).total_seconds())
            prev = off(s0)
            for d in range(1, 367):
                o = off(s0 + d * 86400)
                if o != prev:
                    lo, hi = s0 + (d - 1) * 86400, s0 + d * 86400
                    while hi - lo > 1:
                        mid = (lo + hi) // 2
                        if off(mid) == prev:
                            lo = mid
                        else:
                            hi = mid
                    out.append((hi + prev, o - prev))
                    prev = o
        except Exception:                       # zone unknown to this system: never chosen
            out = []
        _TRANS[key] = out
    return _TRANS[key]


def gen_wrapper_dst(rng, thorough):
    """A time-zone aware series in a zone whose UTC offset changes, placed on a change of offset:
    non-decreasing wall-clock stamps that all exist in the zone (readings inside a skipped interval are
    dropped), stamps inside a repeated interval flagged first/second occurrence so that the instants are
    non-decreasing too.  The series spans the change (most cases), starts inside / just after it, or ends
    just after it; stamps on the edges of the skipped / repeated interval are added."""
    for _ in range(200):
        zone = rng.choice(DST_ZONES)
        year = rng.choice([rng.randint(1950, 2189), rng.randint(1972, 2030), rng.randint(1990, 2025)])
        if zone.startswith("dateutil/"):             # dateutil does not extrapolate the rules after 2037
            year = rng.randint(1972, 2037)
        tr = zone_transitions(zone, year)
        if not tr:
            continue
        Tw, J = rng.choice(tr)
        P = rng.choice([1800, 3600])
        rain = rng.choice([False, True])
        maxgap = rng.choice([3600, 3601, 7200, 86400, 5 * 86400, None, None, rng.randint(3600, 20000)])
        if abs(J) > 7200:                            # a skipped day: keep the interval across it valid
            maxgap = rng.choice([None, 5 * 86400, 2 * 86400])
        nmax = 100 if thorough else 30
        n = rng.choice([2, 3, 4, rng.randint(2, nmax), rng.randint(2, nmax)])
        after = Tw + max(J, 0)                       # first reading of the new offset (shift > 0)
        place = rng.choice(["span"] * 7 + ["start-in", "start-after", "end-at"])
        if place == "start-in":                      # first stamp inside the repeated interval / on the change
            t0 = Tw + (rng.randint(J, -1) if J < 0 else rng.choice([-1, J, J + 1]))
        elif place == "start-after":
            t0 = after + rng.choice([0, 1, 600, rng.randint(0, 7200)])
        else:
            t0 = Tw - rng.choice([1, 60, 1799, 1800, 1801, 3599, 3600, 3601, rng.randint(1, 3 * 3600),
                                  rng.randint(1, 3 * 3600), rng.randint(1, 86400), rng.randint(1, 3 * 86400)])
        origin = t0 // 3600 * 3600 + 3600
        sec = gen_stamps(rng, t0, n, P, origin)
        if rng.random() < 0.5:                       # stamps on the edges of the change
            extra = rng.sample([Tw - 1, Tw, Tw + J, Tw + J - 1, after, after + 1, Tw - P, Tw + abs(J) + P,
                                Tw - 3600], rng.randint(1, 3))
            sec = [sec[0]] + sorted(sec[1:] + [t for t in extra if t >= sec[0]])
        tail = rng.choice([0, 1, 600, P, 3600, 7200, 86400])
        if place == "end-at":
            tail = rng.choice([0, 1, 60])
        while (sec[-1] - sec[0] < 2 * P or sec[-1] <= origin
               or (place in ("span", "end-at") and sec[-1] < max(Tw, after) + tail)):
            sec.append(sec[-1] + rng.choice([P, 600, 2 * P, 3601, 1, 1200]))
        # first / second occurrence of the repeated readings: first.., ..second, or a switch in between
        mode = rng.choice(["first", "second", "switch", "switch"])
        k = rng.randint(0, len(sec))
        amb = [mode == "first" or (mode == "switch" and i < k) for i in range(len(sec))]
        unit = rng.choice(UNITS)
        try:
            import pandas as pd
            idx = pd.DatetimeIndex(np.array(sec, dtype="int64").astype("datetime64[s]")).tz_localize(
                zone, ambiguous=np.array(amb, dtype=bool), nonexistent="NaT")
        except Exception:
            continue
        keep = [not bad for bad in idx.isna()]
        sec = [t for t, kp in zip(sec, keep) if kp]
        amb = [a for a, kp in zip(amb, keep) if kp]
        if len(sec) < 2 or sec[-1] - sec[0] < 2 * P or sec[-1] <= sec[0] // 3600 * 3600 + 3600:
            continue
        if (sec[-1] - sec[0]) // P > 600:
            continue
        kept = idx[np.array(keep, dtype=bool)]
        inst = [int(x) for x in kept.asi8]
        if any(b < a for a, b in zip(inst, inst[1:])):     # instants must be non-decreasing as well
            continue
        # pandas must agree with itself on the offsets (array path: wall clock - instant; scalar path:
        # Timestamp.utcoffset) - it does not for dateutil zones after 2037
        if any(int(t.utcoffset().total_seconds()) != w - i for t, w, i in zip(kept, sec, inst)):
            continue
        vals = gen_values(rng, len(sec))
        return dict(level="wrapper", P=P, rain=rain, maxgap=maxgap, unit=unit, tz=zone, amb=amb,
                    wall=sec, vals=vals, tag="ok", change=[Tw, J, place])
    raise RuntimeError("no zone with a change of UTC offset is available on this system")


# ----------------------------------------------------------------------------
# running the implementation

def run_kernel(case):
    import c_hydrodiy_data as chd
    sec = np.array(case["sec"], dtype=np.int64)
    vals = np.array(case["vals"], dtype=np.float64)
    h = np.array(case["hinit"], dtype=np.float64)
    # C05 contract (never violated by the generators; asserted to keep the run memory-safe)
    assert len(sec) >= 1 and len(sec) == len(vals)
    valid_head = case["rain"] in (0, 1) and case["P"] in (1800, 3600)
    assert (not valid_head) or int(sec.max()) > case["hstart"], "generator left the C05 contract"
    ierr = chd.var2h(case["maxgap"], case["hstart"], case["P"], case["rain"], 0, sec, vals, h)
    return None if ierr != 0 else [float(x) for x in h]


class _GuardedKernel:
    """stands for the module c_hydrodiy_data inside hydrodiy.data.dutils: records the
    arguments given to var2h and refuses calls outside the memory-safety contract"""

    def __init__(self, real):
        self._real = real
        self.last = None

    def __getattr__(self, name):
        return getattr(self._real, name)

    def var2h(self, maxgapsec, hstartsec, P, rainfall, display, varsec, varvalues, hvalues):
        self.last = dict(hstartsec=int(hstartsec), varsec=[int(x) for x in varsec[:6]],
                         nvalh=int(len(hvalues)))
        if int(P) in (1800, 3600) and int(rainfall) in (0, 1):
            if len(varsec) < 1 or len(varsec) != len(varvalues) or int(np.max(varsec)) <= int(hstartsec):
                raise UnsafeKernelCall(
                    f"c_var2h would be entered with no stamp after the origin "
                    f"(hstartsec={int(hstartsec)}, varsec[:3]={[int(x) for x in varsec[:3]]})")
        return self._real.var2h(maxgapsec, hstartsec, P, rainfall, display, varsec, varvalues, hvalues)


_GUARD = None


def _dutils():
    global _GUARD
    from hydrodiy.data import dutils
    if _GUARD is None or dutils.c_hydrodiy_data is not _GUARD:
        _GUARD = _GuardedKernel(dutils.c_hydrodiy_data)
        dutils.c_hydrodiy_data = _GUARD
    return dutils


def make_index(wall, unit, tz, amb=None):
    """amb: for each stamp, True = first occurrence of a repeated wall-clock reading (ignored elsewhere)"""
    import pandas as pd
    idx = pd.DatetimeIndex(np.array(wall, dtype="int64").astype("datetime64[s]")).as_unit(unit)
    if tz is not None and amb is not None:
        idx = idx.tz_localize(_tzinfo(tz), ambiguous=np.array(amb, dtype=bool))
    elif tz is not None:
        idx = idx.tz_localize(_tzinfo(tz))
    return idx


def _tzinfo(tz):
    if isinstance(tz, str) and tz.startswith("fixed:"):
        import datetime
        return datetime.timezone(datetime.timedelta(minutes=int(tz[6:])))
    return tz


def run_wrapper(wall, vals, unit, tz, P, maxgap, rain, amb=None):
    """-> ("ok", [labels], [values]) | ("error", msg) | ("unsafe", msg)
    labels: wall-clock seconds of the returned index"""
    import pandas as pd
    dutils = _dutils()
    se = pd.Series(np.array(vals, dtype=np.float64), index=make_index(wall, unit, tz, amb))
    kw = {} if maxgap is None else {"maxgapsec": maxgap}
    try:
        with np.errstate(all="ignore"):
            seh = dutils.var2h(se, nbsec_per_period=P, rainfall=rain, **kw)
    except ValueError as e:
        return ("error", str(e)[:200])
    except UnsafeKernelCall as e:
        return ("unsafe", str(e))
    labels = [int(x) for x in seh.index.as_unit("s").asi8] if seh.index.tz is None else None
    if labels is None:
        labels = [int(x) for x in seh.index.tz_localize(None).as_unit("s").asi8]
    return ("ok", labels, [float(x) for x in seh.values])


def index_model_args(wall, unit, tz, amb=None):
    """(raw integers in UTC, offset in seconds, set of offsets) of the index, read from pandas"""
    idx = make_index(wall, unit, tz, amb)
    raw = [int(x) for x in idx.asi8]
    if tz is None:
        return raw, 0, {0}
    offs = {int(t.utcoffset().total_seconds()) for t in idx}
    if len(offs) != 1:
        # offset changes inside the series: outside the model (Model/Var2h.v takes one offset);
        # the case is checked by the oracle only
        return None, None, offs
    return raw, min(offs), offs


# ----------------------------------------------------------------------------
# Coq terms

def term_kernel(case, out):
    exp = cm.coq_option(out, cm.coq_flist)
    return ("VKernel {| vk_P := %s; vk_rain := %s; vk_maxgap := %s; vk_hstart := %s; "
            "vk_sec := %s; vk_vals := %s; vk_hinit := %s; vk_expect := %s |}") % (
        cm.coq_z(case["P"]), cm.coq_z(case["rain"]), cm.coq_z(case["maxgap"]),
        cm.coq_z(case["hstart"]), cm.coq_zlist(case["sec"]), cm.coq_flist(case["vals"]),
        cm.coq_flist(case["hinit"]), exp)


def term_wrapper(case, raw, off, res):
    if res[0] == "ok":
        exp = f"(Some ({cm.coq_z(res[1][0] if res[1] else 0)}, {cm.coq_flist(res[2])}))"
    else:
        exp = "None"
    mg = 5 * 86400 if case["maxgap"] is None else case["maxgap"]
    return ("VWrapper {| vp_unit := %s; vp_off := %s; vp_raw := %s; vp_vals := %s; vp_P := %s; "
            "vp_maxgap := %s; vp_rain := %s; vp_expect := %s |}") % (
        cm.coq_z(UNITS.index(case["unit"])), cm.coq_z(off), cm.coq_zlist(raw),
        cm.coq_flist(case["vals"]), cm.coq_z(case["P"]), cm.coq_z(mg),
        cm.coq_bool(case["rain"]), exp)


# ----------------------------------------------------------------------------
# exact oracle (independent of the model)

def exact_period(sec, F, s, P, maxgap, rain):
    """Exact facts about the period [s, s+P) of the series (sec, F) (F: Fraction or None).
    -> (covered, must_missing, may_missing, average or None)"""
    e = s + P
    covered = sec[0] <= s and sec[-1] >= e
    must, may = False, False
    total = Fr(0)
    for k in range(len(sec) - 1):
        t1, t2 = sec[k], sec[k + 1]
        if t1 > e or t2 < s:
            continue
        v1, v2 = F[k], F[k + 1]
        hard = (v1 is None or v2 is None or v1 < -INV_TOL or v2 < -INV_TOL or t2 - t1 > maxgap)
        soft = (not hard) and (v1 < 0 or v2 < 0)      # negative within the kernel's tolerance
        lo, hi = max(t1, s), min(t2, e)
        if hi > lo:                                   # the interval overlaps the period
            if hard:
                must = True
            else:
                may = may or soft
                if rain:
                    total += v2 * Fr(hi - lo, t2 - t1)
                else:
                    a = (v2 - v1) / (t2 - t1)
                    total += (a * (lo - t1) + v1 + a * (hi - t1) + v1) * (hi - lo) / 2
        elif hard or soft:                            # merely touches the period / zero length
            may = True
    if must:
        return covered, True, may, None
    return covered, False, may, (total if rain else total / P)


def oracle_periods(sec, vals, starts, P, maxgap, rain, out, fn, check_last):
    """Checks the returned values `out` of the periods starting at `starts`.
    Returns a list of (key, what)."""
    fails = []
    F = [None if math.isnan(v) else Fr(v) for v in vals]
    fin = [abs(v) for v in vals if math.isfinite(v)]
    tol = 1e-9 * max([1.0] + fin)
    npd = len(out)
    run_sum, run_exact, run_n = 0.0, Fr(0), 0
    for i in range(npd):
        last = i == npd - 1
        if last and not check_last:
            break
        h = out[i]
        covered, must, may, avg = exact_period(sec, F, starts[i], P, maxgap, rain)
        where = f"period {i} [{starts[i]}, {starts[i] + P})"
        if math.isnan(h):
            if not last and covered and not must and not may:
                fails.append((f"C14/{fn}/valid-period-missing",
                              f"{where}: every overlapping interval is valid but the value is missing"))
            run_sum, run_exact, run_n = 0.0, Fr(0), 0
            continue
        if not covered:
            fails.append((f"C14/{fn}/uncovered-period-not-missing",
                          f"{where} extends past the observations ({sec[0]}..{sec[-1]}) "
                          f"but the value {h!r} is not missing"))
            continue
        if must:
            fails.append((f"C14/{fn}/invalid-interval-not-missing",
                          f"{where} overlaps an invalid interval but the value {h!r} is not missing"))
            continue
        if math.isinf(h) or abs(Fr(h) - avg) > tol:
            fails.append((f"C14/{fn}/not-period-average",
                          f"{where}: returned {h!r}, exact period "
                          f"{'total' if rain else 'average'} {float(avg)!r}"))
            continue
        run_sum += h
        run_exact += avg
        run_n += 1
        if abs(Fr(run_sum) - run_exact) > tol * run_n:
            fails.append((f"C14/{fn}/conservation",
                          f"the sum of {run_n} consecutive periods ending at {where} is {run_sum!r}, "
                          f"exact {float(run_exact)!r}"))
    return fails


def is_sorted(sec):
    return all(a <= b for a, b in zip(sec, sec[1:]))


def oracle_kernel(case, out):
    if case["tag"] in ("bad-period", "bad-rainfall"):
        return [] if out is None else [("C14/c_var2h/bad-argument-accepted",
                                       f"{case['tag']} accepted without an error code")]
    sec = case["sec"]
    if not is_sorted(sec) or len(sec) < 2:
        return []                                   # outside the quantifier of the property
    if sec[0] > case["hstart"]:
        return [] if out is None else [("C14/c_var2h/origin-before-data-accepted",
                                       "origin earlier than the first stamp accepted")]
    if out is None:
        return [("C14/c_var2h/valid-input-rejected", "error code for a non-decreasing series")]
    starts = [case["hstart"] + i * case["P"] for i in range(len(out))]
    return oracle_periods(sec, case["vals"], starts, case["P"], case["maxgap"],
                          case["rain"] == 1, out, "c_var2h", check_last=False)


def _veq(a, b):
    return (math.isnan(a) and math.isnan(b)) or a == b


def oracle_wrapper(case, res, ref, rerun=None):
    """res: result on the case's index; ref: result on the same wall clock stored as naive ns;
    rerun(unit, tz): result on the same wall clock with another index (used to name the clause
    that fails: storage resolution or time zone)."""
    tag = case["tag"]
    if tag in ("bad-period", "bad-maxgap"):
        return [] if res[0] == "error" else [("C14/var2h/bad-argument-accepted", f"{tag} accepted")]
    if tag == "unsorted":
        return []
    fails = []
    mg = 5 * 86400 if case["maxgap"] is None else case["maxgap"]
    what_idx = f"unit={case['unit']} tz={case['tz']}"
    if case.get("change"):
        what_idx += (f" (clock moved by {case['change'][1]} s at wall-clock second {case['change'][0]}, "
                     f"series {case['wall'][0]}..{case['wall'][-1]})")

    def which():
        """the clause of the independence statement that fails"""
        if case["tz"] is None:
            return "index-unit"
        if case["unit"] == "ns" or rerun is None:
            return "time-zone"
        r2 = rerun(case["unit"], None)               # same unit, naive
        same_u = (r2[0] == ref[0] and (r2[0] != "ok" or (
            r2[1] == ref[1] and len(r2[2]) == len(ref[2]) and all(_veq(x, y) for x, y in zip(r2[2], ref[2])))))
        return "time-zone" if same_u else "index-unit"

    if res[0] != "ok":
        # an input inside the quantifier was rejected (or could not be run safely)
        key = f"C14/var2h/depends-on-{which()}" if ref[0] == "ok" else "C14/var2h/valid-input-rejected"
        return [(key, f"{what_idx}: {res[0]}: {res[1]}"
                      + ("; the same series with a naive ns index is converted" if ref[0] == "ok" else ""))]
    labels, out = res[1], res[2]
    P = case["P"]
    if any(b - a != P for a, b in zip(labels, labels[1:])):
        fails.append(("C14/var2h/output-index", "the returned index is not regular with the period"))
        return fails
    fails += oracle_periods(case["wall"], case["vals"], labels, P, mg, case["rain"], out,
                            "var2h", check_last=True)
    if ref[0] == "ok":
        same = (labels == ref[1] and len(out) == len(ref[2]) and
                all(_veq(a, b) for a, b in zip(out, ref[2])))
        # the two results differ by their extent only: same first label, another number of periods,
        # identical values before the final period of the shorter one
        m = min(len(out), len(ref[2])) - 1
        extent_only = (not same and len(out) != len(ref[2]) and (m < 0 or labels[:1] == ref[1][:1])
                       and all(_veq(out[j], ref[2][j]) for j in range(max(m, 0))))
        if extent_only:
            fails.append((f"C14/var2h/output-extent-depends-on-{which()}",
                          f"{what_idx}: {len(out)} periods are returned, {len(ref[2])} for the same "
                          f"wall-clock series with a naive ns index (the values before the final period "
                          f"of the shorter result are identical; value at position {m}: "
                          f"{out[m] if m >= 0 else None!r} vs {ref[2][m] if m >= 0 else None!r})"))
        elif not same:
            j = next((j for j, (a, b) in enumerate(zip(out, ref[2])) if not _veq(a, b)), None)
            fails.append((f"C14/var2h/depends-on-{which()}",
                          f"{what_idx}: result differs from the one for the naive ns index "
                          f"(first difference at {j}: "
                          f"{out[j] if j is not None else labels[:2]!r} vs "
                          f"{ref[2][j] if j is not None else ref[1][:2]!r})"))
    return fails


def py_call(case):
    if case["level"] == "kernel":
        return ("import numpy as np, c_hydrodiy_data as c; h=np.array(%r); "
                "print(c.var2h(%d, %d, %d, %d, 0, np.array(%r, dtype=np.int64), np.array(%r), h), h)"
                % (case["hinit"], case["maxgap"], case["hstart"], case["P"], case["rain"],
                   case["sec"], case["vals"])).replace("nan", "np.nan")
    kw = "" if case["maxgap"] is None else f", maxgapsec={case['maxgap']}"
    amb = "" if case.get("amb") is None else f", ambiguous=np.array({case['amb']!r})"
    tz = "" if case["tz"] is None else (
        f".tz_localize(datetime.timezone(datetime.timedelta(minutes={case['tz'][6:]})))"
        if case["tz"].startswith("fixed:") else f".tz_localize({case['tz']!r}{amb})")
    return ("import datetime, numpy as np, pandas as pd; from hydrodiy.data import dutils; "
            "idx=pd.DatetimeIndex(np.array(%r, dtype='int64').astype('datetime64[s]')).as_unit(%r)%s; "
            "print(dutils.var2h(pd.Series(np.array(%r), index=idx), nbsec_per_period=%d, rainfall=%r%s))"
            % (case["wall"], case["unit"], tz, case["vals"], case["P"], case["rain"], kw)
            ).replace("nan", "np.nan")


# ----------------------------------------------------------------------------

FIXED_CORPUS = [
    # DESIGN section 6 row 22: pandas' default unit is not ns
    dict(level="wrapper", P=3600, rain=False, maxgap=None, unit="us", tz=None, tag="ok",
         wall=[600, 3000, 4200, 7800, 9000, 12600, 16200, 19800],
         vals=[1.0, 2.0, 4.0, 3.0, 5.0, 2.0, 1.0, 6.0]),
    # ns index in the year 2200: the float division by 1e9 of the pinned wrapper is off by one second
    dict(level="wrapper", P=1800, rain=False, maxgap=7200, unit="ns", tz=None, tag="ok",
         wall=[7258118401, 7258119397, 7258122904, 7258124053], vals=[8.125, 3.5, 6.375, 1.25]),
    # constant level 3, half-hourly, data ending 10 minutes into the last computed period
    dict(level="kernel", P=1800, rain=0, maxgap=432000, hstart=3600, tag="ok",
         sec=[0, 3600, 7200, 7800], vals=[3.0, 3.0, 3.0, 3.0],
         hinit=[float("nan")] * 4),
    dict(level="wrapper", P=1800, rain=False, maxgap=None, unit="ns", tz=None, tag="ok",
         wall=[0, 3600, 7200, 7800], vals=[3.0, 3.0, 3.0, 3.0]),
    dict(level="wrapper", P=1800, rain=True, maxgap=None, unit="ns", tz="Australia/Darwin", tag="ok",
         wall=[600, 2400, 4000, 5400, 7200, 9100], vals=[1.0, 2.0, 0.5, 4.0, 1.0, 2.0]),
    # Australia/Sydney, 2021-10-03 00:10 .. 06:05 wall clock across the start of daylight saving (02:00 -> 03:00)
    # and 2021-04-04 00:10 .. 06:05 across its end (03:00 -> 02:00): before 923115a the output was sized from
    # the elapsed time of the aware stamps (4 resp. 6 periods instead of the 5 of the naive index)
    dict(level="wrapper", P=3600, rain=False, maxgap=None, unit="ns", tz="Australia/Sydney", tag="ok",
         amb=[True] * 5, change=[1633226400, 3600, "span"],
         wall=[1633219800, 1633225800, 1633231200, 1633235400, 1633241100], vals=[1.0, 2.0, 4.0, 3.0, 5.0]),
    dict(level="wrapper", P=3600, rain=False, maxgap=None, unit="us", tz="Australia/Sydney", tag="ok",
         amb=[True] * 5, change=[1617505200, -3600, "span"],
         wall=[1617495000, 1617501000, 1617506400, 1617510600, 1617516300], vals=[1.0, 2.0, 4.0, 3.0, 5.0]),
]


def signature(case, out_kind, nout):
    if case["level"] == "kernel":
        sec = case["sec"]
        return ("k", case["P"], case["rain"], case["tag"], min(len(sec), 5),
                len(set(sec)) < len(sec), any(math.isnan(v) for v in case["vals"]),
                any(v < 0 for v in case["vals"]), out_kind, min(nout, 3),
                case["maxgap"] == 3600, (case["hstart"] - sec[0]) in (0, 3600))
    w = case["wall"]
    ch = case.get("change")
    chsig = None if not ch else (ch[1], ch[2], w[0] < ch[0], w[-1] >= ch[0] + max(ch[1], 0),
                                 (ch[0] - w[0]) < 3600, case["amb"][0], case["amb"][-1])
    return ("w", case["P"], case["rain"], case["tag"], case["unit"], case["tz"], min(len(w), 5),
            len(set(w)) < len(w), any(math.isnan(v) for v in case["vals"]),
            any(v < 0 for v in case["vals"]), out_kind, case["maxgap"] is None, chsig)


def run(ctx):
    ctx.rule = ("cases from one PRNG. kernel level: period 1800/3600 x rainfall 0/1 x maxgapsec 3600..5 d x "
                "2..36 (120 thorough) integer-second stamps between 1950 and 2190 at spacings of seconds, "
                "minutes, hours, days and mixtures, 8% duplicates, 20% stamps on period boundaries x origin as "
                "the wrapper chooses it / on a stamp / arbitrary x values dyadic, integer, uniform, constant, "
                "tiny, with NaN, negative values and values on the -1e-8 threshold x nvalh around the data "
                "length (0, 1, 2, shorter, longer) x error paths (bad period, bad rainfall flag, origin before "
                "the data, one stamp, a stamp going backwards). wrapper level: the same series (>= 2 stamps "
                "spanning >= 2 periods) x unit s/ms/us/ns x naive / UTC / six fixed-offset zones x default or "
                "explicit maxgapsec x error paths. wrapper level, changing offset: the same series localised in one "
                "of 18 zones with daylight saving / permanent changes of offset (shifts of 30 min, 1 h, 2 h, 24 h, "
                "both hemispheres, zoneinfo and dateutil tzinfo, years 1950..2189), placed on a change of offset: "
                "spanning it (first stamp 1 s..3 d before), starting inside / just after it, ending just after it; "
                "stamps on the edges of the skipped / repeated wall-clock interval; skipped readings dropped; "
                "repeated readings flagged first / second occurrence / switching once (instants non-decreasing) "
                "x unit x period x rainfall x maxgapsec. non-trivial = distinct signature (level, period, mode, "
                "error class, size class, duplicates, NaN, negative, unit, zone, result class, shift and "
                "placement of the change of offset)")
    ctx.trusted = cm.STD_TRUST + [
        "pandas builds the DatetimeIndex of each unit/zone from the wall-clock seconds; the raw integers and "
        "the UTC offset given to the model are read back from pandas (asi8, utcoffset)",
        "changes of UTC offset of a zone are located with zoneinfo on the system's zone data (generator only); "
        "pandas localises the wall clock (tz_localize with an explicit first/second-occurrence array)",
        "the wrapper is run with c_hydrodiy_data replaced by a guard object that forwards to the real kernel "
        "and refuses calls outside the C05 memory-safety contract",
    ]
    ctx.tested_not_proved = [
        "binary64 rounding: returned values equal the exact rational period average to 1e-9*max(1,|values|) "
        "- tested with a Fraction oracle on the implementation",
        "pandas/numpy glue of the wrapper (tz_localize(None), astype('datetime64[s]'), Timestamp fields, "
        "Timedelta.total_seconds, date_range) - sampled by the wrapper-level correspondence",
        "series over which the UTC offset changes (daylight saving) are outside the model (one offset): they are "
        "checked by the Fraction oracle on the wall clock and against the result for the naive index only",
        "aware indices whose wall clock goes backwards (instants increasing through the end of daylight saving) "
        "are not generated: the series is read by its wall clock, which must be non-decreasing",
    ]
    proved = cm.prove_with_kernels(ctx, ["c_var2h"])
    cm.use_impl()
    rng = ctx.rng
    terms, replays, cases = [], [], []
    orc_fail = set()

    def add(term, replay, sig):
        terms.append(term)
        replays.append(replay)
        ctx.count(sig)
        if len(terms) % 170 == 1:
            ctx.sample({k: (v[:8] if isinstance(v, list) else v) for k, v in replay.items()})
        return len(terms) - 1

    def do_case(case):
        cm.mark({"call": "var2h", "case": case})
        if case["level"] == "kernel":
            out = run_kernel(case)
            replay = dict(case, impl_output=out, python=py_call(case))
            i = add(term_kernel(case, out), replay,
                    signature(case, "err" if out is None else "ok", 0 if out is None else len(out)))
            fails = oracle_kernel(case, out)
        else:
            amb = case.get("amb")
            raw, off, offs = index_model_args(case["wall"], case["unit"], case["tz"], amb)
            res = run_wrapper(case["wall"], case["vals"], case["unit"], case["tz"],
                              case["P"], case["maxgap"], case["rain"], amb)

            def rerun(unit, tz):
                ctx.count()
                return run_wrapper(case["wall"], case["vals"], unit, tz, case["P"], case["maxgap"],
                                   case["rain"], amb if tz is not None else None)
            ref = res if (case["unit"] == "ns" and case["tz"] is None) else rerun("ns", None)
            replay = dict(case, utc_offset=off if raw is not None else sorted(offs),
                          impl_result=list(res), python=py_call(case))
            sig = signature(case, res[0], len(res[2]) if res[0] == "ok" else 0)
            fails = oracle_wrapper(case, res, ref, rerun)
            if raw is None:
                # UTC offset changing inside the series: no model term (oracle only)
                ctx.notes["oracle_only_varying_offset"] = ctx.notes.get("oracle_only_varying_offset", 0) + 1
                ctx.count(sig + (len(offs),))
                if ctx.notes["oracle_only_varying_offset"] % 60 == 1:
                    ctx.sample({k: (v[:8] if isinstance(v, list) else v) for k, v in replay.items()})
                for key, what in fails:
                    ctx.failure(key, replay, what)
                cases.append(case)
                return
            i = add(term_wrapper(case, raw, off, res), replay, sig)
        for key, what in fails:
            orc_fail.add(i)
            ctx.failure(key, replays[i], what)
        cases.append(case)

    if getattr(ctx, "replay", None):
        rc = ctx.replay.get("replay", ctx.replay)
        case = {k: v for k, v in rc.items() if k not in ("impl_output", "impl_result", "python", "utc_offset")}
        do_case(case)
    else:
        for case in FIXED_CORPUS + cm.load_corpus(PID):
            do_case(dict(case))
        nk = ctx.scale(520, 9000)
        nw = ctx.scale(330, 5000)
        for _ in range(nk):
            do_case(gen_kernel(rng, ctx.thorough))
        for _ in range(nw):
            do_case(gen_wrapper(rng, ctx.thorough))
        for _ in range(ctx.scale(170, 2600)):
            do_case(gen_wrapper_dst(rng, ctx.thorough))

    bad, nshards, failed = cm.run_case_files(PID, HEADER, "vcase", "v_ok", terms, shard=120)
    ctx.notes["correspondence_cases"] = len(terms)
    ctx.notes["rounding_drift_cases"] = 0
    if bad:
        # second pass on the disagreeing cases only: same NaN pattern and values within 1e-11
        # (a re-association of the floating-point expression is counted, not reported)
        bad2, _n2, failed2 = cm.run_case_files(PID, HEADER, "vcase", "v_ok_close",
                                               [terms[i] for i in bad], shard=120)
        if not failed2:
            real = [bad[j] for j in bad2]
            ctx.notes["rounding_drift_cases"] = len(bad) - len(real)
            bad = real
    ctx.notes["correspondence_mismatches"] = len(bad)
    for k in range(nshards):
        ctx.obligation(f"Cases_{PID}_{k}.agree (model = implementation on the shard)", True)
    cm.settle(ctx, proved, bad, failed, orc_fail, lambda i: replays[i],
              "Model/Var2h.v vs c_var2h.c + dutils.var2h")
    return ctx.finish()
