"""C20 - sampling, ranking and summary helpers return what their names promise.

Correspondence (inside Coq, Model/Summary.v, binary64 instance) and an independent
exact-rational / brute-force oracle for
  sutils.ppos, standard_normal, lhs, pareto_front,
  boxplot.boxplot_stats, Boxplot(...).stats (with and without `by`),
  Violin(...).stats / kde_x / kde_y.
"""
import math
from fractions import Fraction

import numpy as np

from harness import common as cm

PID = "C20"
HEADER = ("From Coq Require Import ZArith List PrimFloat.\n"
          "From Hy Require Import Base.Num Model.Summary.")

NAN, INF = float("nan"), float("inf")


# ----------------------------------------------------------------------------
# Coq terms

def fl(xs):
    return cm.coq_flist([float(x) for x in xs])


def fll(xss):
    return "[" + "; ".join(fl(xs) for xs in xss) + "]"


def zll(xss):
    return "[" + "; ".join(cm.coq_zlist(xs) for xs in xss) + "]"


def fstats_term(st):
    return ("(mkFstats %s %s %s %s %s)" % (cm.coq_z(st["count"]), fl(st["prc"]), cm.coq_float(st["mean"]),
                                           cm.coq_float(st["max"]), cm.coq_float(st["min"])))


# ----------------------------------------------------------------------------
# exact helpers for the oracles

def isfin(x):
    return not (math.isnan(x) or math.isinf(x))


def F(x):
    return Fraction(x)


def exact_percentile(s, p):
    """linear-interpolation percentile (Hyndman-Fan 7) of the sorted Fractions s at level p (0..100)"""
    n = len(s)
    v = (n - 1) * p / 100
    lo = math.floor(v)
    if lo >= n - 1:
        return s[-1]
    if lo < 0:
        return s[0]
    return s[lo] + (s[lo + 1] - s[lo]) * (v - lo)


def exact_levels(cov):
    q1 = (100 - F(cov)) / 2
    return q1, 100 - q1


def scale_of(vals):
    fin = [abs(v) for v in vals if isfin(v)]
    return max([1.0] + fin)


def close(a, want, tol):
    """a (float) equals the exact value `want` (Fraction) within tol; NaN never does"""
    if math.isnan(a) or math.isinf(a):
        return False
    return abs(F(a) - want) <= F(tol)


# ----------------------------------------------------------------------------
# generators

def gen_values(rng, n, thorough=False):
    """n finite values: continuous, heavily tied, constant or mixed; any location and scale"""
    if n == 0:
        return []
    kind = rng.choice(["gauss", "gauss", "ints", "ints", "const", "unif", "mixed"])
    scale = rng.choice([1.0, 1.0, 1e-2, 1e3, 1e6])
    loc = rng.choice([0.0, 0.0, rng.gauss(0, 10) * scale])
    if kind == "gauss":
        v = [loc + rng.gauss(0, 1) * scale for _ in range(n)]
    elif kind == "unif":
        v = [loc + rng.uniform(-1, 1) * scale for _ in range(n)]
    elif kind == "ints":
        k = rng.choice([1, 2, 3, 5, 10])
        v = [float(rng.randint(-k, k)) * scale for _ in range(n)]
    elif kind == "const":
        c = rng.choice([0.0, 1.0, -2.5 * scale, loc + 0.1])
        v = [c] * n
    else:
        v = [rng.choice([0.0, loc, loc + scale]) if rng.random() < 0.5 else loc + rng.gauss(0, 1) * scale
             for _ in range(n)]
    return [float(x) for x in v]


def add_nonfinite(rng, v):
    """NaN and +-inf anywhere"""
    v = list(v)
    n = len(v)
    if n == 0:
        return v
    mode = rng.random()
    if mode < 0.3:
        return v
    if mode < 0.4:
        p = 1.0 if rng.random() < 0.3 else 0.8       # nearly all / all missing
    else:
        p = rng.choice([0.02, 0.1, 0.3])
    pool = rng.choice([[NAN], [NAN, INF, -INF], [INF], [-INF], [NAN, INF]])
    for i in range(n):
        if rng.random() < p:
            v[i] = rng.choice(pool)
    if rng.random() < 0.3:
        v[rng.randrange(n)] = rng.choice([NAN, INF, -INF])
    return v


def gen_len(rng, maxlen):
    return rng.choice([0, 1, 2, 3, 4, 5, 6, 8, rng.randint(0, 40), rng.randint(0, maxlen)])


def gen_coverages(rng):
    """box in [40, 100), whiskers in (box, 100]; percentile labels (one decimal) stay distinct"""
    r = rng.random()
    if r < 0.25:
        return 50.0, 90.0
    if r < 0.35:
        return 40.0, 100.0
    if r < 0.5:
        box = float(rng.choice([40, 45, 50, 60, 66, 75, 80, 90, 95, 98]))
        wh = float(rng.choice([w for w in [50, 60, 70, 80, 90, 95, 99, 100] if w > box + 0.9] or [100]))
        return box, wh
    box = round(rng.uniform(40, 98.5), rng.choice([0, 1, 3]))
    box = max(40.0, box)
    wh = min(100.0, round(rng.uniform(box + 0.5, 100.0), rng.choice([0, 1, 3])))
    if wh < box + 0.5:
        wh = 100.0
    return float(box), float(wh)


# ----------------------------------------------------------------------------
# observation of internal seams (library calls whose results are inputs of the model)

class Patch:
    def __init__(self, obj, name, new):
        self.obj, self.name, self.new = obj, name, new

    def __enter__(self):
        self.old = getattr(self.obj, self.name)
        setattr(self.obj, self.name, self.new)

    def __exit__(self, *a):
        setattr(self.obj, self.name, self.old)


def labels_of(levels):
    return ["{0:0.1f}%".format(q) for q in levels]


def read_stats(col, levels):
    """col: mapping label -> value (pandas Series). Missing rows (dropped all-NaN rows of the
    pivot) read as NaN.  Returns None when a label occurs twice."""
    def get(k):
        if k not in col.index:
            return NAN
        v = col[k]
        if hasattr(v, "__len__"):
            raise KeyError(k)
        return float(v)
    try:
        prc = [get(k) for k in labels_of(levels)]
        cnt = get("count")
        return {"count": int(cnt) if not math.isnan(cnt) else -1, "prc": prc,
                "mean": get("mean"), "max": get("max"), "min": get("min")}
    except KeyError:
        return None


# ----------------------------------------------------------------------------

def run(ctx):
    ctx.rule = ("one PRNG; ppos: sizes 0..300 (thorough 2000) x constants on/inside/outside [0, 0.5]; "
                "standard_normal: NaN-free vectors of 0..300 values, continuous/tied/constant, sorted flag, NaN "
                "error path; lhs: 1..300 samples x 1..6 parameters, ranges of any location and width 1e-3..1e6, "
                "rejected bounds; pareto_front: 0..60 points x 1..5 columns, integer lattices (heavy ties), NaN "
                "coordinates, both orientations; box plot: columns of 0..300 values (NaN/+-inf anywhere, ties, "
                "constant), box coverage in [40,100), whiskers in (box,100], rejected coverages, `by` with 2..5 "
                "categories of unequal size; violin: frames of 1..3 columns x 1..520 rows incl. odd row counts, "
                "constant and non-finite columns; non-trivial = distinct (function, size class, tie/NaN class, "
                "outcome) signature")
    ctx.trusted = cm.STD_TRUST + [
        "numpy.linspace and numpy.percentile (linear method) are modelled from their source and validated by "
        "dedicated correspondence cases (CLinspace, CPercentile)",
        "observation seams: numpy.random.permutation/uniform, sutils.norm.ppf and violinplot.gaussian_kde are "
        "wrapped by recording proxies in the harness process (their results are inputs of the model)",
    ]
    ctx.tested_not_proved = [
        "binary64 rounding of every clause (strata, symmetry of plotting positions to 1e-12, percentiles to 1e-9*scale)",
        "pandas glue: DataFrame.apply / groupby.apply / pivot_table / quantile / median / rank (group-wise = group alone, tested)",
        "scipy.stats.gaussian_kde and norm.ppf (external; ppf assumed strictly increasing on (0,1))",
        "density profile in [0,1] with min 0 and max 1 on the implementation (theorem is about the normalisation step)",
    ]
    # Props/PyTieScores.vo: ppos / compute_percentiles as TRANSLATED from the source = the model
    proved = cm.prove_with_kernels(ctx, ["c_paretofront"], extractors=["c20", "pygen"],
                                   extra_targets=["Props/PyTieScores.vo"])
    cm.use_impl()
    import pandas as pd
    from hydrodiy.stat import sutils
    from hydrodiy.plot import boxplot as hbox
    from hydrodiy.plot import violinplot as hvio
    rng = ctx.rng
    np.random.seed(rng.randrange(2 ** 32))
    TH = ctx.thorough

    terms, replays = [], []
    orc_fail = set()

    def add(term, replay, sig):
        terms.append(term)
        replays.append(replay)
        ctx.count(sig)
        if len(terms) % 300 == 1:
            ctx.sample({k: (v[:8] if isinstance(v, list) else v) for k, v in replay.items()})
        return len(terms) - 1

    def fail(idx, key, what, replay=None):
        if idx is not None:
            orc_fail.add(idx)
        ctx.failure(key, replay if replay is not None else replays[idx], what)

    corpus = cm.load_corpus(PID)
    rp = None
    if getattr(ctx, "replay", None):
        rp = ctx.replay.get("replay", ctx.replay)
        if not isinstance(rp, dict):
            rp = None

    def replay_is(call):
        return rp is not None and rp.get("call") == call

    # ------------------------------------------------------------------ ppos
    def do_ppos(nval, cst):
        try:
            out = [float(x) for x in sutils.ppos(nval, cst)]
        except ValueError:
            out = None
        i = add(f"CPpos {cm.coq_z(nval)} {cm.coq_float(cst)} {cm.coq_option(out, fl)}",
                {"call": "sutils.ppos", "nval": nval, "cst": cst, "impl": out},
                ("ppos", min(nval, 4), cst in (0.0, 0.5), out is None))
        inside = 0.0 <= cst <= 0.5
        if not inside:
            return      # outside the property's quantifier: the correspondence alone covers the error path
        if out is None:
            fail(i, "C20/ppos/valid-constant-rejected", f"ppos({nval}, {cst!r}) raised")
            return
        if len(out) != nval:
            fail(i, "C20/ppos/length", f"ppos({nval}, {cst!r}) has {len(out)} values")
            return
        c = F(cst)
        for k, p in enumerate(out):
            want = (k + 1 - c) / (nval + 1 - 2 * c)
            if not close(p, want, 1e-12):
                fail(i, "C20/ppos/formula", f"ppos({nval}, {cst!r})[{k}] = {p!r}, expected {float(want)!r}")
                return
            if not 0.0 < p < 1.0:
                fail(i, "C20/ppos/not-in-open-unit-interval", f"ppos({nval}, {cst!r})[{k}] = {p!r}")
                return
            if k > 0 and not out[k - 1] < p:
                fail(i, "C20/ppos/not-increasing", f"ppos({nval}, {cst!r})[{k - 1}..{k}] = {out[k - 1]!r}, {p!r}")
                return
            if abs(p + out[nval - 1 - k] - 1.0) > 1e-12:
                fail(i, "C20/ppos/not-symmetric", f"ppos({nval}, {cst!r}): p[{k}] + p[{nval - 1 - k}] != 1")
                return

    if replay_is("sutils.ppos"):
        do_ppos(int(rp["nval"]), float(rp["cst"]))
    CSTS = [0.0, 0.5, 0.3, 0.375, 0.3175, 0.4, 0.25]
    for nval in list(range(0, 8)) + [rng.randint(8, ctx.scale(300, 2000)) for _ in range(ctx.scale(25, 200))]:
        for cst in rng.sample(CSTS, 3) + [rng.uniform(0, 0.5)]:
            do_ppos(nval, cst)
    for cst in [-0.1, 0.6, -1e-12, 0.5000000001, 5e-324, 0.49999999999999994]:
        do_ppos(rng.randint(1, 20), cst)

    # ------------------------------------------------------------------ standard_normal
    class NormProxy:
        def __init__(self, real):
            self.real, self.args = real, []

        def ppf(self, q, *a, **k):
            self.args.append(np.array(q, dtype=float).copy())
            return self.real.ppf(q, *a, **k)

        def __getattr__(self, name):
            return getattr(self.real, name)

    def do_snorm(x, cst, srt):
        proxy = NormProxy(sutils.norm)
        try:
            with Patch(sutils, "norm", proxy):
                unorm, ranks = sutils.standard_normal(np.array(x, dtype=float), cst=cst, sorted=srt)
            unorm = [float(v) for v in np.asarray(unorm)]
            ranks = [float(v) for v in np.asarray(ranks)]
            args = [float(v) for v in proxy.args[0]] if len(proxy.args) == 1 else None
        except ValueError:
            unorm = ranks = args = None
        hasnan = any(math.isnan(v) for v in x)
        if ranks is None:
            exp = "None"
        elif args is None:
            return   # seam not observed (code no longer calls norm.ppf): oracle only
        else:
            exp = f"(Some ({fl(ranks)}, {fl(args)}))"
        nties = len(x) - len(set(x))
        i = add(f"CSnorm {fl(x)} {cm.coq_float(cst)} {cm.coq_bool(srt)} {exp}",
                {"call": "sutils.standard_normal", "x": x, "cst": cst, "sorted": srt, "ranks": ranks, "unorm": unorm},
                ("snorm", min(len(x), 4), nties > 0, nties == len(x) - 1 and len(x) > 1, srt, ranks is None))
        if hasnan:
            return      # outside the quantifier (NaN-free vectors): correspondence only
        if ranks is None:
            fail(i, "C20/standard_normal/valid-data-rejected", "standard_normal raised on NaN-free data")
            return
        n = len(x)
        if len(unorm) != n or len(ranks) != n:
            fail(i, "C20/standard_normal/length", "output length differs from input length")
            return
        # ranks are the data ranks (average method, zero based), independent exact computation
        if not srt:
            for k in range(n):
                less = sum(1 for v in x if v < x[k])
                eq = sum(1 for v in x if v == x[k])
                want = Fraction(2 * less + eq + 1, 2) - 1
                if F(ranks[k]) != want:
                    fail(i, "C20/standard_normal/rank", f"rank[{k}] = {ranks[k]!r}, expected {float(want)!r}")
                    return
        # scores: finite, and a strictly increasing function of the ranks
        if any(not isfin(u) for u in unorm):
            fail(i, "C20/standard_normal/score-not-finite", f"non finite normal score for cst={cst!r}")
            return
        order = sorted(range(n), key=lambda k: ranks[k])
        for a, b in zip(order, order[1:]):
            if ranks[a] == ranks[b]:
                if unorm[a] != unorm[b]:
                    fail(i, "C20/standard_normal/not-a-function-of-rank",
                         f"equal ranks {ranks[a]!r} with scores {unorm[a]!r}, {unorm[b]!r}")
                    return
            elif not unorm[a] < unorm[b]:
                fail(i, "C20/standard_normal/not-increasing-in-rank",
                     f"ranks {ranks[a]!r} < {ranks[b]!r} but scores {unorm[a]!r}, {unorm[b]!r}")
                return

    if replay_is("sutils.standard_normal"):
        do_snorm([float(v) for v in rp["x"]], float(rp["cst"]), bool(rp["sorted"]))
    for it in range(ctx.scale(70, 700)):
        n = rng.choice([0, 1, 2, 3, 4, rng.randint(0, 30), rng.randint(0, ctx.scale(300, 1500))])
        x = gen_values(rng, n)
        srt = rng.random() < 0.2
        if srt:
            x = sorted(x)
        if rng.random() < 0.06 and n > 0:
            x[rng.randrange(n)] = NAN
        do_snorm(x, rng.choice([0.0, 0.0, 0.3, 0.375, 0.5, rng.uniform(0, 0.5)]), srt)

    # ------------------------------------------------------------------ numpy.linspace
    for it in range(ctx.scale(40, 300)):
        num = rng.choice([0, 1, 2, 3, rng.randint(0, 60)])
        a = rng.choice([0.0, rng.gauss(0, 1), rng.gauss(0, 1e3)])
        b = rng.choice([a, 1.0, a + rng.uniform(0, 10), rng.gauss(0, 1e3), a + 5e-324])
        out = [float(v) for v in np.linspace(a, b, num)]
        add(f"CLinspace {cm.coq_float(a)} {cm.coq_float(b)} {cm.coq_z(num)} {fl(out)}",
            {"call": "numpy.linspace", "start": a, "stop": b, "num": num, "impl": out[:6]},
            ("linspace", min(num, 3), a == b))

    # ------------------------------------------------------------------ lhs
    def do_lhs(n, pmin, pmax):
        rec = {"perm": [], "unif": []}
        operm, ounif = np.random.permutation, np.random.uniform

        def perm(*a, **k):
            r = operm(*a, **k)
            rec["perm"].append([int(v) for v in r])
            return r

        def unif(*a, **k):
            r = ounif(*a, **k)
            rec["unif"].append([float(v) for v in np.atleast_1d(r)])
            return r
        try:
            with Patch(np.random, "permutation", perm), Patch(np.random, "uniform", unif):
                smp = sutils.lhs(n, np.array(pmin), np.array(pmax))
            cols = [[float(v) for v in smp[:, j]] for j in range(smp.shape[1])]
        except (ValueError, ZeroDivisionError):
            cols = None
        npar = len(pmin)
        if cols is not None and (len(rec["perm"]) != npar or len(rec["unif"]) != npar):
            observed = False
            kks, jits = [[0] * n] * npar, [[0.0] * n] * npar
        else:
            observed = True
            kks, jits = rec["perm"], rec["unif"]
        replay = {"call": "sutils.lhs", "nsamples": n, "pmin": pmin, "pmax": pmax, "impl_columns": cols}
        i = None
        if observed:
            i = add(f"CLhs {cm.coq_z(n)} {fl(pmin)} {fl(pmax)} {zll(kks if cols is not None else [])} "
                    f"{fll(jits if cols is not None else [])} {cm.coq_option(cols, fll)}",
                    replay, ("lhs", min(n, 3), npar, cols is None))
        valid = len(pmin) == len(pmax) and all(b > a for a, b in zip(pmin, pmax)) and n >= 1
        if not valid:
            return      # outside the quantifier (pmin < pmax, n >= 1): correspondence only
        if cols is None:
            fail(i, "C20/lhs/valid-input-rejected", f"lhs({n}, {pmin}, {pmax}) raised", replay)
            return
        if len(cols) != npar or any(len(c) != n for c in cols):
            fail(i, "C20/lhs/shape", "sample matrix is not nsamples x nparams", replay)
            return
        # exactly one point in each of the n equal strata of every range (exact rationals;
        # a point within 1e-9 stratum widths of a boundary may count for either side)
        for j in range(npar):
            a, b = F(pmin[j]), F(pmax[j])
            du = (b - a) / n
            sure, free = [], []
            for s in cols[j]:
                if not isfin(s):
                    fail(i, "C20/lhs/not-finite", f"parameter {j}: sample {s!r}", replay)
                    return
                t = (F(s) - a) / du
                k = math.floor(t)
                fr = t - k
                if fr < Fraction(1, 10 ** 9):
                    free.append((k - 1, k))
                elif fr > 1 - Fraction(1, 10 ** 9):
                    free.append((k, k + 1))
                else:
                    sure.append(k)
            okj = len(set(sure)) == len(sure) and all(0 <= k < n for k in sure)
            if okj:
                left = set(range(n)) - set(sure)
                for opts in free:
                    hit = [k for k in opts if k in left]
                    if not hit:
                        okj = False
                        break
                    left.discard(hit[0])
                okj = okj and not left
            if not okj:
                cnt = {}
                for s in cols[j]:
                    k = math.floor((F(s) - a) / du)
                    cnt[k] = cnt.get(k, 0) + 1
                badk = sorted(k for k in set(cnt) | set(range(n)) if cnt.get(k, 0) != 1)[:5]
                fail(i, "C20/lhs/stratum-count", f"parameter {j} of [{pmin[j]!r}, {pmax[j]!r}], n={n}: strata "
                     f"{badk} do not hold exactly one point", replay)
                return

    if replay_is("sutils.lhs"):
        do_lhs(int(rp["nsamples"]), [float(v) for v in rp["pmin"]], [float(v) for v in rp["pmax"]])
    for it in range(ctx.scale(60, 600)):
        n = rng.choice([1, 1, 2, 3, rng.randint(1, 30), rng.randint(1, ctx.scale(300, 1200))])
        npar = rng.randint(1, 6)
        pmin, pmax = [], []
        for _ in range(npar):
            loc = rng.choice([0.0, -1.0, rng.gauss(0, 1), rng.gauss(0, 1e4), rng.uniform(-1e6, 1e6)])
            w = rng.choice([1.0, 2.0, 10 ** rng.uniform(-3, 6), rng.uniform(0.001, 100)])
            pmin.append(float(loc))
            pmax.append(float(loc + w))
            if pmax[-1] <= pmin[-1]:
                pmax[-1] = pmin[-1] + 1.0
        r = rng.random()
        if r < 0.05:
            k = rng.randrange(npar)
            pmax[k] = pmin[k] if rng.random() < 0.5 else pmin[k] - rng.random()
        elif r < 0.07 and npar > 2:
            pmax = pmax[:-1]
        do_lhs(n, pmin, pmax)

    # ------------------------------------------------------------------ pareto_front
    def o_dominated(data, o):
        n = len(data)
        out = []
        for i in range(n):
            dom = 0
            for j in range(n):
                if j == i:
                    continue
                if all(math.isnan(a) or math.isnan(b) or (a > b if o > 0 else a < b)
                       for a, b in zip(data[j], data[i])):
                    dom = 1
                    break
            out.append(dom)
        return out

    def do_pareto(data, ncol, o):
        arr = np.array(data, dtype=np.float64).reshape(len(data), ncol)
        cm.mark({"call": "sutils.pareto_front", "data": data, "orientation": o})
        out = [int(v) for v in sutils.pareto_front(arr, o)]
        hasnan = any(math.isnan(v) for r in data for v in r)
        i = add(f"CPareto {cm.coq_z(o)} {fll(data)} {cm.coq_zlist(out)}",
                {"call": "sutils.pareto_front", "data": data, "ncol": ncol, "orientation": o, "impl": out},
                ("pareto", min(len(data), 3), ncol, hasnan, o, min(sum(out), 2), len(set(map(tuple, data))) < len(data)))
        want = o_dominated(data, o)
        if out != want:
            k = [a != b for a, b in zip(out, want)].index(True) if len(out) == len(want) else -1
            fail(i, "C20/pareto_front/flag-not-strict-dominance" + ("/nan-coordinates" if hasnan else ""),
                 f"pareto_front(orientation={o}): point {k} flagged {out[k] if k >= 0 else '?'}, "
                 f"strict dominance in every non-missing coordinate says {want[k] if k >= 0 else '?'}")
            return
        if not hasnan and len(data) > 0 and all(out):
            fail(i, "C20/pareto_front/empty-front", "every point of a complete data set is flagged as dominated")
            return
        neg = [[-v for v in r] for r in data]
        rev = [int(v) for v in sutils.pareto_front(np.array(neg, dtype=np.float64).reshape(len(data), ncol), -o)]
        if rev != out:
            fail(i, "C20/pareto_front/orientation-not-negation",
                 f"pareto_front(data, {o}) != pareto_front(-data, {-o})")

    if replay_is("sutils.pareto_front"):
        do_pareto([[float(v) for v in r] for r in rp["data"]], int(rp["ncol"]), int(rp["orientation"]))
    for it in range(ctx.scale(260, 2600)):
        n = rng.choice([0, 1, 2, 3, rng.randint(0, 12), rng.randint(0, 60)])
        ncol = rng.randint(1, 5)
        kind = rng.random()
        if kind < 0.5:
            k = rng.choice([1, 2, 3, 6])
            data = [[float(rng.randint(0, k)) for _ in range(ncol)] for _ in range(n)]
        elif kind < 0.75:
            data = [[rng.gauss(0, 1) for _ in range(ncol)] for _ in range(n)]
        else:   # chains and anti-chains
            base = [rng.gauss(0, 1) for _ in range(n)]
            sgn = [rng.choice([1, -1]) if rng.random() < 0.5 else 1 for _ in range(ncol)]
            data = [[s * b + rng.choice([0.0, 0.0, rng.gauss(0, 0.3)]) for s in sgn] for b in base]
        pn = rng.choice([0.0, 0.0, 0.05, 0.3, 0.7])
        data = [[NAN if rng.random() < pn else v for v in r] for r in data]
        if rng.random() < 0.1 and n > 1:
            data[rng.randrange(n)] = list(data[rng.randrange(n)])
        do_pareto(data, ncol, rng.choice([1, -1]))

    # ------------------------------------------------------------------ numpy.percentile
    for it in range(ctx.scale(150, 1500)):
        n = rng.choice([1, 2, 3, 4, 5, rng.randint(1, 50), rng.randint(1, 300)])
        s = sorted(gen_values(rng, n))
        p = rng.choice([0.0, 100.0, 50.0, 25.0, 75.0, 5.0, 95.0, rng.uniform(0, 100),
                        100.0 * rng.randrange(n) / max(1, n - 1) if n > 1 else 30.0])
        p = min(100.0, max(0.0, float(p)))
        out = float(np.percentile(np.array(s), p))
        add(f"CPercentile {fl(s)} {cm.coq_float(p)} {cm.coq_float(out)}",
            {"call": "numpy.percentile", "sorted": s, "p": p, "impl": out}, ("percentile", min(n, 4), p in (0.0, 100.0)))

    # ------------------------------------------------------------------ box plot statistics
    def o_boxstats(i, vals, box, wh, st, where, replay):
        """the statement on one column / group: st = implementation's numbers"""
        fin = [v for v in vals if isfin(v)]
        nonfin = len(fin) < len(vals)
        tag = "/nonfinite-input" if nonfin else ""
        if st["count"] != len(fin):
            fail(i, f"C20/{where}/count{tag}", f"count = {st['count']}, finite values: {len(fin)}", replay)
            return
        allv = st["prc"] + [st["mean"], st["max"], st["min"]]
        if all(math.isnan(v) for v in allv):
            # the NaN row: what the code documents for small samples (the property text leaves
            # the minimum sample size open; the model follows the threshold found in the source)
            if len(fin) > 3:
                fail(i, f"C20/{where}/nan-row-for-large-sample{tag}",
                     f"{len(fin)} finite values but every statistic is NaN", replay)
            return
        if not fin:
            fail(i, f"C20/{where}/statistics-of-empty-sample{tag}", f"no finite value but statistics {allv}", replay)
            return
        s = sorted(F(v) for v in fin)
        sc = scale_of(fin)
        tol = 1e-9 * sc
        b1, b2 = exact_levels(box)
        w1, w2 = exact_levels(wh)
        for name, lev, got in zip(["whisker-low", "box-low", "median", "box-high", "whisker-high"],
                                  [w1, b1, Fraction(50), b2, w2], st["prc"]):
            want = exact_percentile(s, lev)
            if not close(got, want, tol):
                fail(i, f"C20/{where}/percentile{tag}", f"{name} (level {float(lev)}) = {got!r}, the finite "
                     f"sample gives {float(want)!r} (n={len(fin)})", replay)
                return
        seq = [st["min"]] + st["prc"] + [st["max"]]
        if any(not (a <= b + 1e-12 * sc) for a, b in zip(seq, seq[1:])):
            fail(i, f"C20/{where}/not-ordered{tag}", f"min, percentiles, max not in non-decreasing order: {seq}", replay)
            return
        if F(st["min"]) != s[0] or F(st["max"]) != s[-1]:
            fail(i, f"C20/{where}/minmax{tag}", f"min/max = {st['min']!r}/{st['max']!r}, finite sample "
                 f"{float(s[0])!r}/{float(s[-1])!r}", replay)
            return
        if not close(st["mean"], sum(s) / len(s), tol):
            fail(i, f"C20/{where}/mean{tag}", f"mean = {st['mean']!r}, finite sample {float(sum(s) / len(s))!r}", replay)

    def sig_col(vals):
        fin = [v for v in vals if isfin(v)]
        return (min(len(vals), 5), min(len(fin), 5), len(fin) < len(vals), len(set(fin)) < len(fin),
                len(set(fin)) == 1 and len(fin) > 1)

    def do_box(cols, box, wh):
        """cols: dict name -> list (same length >= 1): Boxplot(DataFrame).stats and boxplot_stats"""
        valid = box >= 40.0 and wh > box
        df = pd.DataFrame({k: np.array(v, dtype=float) for k, v in cols.items()})
        try:
            bp = hbox.Boxplot(df, box_coverage=box, whiskers_coverage=wh)
            stats = bp.stats
        except hbox.BoxplotError:
            stats = None
        levels = None
        if stats is not None:
            b1, b2 = hbox.compute_percentiles(box)
            w1, w2 = hbox.compute_percentiles(wh)
            levels = [w1, b1, 50, b2, w2]
        for name, vals in cols.items():
            replay = {"call": "Boxplot(DataFrame).stats", "column": vals, "box_coverage": box,
                      "whiskers_coverage": wh}
            st = None
            if stats is not None:
                st = read_stats(stats[name], levels)
                if st is None:
                    continue      # duplicate labels: outside the generator's intent
                replay["impl"] = st
            i = add(f"CBox {fl(vals)} {cm.coq_float(box)} {cm.coq_float(wh)} {cm.coq_option(st, fstats_term)}",
                    replay, ("box",) + sig_col(vals) + (stats is None,))
            if not valid:
                continue    # outside the quantifier (40 <= box < whiskers): correspondence only
            if stats is None:
                fail(i, "C20/boxplot/valid-coverage-rejected", f"Boxplot rejected box={box}, whiskers={wh}")
                continue
            o_boxstats(i, vals, box, wh, st, "boxplot", replay)
            # the function alone gives the same numbers as the frame-wise apply
            alone = read_stats(hbox.boxplot_stats(np.array(vals, dtype=float), box, wh), levels)
            if alone is not None and not same_stats(alone, st):
                fail(i, "C20/boxplot/column-differs-from-function",
                     f"Boxplot(...).stats column {st} != boxplot_stats(column) {alone}", replay)

    def same_stats(a, b):
        def eq(x, y, tol=0.0):
            if math.isnan(x) or math.isnan(y):
                return math.isnan(x) and math.isnan(y)
            return abs(x - y) <= tol
        sc = scale_of(a["prc"] + b["prc"])
        return (a["count"] == b["count"] and all(eq(x, y) for x, y in zip(a["prc"], b["prc"]))
                and eq(a["max"], b["max"]) and eq(a["min"], b["min"]) and eq(a["mean"], b["mean"], 1e-12 * sc))

    if replay_is("Boxplot(DataFrame).stats") and len(rp["column"]) > 0:
        do_box({"c0": [float(v) for v in rp["column"]]}, float(rp["box_coverage"]), float(rp["whiskers_coverage"]))
    maxlen = ctx.scale(300, 1200)
    for it in range(ctx.scale(130, 1300)):
        n = max(1, gen_len(rng, maxlen))
        ncols = rng.choice([1, 1, 2, 3])
        cols = {f"c{k}": add_nonfinite(rng, gen_values(rng, n)) for k in range(ncols)}
        box, wh = gen_coverages(rng)
        r = rng.random()
        if r < 0.04:
            box = rng.choice([39.9, 30.0, 0.0, 39.99999])
        elif r < 0.08:
            wh = rng.choice([box, box - 1.0, box - 1e-9])
        do_box(cols, box, wh)
    # the function alone on empty / tiny arrays
    for vals in [[], [NAN], [INF], [1.0], [1.0, 2.0, 3.0], [1.0, 2.0, 3.0, NAN, INF, -INF]]:
        st = read_stats(hbox.boxplot_stats(np.array(vals, dtype=float), 50.0, 90.0), [5.0, 25.0, 50, 75.0, 95.0])
        replay = {"call": "boxplot_stats", "column": vals, "box_coverage": 50.0, "whiskers_coverage": 90.0, "impl": st}
        i = add(f"CBox {fl(vals)} {cm.coq_float(50.0)} {cm.coq_float(90.0)} (Some {fstats_term(st)})",
                replay, ("boxfn",) + sig_col(vals))
        o_boxstats(i, vals, 50.0, 90.0, st, "boxplot", replay)

    # ------------------------------------------------------------------ box plot with `by`
    def do_boxby(by, vals, box, wh, aslabels):
        cats = sorted(set(by))
        labels = [f"g{c:02d}" for c in by] if aslabels else by
        replay = {"call": "Boxplot(data, by).stats", "by": by, "data": vals, "box_coverage": box,
                  "whiskers_coverage": wh, "string_labels": aslabels}
        try:
            bp = hbox.Boxplot(np.array(vals, dtype=float), by=np.array(labels), box_coverage=box,
                              whiskers_coverage=wh)
            stats = bp.stats
        except hbox.BoxplotError:
            stats = None
        exp = None
        if stats is not None:
            b1, b2 = hbox.compute_percentiles(box)
            w1, w2 = hbox.compute_percentiles(wh)
            levels = [w1, b1, 50, b2, w2]
            exp = []
            for c in cats:
                key = f"g{c:02d}" if aslabels else c
                if key not in stats.columns:
                    exp = "missing-column"
                    break
                st = read_stats(stats[key], levels)
                if st is None:
                    return
                exp.append((c, st))
            replay["impl"] = exp
        if exp == "missing-column":
            fail(None, "C20/boxplot-by/missing-group", f"category {c} has no column in Boxplot(data, by).stats", replay)
            return
        term = cm.coq_option(exp, lambda e: "[" + "; ".join(f"({cm.coq_z(c)}, {fstats_term(st)})" for c, st in e) + "]")
        i = add(f"CBoxBy {cm.coq_zlist(by)} {fl(vals)} {cm.coq_float(box)} {cm.coq_float(wh)} {term}",
                replay, ("boxby", len(cats), min(len(vals), 5), any(not isfin(v) for v in vals), stats is None))
        valid = len(cats) >= 2 and box >= 40.0 and wh > box
        if not valid:
            return      # outside the quantifier (2+ categories, 40 <= box < whiskers): correspondence only
        if stats is None:
            fail(i, "C20/boxplot-by/valid-arguments-rejected", f"{len(cats)} categories, box={box}, whiskers={wh}")
            return
        if len(stats.columns) != len(cats):
            fail(i, "C20/boxplot-by/extra-group", f"columns {list(stats.columns)} for categories {cats}")
            return
        for c, st in exp:
            sub = [v for b, v in zip(by, vals) if b == c]
            o_boxstats(i, sub, box, wh, st, "boxplot-by", replay)
            alone = read_stats(hbox.boxplot_stats(pd.Series(np.array(sub, dtype=float)), box, wh), levels)
            if alone is not None and not same_stats(alone, st):
                fail(i, "C20/boxplot-by/group-differs-from-group-alone",
                     f"category {c}: grouped {st} != boxplot_stats(group alone) {alone}", replay)
                return

    if replay_is("Boxplot(data, by).stats"):
        do_boxby([int(v) for v in rp["by"]], [float(v) for v in rp["data"]], float(rp["box_coverage"]),
                 float(rp["whiskers_coverage"]), bool(rp.get("string_labels")))
    for it in range(ctx.scale(70, 700)):
        ncat = rng.choice([2, 2, 3, 4, 5])
        if rng.random() < 0.05:
            ncat = 1
        sizes = [rng.choice([1, 2, 3, 4, 5, rng.randint(1, 30), rng.randint(1, ctx.scale(120, 500))]) for _ in range(ncat)]
        if ncat > 1 and len(set(sizes)) == 1:
            sizes[0] += 1 + rng.randint(0, 5)
        ids = rng.sample(range(0, 12), ncat)
        by = [c for c, s in zip(ids, sizes) for _ in range(s)]
        rng.shuffle(by)
        vals = add_nonfinite(rng, gen_values(rng, len(by)))
        box, wh = gen_coverages(rng)
        if rng.random() < 0.04:
            box = 35.0
        do_boxby(by, vals, box, wh, rng.random() < 0.3)

    # ------------------------------------------------------------------ violin
    def do_violin(cols):
        names = list(cols)
        nrows = len(cols[names[0]])
        df = pd.DataFrame({k: np.array(v, dtype=float) for k, v in cols.items()})
        events = []
        okde, ounif = hvio.gaussian_kde, np.random.uniform

        class KdeProxy:
            def __init__(self, dataset, *a, **k):
                events.append(["kde", False])
                self.k = okde(dataset, *a, **k)
                events[-1][1] = True

            def __call__(self, x):
                y = self.k(x)
                events.append(["eval", [float(v) for v in np.asarray(y)]])
                return y

        def unif(*a, **k):
            r = ounif(*a, **k)
            events.append(["unif", [float(v) for v in np.atleast_1d(r)]])
            return r
        replay = {"call": "Violin(DataFrame)", "columns": cols}
        err = None
        try:
            with Patch(hvio, "gaussian_kde", KdeProxy), Patch(np.random, "uniform", unif):
                vl = hvio.Violin(df)
                stats, kx, ky = vl.stats, vl.kde_x, vl.kde_y
        except Exception as e:      # any exception: the summaries are not returned
            err = e
        fins = {k: [v for v in cols[k] if isfin(v)] for k in names}
        if err is not None:
            consts = [k for k in names if len(fins[k]) > 2 and len(set(fins[k])) == 1]
            npts = max(100, min(500, nrows))
            if consts:
                key = "C20/violin/constant-column/raises"
            elif npts % 2 == 1 and any(len(fins[k]) > 2 for k in names):
                key = "C20/violin/odd-npoints/raises"
            else:
                key = "C20/violin/raises"
            msg = " ".join(str(err).split())[:100]
            fail(None, key, f"Violin raised {type(err).__name__}: {msg} "
                 f"({nrows} rows; constant columns: {consts})", replay)
            return
        # split the recorded events per column with more than 2 finite values
        segs, cur = [], None
        for ev in events:
            if ev[0] == "kde":
                cur = {"ok": ev[1], "u": None, "y": None}
                segs.append(cur)
            elif cur is not None and ev[0] == "unif":
                cur["u"] = ev[1]
            elif cur is not None and ev[0] == "eval":
                cur["y"] = ev[1]
        elig = [k for k in names if len(fins[k]) > 2]
        seg_of = dict(zip(elig, segs)) if len(segs) == len(elig) else {}
        rows = ["Q0", "Q25", "median", "Q75", "Q100"]
        for k in names:
            vals, fin = cols[k], fins[k]
            rp = {"call": "Violin(DataFrame)", "column": vals, "nrows": nrows}
            try:
                st = [float(stats.loc[r, k]) for r in rows]
            except KeyError:
                fail(None, "C20/violin/stats-layout", f"rows {list(stats.index)}", rp)
                return
            rp["impl_stats"] = st
            nonfin = len(fin) < len(vals)
            hasinf = any(math.isinf(v) for v in vals)
            i = add(f"CViolin {fl(vals)} {fl(st)}", rp, ("violin",) + sig_col(vals) + (hasinf,))
            # statement: quantiles 0, 25, 50, 75, 100 of the finite values
            if not fin:
                if not all(math.isnan(v) for v in st):
                    fail(i, "C20/violin/nonfinite-input/quantile-not-finite-sample" if hasinf else
                         "C20/violin/empty-column-not-nan", f"no finite value but statistics {st}")
                    continue
            else:
                s = sorted(F(v) for v in fin)
                tol = 1e-9 * scale_of(fin)
                for r, lev, got in zip(rows, [0, 25, 50, 75, 100], st):
                    want = exact_percentile(s, Fraction(lev))
                    if not close(got, want, tol):
                        fail(i, "C20/violin/nonfinite-input/quantile-not-finite-sample" if hasinf else
                             "C20/violin/quantile" + ("/nan-input" if nonfin else ""),
                             f"{r} = {got!r}, the finite sample gives {float(want)!r} (n={len(fin)})")
                        break
                else:
                    if any(not a <= b for a, b in zip(st, st[1:])):
                        fail(i, "C20/violin/not-ordered", f"quantiles not in non-decreasing order: {st}")
            # density profile
            x = [float(v) for v in kx[k].values]
            y = [float(v) for v in ky[k].values]
            has = not all(math.isnan(v) for v in x)
            seg = seg_of.get(k)
            if k in elig and seg is not None and (seg["u"] is not None or not seg["ok"]):
                u = seg["u"] or []
                j = add(f"CViolinX {fl(vals)} {cm.coq_z(nrows)} {fl(u)} {cm.coq_bool(seg['ok'])} "
                        f"{cm.coq_z(len(x))} {cm.coq_bool(has)} {fl(x if has else [])}",
                        dict(rp, impl_kde_x=x[:6], u=u[:4]), ("violin-x", min(len(fin), 4), nrows % 2, has,
                                                               nrows <= 100, nrows >= 500))
                if seg["y"] is not None and has:
                    add(f"CNorm {fl(seg['y'])} {fl(y)}", dict(rp, raw_density=seg["y"][:6], impl_kde_y=y[:6]),
                        ("norm", len(y) % 2))
            elif k not in elig:
                j = add(f"CViolinX {fl(vals)} {cm.coq_z(nrows)} [] true {cm.coq_z(len(x))} {cm.coq_bool(has)} []",
                        rp, ("violin-x-small", len(fin), has))
            else:
                j = i
            degenerate = len(fin) < 3 or (max(fin) - min(fin)) <= 1e-6 * scale_of(fin)
            if not has:
                if not degenerate:
                    fail(j, "C20/violin/profile-missing", f"no density profile for {len(fin)} finite values")
                elif not all(math.isnan(v) for v in y):
                    fail(j, "C20/violin/profile-inconsistent", "kde_x is NaN but kde_y is not")
                continue
            if len(fin) < 3:
                fail(j, "C20/violin/profile-from-too-few-values", f"profile from {len(fin)} finite values")
                continue
            if any(not isfin(v) for v in y) or min(y) != 0.0 or max(y) != 1.0:
                if degenerate:
                    continue
                fail(j, "C20/violin/profile-not-normalised",
                     f"kde_y range [{min(y)!r}, {max(y)!r}], non-finite: {sum(1 for v in y if not isfin(v))}")
                continue
            lo, hi = min(fin) - 1.0000001e-6, max(fin) + 1.0000001e-6
            if any(not a <= b for a, b in zip(x, x[1:])) or x[0] < lo or x[-1] > hi:
                fail(j, "C20/violin/abscissae", f"kde_x not sorted within the data range [{min(fin)!r}, {max(fin)!r}]")

    if replay_is("Violin(DataFrame)"):
        if "columns" in rp:
            do_violin({k: [float(v) for v in vs] for k, vs in rp["columns"].items()})
        elif "column" in rp:
            do_violin({"v0": [float(v) for v in rp["column"]]})
    # corpus: earlier failures, replayed first
    for case in corpus:
        if case.get("call") == "violin":
            do_violin({k: [float(v) for v in vs] for k, vs in case["columns"].items()})

    for it in range(ctx.scale(110, 900)):
        nrows = rng.choice([1, 2, 3, 4, 5, 7, rng.randint(1, 60), rng.randint(80, 130), rng.randint(1, ctx.scale(520, 1500)),
                            rng.choice([101, 103, 251, 499, 500, 501])])
        ncols = rng.choice([1, 1, 2, 3])
        cols = {}
        for k in range(ncols):
            v = gen_values(rng, nrows)
            # spread of non-constant columns well above the 1e-6 jitter and the 1e-10 censoring threshold
            fin = [z for z in v if isfin(z)]
            if len(set(fin)) > 1 and (max(fin) - min(fin)) < 1e-2 * scale_of(fin):
                v = [z * 1.0 for z in gen_values(rng, nrows)]
            cols[f"v{k}"] = add_nonfinite(rng, v) if rng.random() < 0.6 else v
        do_violin(cols)

    # ------------------------------------------------------------------ Coq
    bad, nshards, failed = cm.run_case_files(PID, HEADER, "scase", "s_ok", terms, shard=250, max_bytes=350000)
    ctx.notes["correspondence_cases"] = len(terms)
    ctx.notes["correspondence_mismatches"] = len(bad)
    for k in range(nshards):
        ctx.obligation(f"Cases_{PID}_{k}.agree (model = implementation on the shard)", True)
    cm.settle(ctx, proved, bad, failed, orc_fail, lambda i: replays[i],
              "Model/Summary.v vs sutils.py, c_paretofront.c, boxplot.py, violinplot.py")
    return ctx.finish()
