"""C20 - sampling, ranking and summary helpers return what their names promise.

Correspondence (inside Coq, Model/Summary.v, binary64 instance) and an independent
exact-rational / brute-force oracle for
  sutils.ppos, standard_normal, lhs, pareto_front,
  boxplot.boxplot_stats, Boxplot(...).stats (with and without `by`),
  Violin(...).stats / kde_x / kde_y.

The statement is about values (sizes, ranges, vectors, point sets, columns, grouping vectors): every
entry point is also exercised with the same values held in other stored representations (vec_rep,
mat_rep, frame_rep, scalar_rep) and inside histories of operations (run_history) where the caller
keeps and overwrites the objects he got and passed.
"""
import math
import random
from fractions import Fraction

import numpy as np

from harness import common as cm

PID = "C20"
HEADER = ("From Coq Require Import ZArith List PrimFloat.\n"
          "From Hy Require Import Base.Num Model.Summary.")

NAN, INF = float("nan"), float("inf")


# ----------------------------------------------------------------------------
# Coq terms

def fl(xs):
    return cm.coq_flist([float(x) for x in xs])


def fll(xss):
    return "[" + "; ".join(fl(xs) for xs in xss) + "]"


def zll(xss):
    return "[" + "; ".join(cm.coq_zlist(xs) for xs in xss) + "]"


def fstats_term(st):
    return ("(mkFstats %s %s %s %s %s)" % (cm.coq_z(st["count"]), fl(st["prc"]), cm.coq_float(st["mean"]),
                                           cm.coq_float(st["max"]), cm.coq_float(st["min"])))


# ----------------------------------------------------------------------------
# exact helpers for the oracles

def isfin(x):
    return not (math.isnan(x) or math.isinf(x))


def F(x):
    return Fraction(x)


def exact_percentile(s, p):
    """linear-interpolation percentile (Hyndman-Fan 7) of the sorted Fractions s at level p (0..100)"""
    n = len(s)
    v = (n - 1) * p / 100
    lo = math.floor(v)
    if lo >= n - 1:
        return s[-1]
    if lo < 0:
        return s[0]
    return s[lo] + (s[lo + 1] - s[lo]) * (v - lo)


def exact_levels(cov):
    q1 = (100 - F(cov)) / 2
    return q1, 100 - q1


def scale_of(vals):
    fin = [abs(v) for v in vals if isfin(v)]
    return max([1.0] + fin)


def close(a, want, tol):
    """a (float) equals the exact value `want` (Fraction) within tol; NaN never does"""
    if math.isnan(a) or math.isinf(a):
        return False
    return abs(F(a) - want) <= F(tol)


# ----------------------------------------------------------------------------
# generators

def gen_values(rng, n, thorough=False):
    """n finite values: continuous, heavily tied, constant or mixed; any location and scale"""
    if n == 0:
        return []
    kind = rng.choice(["gauss", "gauss", "ints", "ints", "const", "unif", "mixed"])
    scale = rng.choice([1.0, 1.0, 1e-2, 1e3, 1e6])
    loc = rng.choice([0.0, 0.0, rng.gauss(0, 10) * scale])
    if kind == "gauss":
        v = [loc + rng.gauss(0, 1) * scale for _ in range(n)]
    elif kind == "unif":
        v = [loc + rng.uniform(-1, 1) * scale for _ in range(n)]
    elif kind == "ints":
        k = rng.choice([1, 2, 3, 5, 10])
        v = [float(rng.randint(-k, k)) * scale for _ in range(n)]
    elif kind == "const":
        c = rng.choice([0.0, 1.0, -2.5 * scale, loc + 0.1])
        v = [c] * n
    else:
        v = [rng.choice([0.0, loc, loc + scale]) if rng.random() < 0.5 else loc + rng.gauss(0, 1) * scale
             for _ in range(n)]
    return [float(x) for x in v]


def add_nonfinite(rng, v):
    """NaN and +-inf anywhere"""
    v = list(v)
    n = len(v)
    if n == 0:
        return v
    mode = rng.random()
    if mode < 0.3:
        return v
    if mode < 0.4:
        p = 1.0 if rng.random() < 0.3 else 0.8       # nearly all / all missing
    else:
        p = rng.choice([0.02, 0.1, 0.3])
    pool = rng.choice([[NAN], [NAN, INF, -INF], [INF], [-INF], [NAN, INF]])
    for i in range(n):
        if rng.random() < p:
            v[i] = rng.choice(pool)
    if rng.random() < 0.3:
        v[rng.randrange(n)] = rng.choice([NAN, INF, -INF])
    return v


def gen_len(rng, maxlen):
    return rng.choice([0, 1, 2, 3, 4, 5, 6, 8, rng.randint(0, 40), rng.randint(0, maxlen)])


def gen_coverages(rng):
    """box in [40, 100), whiskers in (box, 100]; percentile labels (one decimal) stay distinct"""
    r = rng.random()
    if r < 0.25:
        return 50.0, 90.0
    if r < 0.35:
        return 40.0, 100.0
    if r < 0.5:
        box = float(rng.choice([40, 45, 50, 60, 66, 75, 80, 90, 95, 98]))
        wh = float(rng.choice([w for w in [50, 60, 70, 80, 90, 95, 99, 100] if w > box + 0.9] or [100]))
        return box, wh
    box = round(rng.uniform(40, 98.5), rng.choice([0, 1, 3]))
    box = max(40.0, box)
    wh = min(100.0, round(rng.uniform(box + 0.5, 100.0), rng.choice([0, 1, 3])))
    if wh < box + 0.5:
        wh = 100.0
    return float(box), float(wh)


# Extreme but legal magnitudes.  The statement has no scale: every clause is decided by comparisons of the values
# (strictly better, rank, stratum, finite or not, position in the sorted sample), so the same clauses must hold for
# data of the order of 1e-11 .. 1e-300 (down to the subnormal range), of 1e+11 .. 1e+300, for values that differ in
# their last binary digits or in the 11th..14th decimal only, and for samples that mix those magnitudes.
TINY_SCALES = [1e-11, 1e-12, 1e-13, 1e-20, 1e-100, 1e-200, 1e-300]
HUGE_SCALES = [1e11, 1e20, 1e100, 1e200, 1e300]
MAG_BASES = [1.0, -1.0, 1e6, 273.15, 1e-3, 123456.789, 1e15, -0.1, 1e-200, 1e200]
MAG_KINDS = ["tiny", "tiny", "subnormal", "huge", "huge", "last-digits", "last-digits", "decimals", "decimals",
             "mixed"]
MIXED_MAGS = [0.0, 5e-324, 1e-300, 1e-200, 1e-100, 1e-12, 1.0, 1e12, 1e100, 1e200, 1e300]


def mag_map(rng, kind=None):
    """a map unit value -> value of one magnitude class (name, function); the unit values are small integers
    (heavy ties) or standard Gaussian numbers.  Sums of up to 1500 such values stay below the largest double."""
    kind = kind or rng.choice(MAG_KINDS)
    if kind == "tiny":
        s = rng.choice(TINY_SCALES)
        return f"tiny:{s:g}", lambda u: u * s
    if kind == "subnormal":         # whole multiples of the smallest positive double
        return "subnormal", lambda u: round(4 * u) * 5e-324
    if kind == "huge":
        s = rng.choice(HUGE_SCALES)
        return f"huge:{s:g}", lambda u: max(-9.0, min(9.0, u)) * s
    base = rng.choice(MAG_BASES)
    if kind == "last-digits":       # neighbours of one number: a few spacings of the type apart
        sp = math.ulp(base)
        return f"last-digits:{base:g}", lambda u: base + round(2 * u) * sp
    if kind == "decimals":          # differences in the 11th .. 14th significant decimal
        d = rng.choice([1e-11, 1e-12, 1e-13, 1e-14]) * abs(base)
        return f"decimals:{base:g}:{d:g}", lambda u: base + u * d
    if kind == "mixed":
        mags = rng.sample(MIXED_MAGS, rng.randint(2, 5))
        return "mixed", lambda u: (1.0 if u >= 0 else -1.0) * rng.choice(mags) * rng.choice([1.0, 2.0, 3.0])
    raise ValueError(kind)


def gen_values_mag(rng, n, kind=None):
    """n finite values of one magnitude class, continuous or heavily tied; returns (values, class name)"""
    name, f = mag_map(rng, kind)
    if rng.random() < 0.45:
        k = rng.choice([1, 2, 3, 5])
        units = [float(rng.randint(-k, k)) for _ in range(n)]
        name += "/tied"
    else:
        units = [rng.gauss(0, 1) for _ in range(n)]
    return [float(f(u)) for u in units], name


def mag_of(vals):
    """largest absolute finite value (0 for none): the yardstick of the rounding tolerances"""
    return max([0.0] + [abs(v) for v in vals if isfin(v)])


def rel_tol(vals):
    """1e-9 of the largest finite magnitude of the sample, at least a few spacings of the subnormal range"""
    return max(1e-9 * mag_of(vals), 1e-322)


# ----------------------------------------------------------------------------
# stored representations of the inputs.  The property speaks of sample sizes, ranges, vectors,
# point sets, columns and grouping vectors - of VALUES; every way of holding the same values
# that the entry point accepts must give the same answer.  A representation is named by a
# string (+ a seed for the shuffles), so that a replay file rebuilds the same object.

IDX_KINDS = ["range", "offset", "shuffled", "dup", "dates", "dates-desc", "dates-s", "dates-tz", "text", "float"]


def index_of(pd, kind, n, seed):
    """a pandas index of n labels: default, integers not 0..n-1 in order, duplicates, dates
    (descending, unit s, time zone), text, floats"""
    r = random.Random(seed)
    if kind == "range":
        return pd.RangeIndex(n)
    if kind == "offset":
        return pd.RangeIndex(7, 7 + n)
    if kind == "shuffled":
        p = list(range(n))
        r.shuffle(p)
        return pd.Index(p, dtype="int64")
    if kind == "dup":
        return pd.Index([r.randrange(max(1, (n + 1) // 2)) for _ in range(n)], dtype="int64")
    if kind == "dates":
        return pd.date_range("2001-01-01", periods=n, freq="D")
    if kind == "dates-desc":
        return pd.date_range("2001-01-01", periods=n, freq="D")[::-1]
    if kind == "dates-s":
        return pd.date_range("1999-12-25", periods=n, freq="h").as_unit("s")
    if kind == "dates-tz":
        return pd.date_range("2001-03-20", periods=n, freq="D", tz="Australia/Sydney")
    if kind == "text":
        return pd.Index([f"s{r.randrange(1000):03d}-{i}" for i in range(n)], dtype=object)
    if kind == "float":
        return pd.Index([i + 0.5 for i in range(n)], dtype="float64")
    raise ValueError(kind)


REP_NEEDS = {"float16": "f16", "float32": "f32", "int64": "int", "int32": "int", "int-list": "int", "frame-f32": "f32",
             "frame-int": "int", "np.float32": "f32", "np.int64": "int", "int": "int"}


def fit_values(vals, needs):
    """the nearest values that the representation holds exactly (float32 / integer storage)"""
    if needs == "f32":
        return [float(np.float32(v)) for v in vals]
    if needs == "f16":
        return [float(np.float16(max(-60000.0, min(60000.0, v)))) if isfin(v) else v for v in vals]
    if needs == "int":
        return [float(max(-2 ** 31 + 1, min(2 ** 31 - 1, round(v)))) if isfin(v) else 0.0 for v in vals]
    return [float(v) for v in vals]


GARBAGE = -7777.0


def vec_rep(pd, name, v, seed=0):
    """the vector v (python floats) held as `name`"""
    a = np.array(v, dtype=np.float64)
    if name == "ndarray":
        return a
    if name == "list":
        return [float(x) for x in v]
    if name == "tuple":
        return tuple(float(x) for x in v)
    if name == "int-list":
        return [int(x) for x in v]
    if name == "float32":
        return a.astype(np.float32)
    if name == "float16":
        return a.astype(np.float16)
    if name == "int64":
        return a.astype(np.int64)
    if name == "int32":
        return a.astype(np.int32)
    if name == "big-endian":
        return a.astype(">f8")
    if name == "strided":           # every second element of a larger buffer
        base = np.full(2 * len(v) + 1, GARBAGE)
        base[1::2] = a
        return base[1::2]
    if name == "reversed":          # negative stride
        return a[::-1].copy()[::-1]
    if name == "readonly":
        a.setflags(write=False)
        return a
    if name == "masked":            # masked array, nothing masked
        return np.ma.array(a)
    if name.startswith("series:"):
        return pd.Series(a, index=index_of(pd, name[7:], len(v), seed))
    if name.startswith("series-named:"):
        return pd.Series(a, index=index_of(pd, name[13:], len(v), seed), name="obs")
    raise ValueError(name)


def mat_rep(name, data, ncol):
    """the point set (list of rows) held as a 2-D numpy array of layout / dtype `name`"""
    a = np.array(data, dtype=np.float64).reshape(len(data), ncol)
    n = len(data)
    if name == "C":
        return a
    if name == "F":
        return np.asfortranarray(a)
    if name == "transposed":        # view of a [ncol x nval] array
        return np.ascontiguousarray(a.T).T
    if name == "col-strided":
        w = np.full((n, 2 * ncol + 1), GARBAGE)
        w[:, 1::2] = a
        return w[:, 1::2]
    if name == "row-strided":
        w = np.full((2 * n + 1, ncol), -GARBAGE)
        w[1::2] = a
        return w[1::2]
    if name == "neg-strides":
        return a[::-1, ::-1].copy()[::-1, ::-1]
    if name == "float32":
        return a.astype(np.float32)
    if name == "int64":
        return a.astype(np.int64)
    if name == "big-endian":
        return a.astype(">f8")
    if name == "readonly":
        a.setflags(write=False)
        return a
    if name == "masked":
        return np.ma.array(a)
    raise ValueError(name)


MAT_REPS = ["F", "transposed", "col-strided", "row-strided", "neg-strides", "float32", "int64", "big-endian",
            "readonly", "masked"]


def frame_rep(pd, name, cols, seed=0):
    """the columns (dict name -> list, equal lengths) held as `name`; returns (object given to the
    library, label of each column in the library's output)"""
    names = list(cols)
    n = len(cols[names[0]])
    A = np.empty((n, len(names)), dtype=np.float64)
    for j, k in enumerate(names):
        A[:, j] = cols[k]
    if name == "frame":
        return pd.DataFrame({k: np.array(cols[k], dtype=float) for k in names}), names
    if name.startswith("frame:"):
        df = pd.DataFrame({k: np.array(cols[k], dtype=float) for k in names})
        df.index = index_of(pd, name[6:], n, seed)
        return df, names
    if name == "frame-intcols":     # integer column labels, not in order
        labels = [(5 * j + 3) % 7 for j in range(len(names))]
        return pd.DataFrame(A, columns=labels), labels
    if name == "frame-F":
        return pd.DataFrame(np.asfortranarray(A), columns=names), names
    if name == "frame-f32":
        return pd.DataFrame(A.astype(np.float32), columns=names), names
    if name == "frame-int":
        return pd.DataFrame(A.astype(np.int64), columns=names), names
    if name == "frame-object":
        return pd.DataFrame(A.astype(object), columns=names), names
    if name == "dict-of-lists":
        return {k: [float(x) for x in cols[k]] for k in names}, names
    if name == "list-of-rows":
        return A.tolist(), list(range(len(names)))
    if name == "ndarray-C":
        return np.ascontiguousarray(A), list(range(len(names)))
    if name == "ndarray-F":
        return np.asfortranarray(A), list(range(len(names)))
    if name == "ndarray-strided":
        w = np.full((2 * n + 1, 2 * len(names) + 1), GARBAGE)
        w[1::2, 1::2] = A
        return w[1::2, 1::2], list(range(len(names)))
    if name == "ndarray-readonly":
        A.setflags(write=False)
        return A, list(range(len(names)))
    if name.startswith("series:"):  # one column
        return pd.Series(A[:, 0], index=index_of(pd, name[7:], n, seed), name=names[0]), names[:1]
    if name == "ndarray-1d":        # one column
        return A[:, 0].copy(), [0]
    raise ValueError(name)


FRAME_REPS = (["frame:" + k for k in IDX_KINDS[1:]] +
              ["frame-intcols", "frame-F", "frame-f32", "frame-int", "frame-object", "dict-of-lists", "list-of-rows",
               "ndarray-C", "ndarray-F", "ndarray-strided", "ndarray-readonly", "series:dates", "series:shuffled",
               "ndarray-1d"])
ONE_COLUMN_REPS = ("series:dates", "series:shuffled", "ndarray-1d")


def scalar_rep(name, v):
    """a number held as python / numpy scalar or 0-d array"""
    if name == "float":
        return float(v)
    if name == "int":
        return int(v)
    if name == "np.float64":
        return np.float64(v)
    if name == "np.float32":
        return np.float32(v)
    if name == "np.int64":
        return np.int64(v)
    if name == "np.int32":
        return np.int32(v)
    if name == "np.int8":
        return np.int8(v)
    if name == "0d":
        return np.array(float(v))
    raise ValueError(name)


def snapshot(obj):
    """values (and labels) of a result object, detached from it"""
    if isinstance(obj, dict):
        return [str(k) for k in obj], np.array([obj[k] for k in obj], dtype=float)
    if hasattr(obj, "to_numpy"):
        lab = [str(x) for x in obj.index]
        if hasattr(obj, "columns"):
            lab += [str(x) for x in obj.columns]
        return lab, np.array(obj.to_numpy(dtype=float, na_value=NAN), dtype=float, copy=True)
    return None, np.array(obj, dtype=float, copy=True)


def same_snapshot(a, b):
    return a[0] == b[0] and a[1].shape == b[1].shape and bool(np.array_equal(a[1], b[1], equal_nan=True))


def scribble(obj):
    """overwrite an array / Series / frame in place (what a caller may do with an object he owns)"""
    try:
        if isinstance(obj, np.ndarray):
            if not obj.flags.writeable or obj.size == 0:
                return False
            obj[...] = 7 if obj.dtype.kind in "iu" else GARBAGE
            return True
        if hasattr(obj, "iloc") and obj.size:
            if hasattr(obj, "columns"):
                obj.iloc[:, :] = GARBAGE
            else:
                obj.iloc[:] = GARBAGE
            return True
    except Exception:      # noqa: BLE001  (an object that cannot be written is left alone)
        return False
    return False


# Holders that the documentation of an entry point does not name (it names arrays / Series / frames; lists
# only for the bounds of lhs): the property does not promise that they are accepted, so a refusal is not
# reported - an answer that is returned for them must still be the right one.
UNDOCUMENTED_HOLDERS = {"list", "tuple", "int-list", "masked", "dict-of-lists", "list-of-rows"}


def flat_exc(e):
    return f"{type(e).__name__}: " + " ".join(str(e).split())[:120]


# ----------------------------------------------------------------------------
# observation of internal seams (library calls whose results are inputs of the model)

class Patch:
    def __init__(self, obj, name, new):
        self.obj, self.name, self.new = obj, name, new

    def __enter__(self):
        self.old = getattr(self.obj, self.name)
        setattr(self.obj, self.name, self.new)

    def __exit__(self, *a):
        setattr(self.obj, self.name, self.old)


def labels_of(levels):
    return ["{0:0.1f}%".format(q) for q in levels]


def read_stats(col, levels):
    """col: mapping label -> value (pandas Series). Missing rows (dropped all-NaN rows of the
    pivot) read as NaN.  Returns None when a label occurs twice."""
    def get(k):
        if k not in col.index:
            return NAN
        v = col[k]
        if hasattr(v, "__len__"):
            raise KeyError(k)
        return float(v)
    try:
        prc = [get(k) for k in labels_of(levels)]
        cnt = get("count")
        return {"count": int(cnt) if not math.isnan(cnt) else -1, "prc": prc,
                "mean": get("mean"), "max": get("max"), "min": get("min")}
    except KeyError:
        return None


# ----------------------------------------------------------------------------

def run(ctx):
    ctx.rule = ("one PRNG; ppos: sizes 0..300 (thorough 2000) x constants on/inside/outside [0, 0.5]; "
                "standard_normal: NaN-free vectors of 0..300 values, continuous/tied/constant, sorted flag, NaN "
                "error path; lhs: 1..300 samples x 1..6 parameters, ranges of any location and width 1e-3..1e6, "
                "rejected bounds; pareto_front: 0..60 points x 1..5 columns, integer lattices (heavy ties), NaN "
                "coordinates, both orientations; box plot: columns of 0..300 values (NaN/+-inf anywhere, ties, "
                "constant), box coverage in [40,100), whiskers in (box,100], rejected coverages, `by` with 2..5 "
                "categories of unequal size; violin: frames of 1..3 columns x 1..520 rows incl. odd row counts, "
                "constant and non-finite columns; stored representations of every input (same values held as "
                "list / tuple / float32 / integer / big-endian / strided / reversed / read-only / masked arrays, "
                "Fortran-order and transposed point sets, Series and frames with default, shuffled, duplicate, date "
                "(unit s, time zone), text and float index, integer column labels, object / float32 / integer "
                "blocks, dict of lists, list of rows, 2-D arrays, numpy scalars and 0-d arrays for sizes, constants, "
                "orientation and coverages; the same object passed twice); histories of 4..25 operations on all "
                "entry points in one process with returned and passed objects overwritten by the caller in "
                "between (an answer returned stays what it was; the same call answers the same); extreme but "
                "legal magnitudes for every helper decided by comparisons (values of the order of 1e-11 .. 1e-300, "
                "whole multiples of the smallest double, 1e+11 .. 1e+300, neighbouring doubles, values equal to 10 "
                "decimals, mixed magnitudes, +-0; lhs ranges of width 1e-312 .. 1e+300 and ranges far from zero a "
                "few hundred spacings wide; tolerances relative to the sample); constants at the ends of [0, 0.5], "
                "sizes to 65536 (ppos); rank_method min / max / first / dense; coverages at the ends of their "
                "ranges, 3 / 4 / 5 finite values, levels exactly on sample values, up to 12 categories; lives of "
                "the plot objects (every constructor option of Boxplot / Violin, then draw on linear / log axis, "
                "offsets, current / given / same axis, show_count, set_ylim, set_color, reset_items, item settings "
                "in any order: the stored summaries read after each operation are examined by the oracle of a "
                "fresh answer; data with zeros, negative values, NaN rows, constant columns); non-trivial = "
                "distinct (function, size class, tie/NaN class, outcome, representation) signature")
    ctx.trusted = cm.STD_TRUST + [
        "numpy.linspace and numpy.percentile (linear method) are modelled from their source and validated by "
        "dedicated correspondence cases (CLinspace, CPercentile)",
        "observation seams: numpy.random.permutation/uniform, sutils.norm.ppf and violinplot.gaussian_kde are "
        "wrapped by recording proxies in the harness process (their results are inputs of the model)",
    ]
    ctx.tested_not_proved = [
        "binary64 rounding of every clause (strata, symmetry of plotting positions to 1e-12, percentiles to 1e-9*scale)",
        "pandas glue: DataFrame.apply / groupby.apply / pivot_table / quantile / median / rank (group-wise = group alone, tested)",
        "scipy.stats.gaussian_kde and norm.ppf (external; ppf assumed strictly increasing on (0,1))",
        "density profile in [0,1] with min 0 and max 1 on the implementation (theorem is about the normalisation step)",
        "lives of the plot objects (constructor options, draw / show_count / set_ylim / set_color / reset_items / item "
        "settings): the summaries read afterwards are examined by the oracle only",
        "rank_method other than average; ppos for more than 2000 values (oracle only)",
    ]
    # Props/PyTieScores.vo: ppos / compute_percentiles as TRANSLATED from the source = the model
    proved = cm.prove_with_kernels(ctx, ["c_paretofront"], extractors=["c20", "pygen"],
                                   extra_targets=["Props/PyTieScores.vo"])
    cm.use_impl()
    import pandas as pd
    from hydrodiy.stat import sutils
    from hydrodiy.plot import boxplot as hbox
    from hydrodiy.plot import violinplot as hvio
    rng = ctx.rng
    np.random.seed(rng.randrange(2 ** 32))
    TH = ctx.thorough

    terms, replays = [], []
    orc_fail = set()

    # while a history (sequence of operations) runs: its steps so far; merged into every replay
    ambient = {}
    model_too = [True]     # False: the step goes through the oracle only (no case for the Coq model)

    def in_history(replay):
        if not ambient:
            return replay
        r = dict(replay, **ambient)
        r["failing_call"] = replay.get("call")
        r["call"] = "history"
        return r

    def add(term, replay, sig):
        terms.append(term if model_too[0] else None)
        replays.append(in_history(replay))
        ctx.count(sig)
        if len(terms) % 300 == 1:
            ctx.sample({k: (v[:8] if isinstance(v, list) else v) for k, v in replay.items()})
        return len(terms) - 1

    def fail(idx, key, what, replay=None):
        if idx is not None:
            orc_fail.add(idx)
        ctx.failure(key, in_history(replay) if replay is not None else replays[idx], what)

    corpus = cm.load_corpus(PID)
    rp = None
    if getattr(ctx, "replay", None):
        rp = ctx.replay.get("replay", ctx.replay)
        if not isinstance(rp, dict):
            rp = None

    def replay_is(call):
        return rp is not None and rp.get("call") == call

    # ------------------------------------------------------------------ ppos
    def do_ppos(nval, cst, nrep="int", crep="float"):
        """nrep / crep: how the size and the constant are held (python / numpy scalar, 0-d array)"""
        raw, exc = None, None
        replay = {"call": "sutils.ppos", "nval": nval, "cst": cst, "nval_held_as": nrep, "cst_held_as": crep}
        try:
            raw = sutils.ppos(scalar_rep(nrep, nval), scalar_rep(crep, cst))
            out = [float(x) for x in raw]
        except ValueError:
            out = None
        except Exception as e:      # noqa: BLE001
            out, exc = None, e
        replay["impl"] = out
        inside = 0.0 <= cst <= 0.5
        if exc is not None:
            if inside:
                fail(None, "C20/ppos/raises", f"ppos({nval}, {cst!r}) with the size held as {nrep} and the "
                     f"constant as {crep} raised {flat_exc(exc)}", replay)
            return None
        i = add(f"CPpos {cm.coq_z(nval)} {cm.coq_float(cst)} {cm.coq_option(out, fl)}", replay,
                ("ppos", min(nval, 4), cst in (0.0, 0.5), out is None, nrep, crep))
        if not inside:
            return raw  # outside the property's quantifier: the correspondence alone covers the error path
        if out is None:
            fail(i, "C20/ppos/valid-constant-rejected", f"ppos({nval}, {cst!r}) raised")
            return raw
        if len(out) != nval:
            fail(i, "C20/ppos/length", f"ppos({nval}, {cst!r}) has {len(out)} values")
            return raw
        c = F(cst)
        for k, p in enumerate(out):
            want = (k + 1 - c) / (nval + 1 - 2 * c)
            if not close(p, want, 1e-12):
                fail(i, "C20/ppos/formula", f"ppos({nval}, {cst!r})[{k}] = {p!r}, expected {float(want)!r}")
                return raw
            if not 0.0 < p < 1.0:
                fail(i, "C20/ppos/not-in-open-unit-interval", f"ppos({nval}, {cst!r})[{k}] = {p!r}")
                return raw
            if k > 0 and not out[k - 1] < p:
                fail(i, "C20/ppos/not-increasing", f"ppos({nval}, {cst!r})[{k - 1}..{k}] = {out[k - 1]!r}, {p!r}")
                return raw
            if abs(p + out[nval - 1 - k] - 1.0) > 1e-12:
                fail(i, "C20/ppos/not-symmetric", f"ppos({nval}, {cst!r}): p[{k}] + p[{nval - 1 - k}] != 1")
                return raw
        return raw

    if replay_is("sutils.ppos"):
        do_ppos(int(rp["nval"]), float(rp["cst"]), rp.get("nval_held_as", "int"), rp.get("cst_held_as", "float"))
    CSTS = [0.0, 0.5, 0.3, 0.375, 0.3175, 0.4, 0.25]
    for nval in list(range(0, 8)) + [rng.randint(8, ctx.scale(300, 2000)) for _ in range(ctx.scale(25, 200))]:
        for cst in rng.sample(CSTS, 3) + [rng.uniform(0, 0.5)]:
            do_ppos(nval, cst)
    for cst in [-0.1, 0.6, -1e-12, 0.5000000001, 5e-324, 0.49999999999999994]:
        do_ppos(rng.randint(1, 20), cst)
    # constants at the two ends of [0, 0.5] and next to them (where the range test and the denominator
    # n + 1 - 2 cst switch), for every small size and a few larger ones
    EDGE_CSTS = [0.0, 5e-324, 1e-300, 1e-16, 1e-12, 0.5 - 1e-12, 0.49999999999999994, 0.5]
    for nval in list(range(0, 6)) + [rng.randint(6, 300) for _ in range(ctx.scale(3, 20))]:
        for cst in (EDGE_CSTS if nval < 3 or TH else rng.sample(EDGE_CSTS, 3)):
            do_ppos(nval, cst)
    # large samples (oracle only: the lists are too long for the case files)
    model_too[0] = False
    for nval in rng.sample([1000, 4096, 10007, 65536], ctx.scale(1, 4)) + ([200003] if TH else []):
        do_ppos(nval, rng.choice(CSTS + [0.0, 0.5]))
    model_too[0] = True
    # size and constant held as numpy scalars / 0-d arrays / integers (values those types hold exactly)
    for nrep in ["int", "np.int64", "np.int32", "np.int8"]:
        for crep in ["float", "np.float64", "np.float32", "0d", "int"]:
            cst = (0.0 if crep == "int" else
                   rng.choice([0.0, 0.5, 0.25, 0.375, 0.125]) if crep == "np.float32" else rng.choice(CSTS))
            do_ppos(rng.choice([0, 1, 2, 5, rng.randint(3, 100)]), cst, nrep, crep)

    # ------------------------------------------------------------------ standard_normal
    class NormProxy:
        def __init__(self, real):
            self.real, self.args = real, []

        def ppf(self, q, *a, **k):
            self.args.append(np.array(q, dtype=float).copy())
            return self.real.ppf(q, *a, **k)

        def __getattr__(self, name):
            return getattr(self.real, name)

    def do_snorm(x, cst, srt, xrep="ndarray", seed=0, twice=False, method="average"):
        """xrep: how the vector is held (vec_rep); twice: the same object is passed a second time and
        the second answer is the one examined; method: the option rank_method (the Coq model covers the default
        "average" only: the other methods go through the oracle alone).  Returns the objects handed in and out."""
        if method != "average":
            keep = model_too[0]
            model_too[0] = False
            try:
                return do_snorm_(x, cst, srt, xrep, seed, twice, method)
            finally:
                model_too[0] = keep
        return do_snorm_(x, cst, srt, xrep, seed, twice, method)

    def do_snorm_(x, cst, srt, xrep, seed, twice, method):
        proxy = NormProxy(sutils.norm)
        xin = vec_rep(pd, xrep, x, seed)
        replay = {"call": "sutils.standard_normal", "x": x, "cst": cst, "sorted": srt, "x_held_as": xrep,
                  "rep_seed": seed, "same_object_passed_twice": twice, "rank_method": method}
        kw = {} if method == "average" else {"rank_method": method}
        hasnan = any(math.isnan(v) for v in x)
        exc = None
        raw = []
        try:
            if twice:
                sutils.standard_normal(xin, cst=cst, sorted=srt, **kw)
                if not same_snapshot(snapshot(xin), snapshot(vec_rep(pd, xrep, x, seed))):
                    ctx.notes["input_modified_by_call"] = ctx.notes.get("input_modified_by_call", 0) + 1
                    return None     # the caller's vector was changed: what it holds now is another input
            with Patch(sutils, "norm", proxy):
                unorm, ranks = sutils.standard_normal(xin, cst=cst, sorted=srt, **kw)
            raw = [unorm, ranks]
            unorm = [float(v) for v in np.asarray(unorm)]
            ranks = [float(v) for v in np.asarray(ranks)]
            args = [float(v) for v in proxy.args[0]] if len(proxy.args) == 1 else None
        except ValueError:
            unorm = ranks = args = None
        except Exception as e:      # noqa: BLE001
            unorm = ranks = args = None
            exc = e
        replay.update(ranks=ranks, unorm=unorm)
        if (exc is not None or ranks is None) and xrep in UNDOCUMENTED_HOLDERS and not hasnan:
            ctx.notes["undocumented_holder_refused"] = ctx.notes.get("undocumented_holder_refused", 0) + 1
            return None
        if exc is not None:
            if not hasnan:
                fail(None, "C20/standard_normal/raises", f"standard_normal of a NaN-free vector held as {xrep} "
                     f"raised {flat_exc(exc)}", replay)
            return None
        nties = len(x) - len(set(x))
        i = None
        if ranks is None or args is not None:   # else: seam not observed (norm.ppf no longer called): oracle only
            exp = "None" if ranks is None else f"(Some ({fl(ranks)}, {fl(args)}))"
            i = add(f"CSnorm {fl(x)} {cm.coq_float(cst)} {cm.coq_bool(srt)} {exp}", replay,
                    ("snorm", min(len(x), 4), nties > 0, nties == len(x) - 1 and len(x) > 1, srt, ranks is None,
                     xrep, twice, method))
        res = {"in": [xin], "out": raw}
        if hasnan:
            return res  # outside the quantifier (NaN-free vectors): correspondence only
        if ranks is None:
            fail(i, "C20/standard_normal/valid-data-rejected", f"standard_normal raised on NaN-free data "
                 f"(held as {xrep})", replay)
            return res
        n = len(x)
        if len(unorm) != n or len(ranks) != n:
            fail(i, "C20/standard_normal/length", "output length differs from input length", replay)
            return res
        # ranks are the data ranks (zero based; ties by the chosen method), independent exact computation
        if not srt:
            distinct = sorted(set(x))
            for k in range(n):
                less = sum(1 for v in x if v < x[k])
                eq = sum(1 for v in x if v == x[k])
                if method == "average":
                    want = Fraction(2 * less + eq + 1, 2) - 1
                elif method == "min":
                    want = Fraction(less)
                elif method == "max":
                    want = Fraction(less + eq - 1)
                elif method == "dense":
                    want = Fraction(sum(1 for v in distinct if v < x[k]))
                else:       # first: ties in the order of appearance
                    want = Fraction(less + sum(1 for v in x[:k] if v == x[k]))
                if not isfin(ranks[k]) or F(ranks[k]) != want:
                    fail(i, "C20/standard_normal/rank", f"rank[{k}] = {ranks[k]!r} (rank_method {method}), expected "
                         f"{float(want)!r}", replay)
                    return res
        # scores: finite, and a strictly increasing function of the ranks
        if any(not isfin(u) for u in unorm):
            fail(i, "C20/standard_normal/score-not-finite", f"non finite normal score for cst={cst!r}", replay)
            return res
        order = sorted(range(n), key=lambda k: ranks[k])
        for a, b in zip(order, order[1:]):
            if ranks[a] == ranks[b]:
                if unorm[a] != unorm[b]:
                    fail(i, "C20/standard_normal/not-a-function-of-rank",
                         f"equal ranks {ranks[a]!r} with scores {unorm[a]!r}, {unorm[b]!r}", replay)
                    return res
            elif not unorm[a] < unorm[b]:
                fail(i, "C20/standard_normal/not-increasing-in-rank",
                     f"ranks {ranks[a]!r} < {ranks[b]!r} but scores {unorm[a]!r}, {unorm[b]!r}", replay)
                return res
        return res

    if replay_is("sutils.standard_normal"):
        do_snorm([float(v) for v in rp["x"]], float(rp["cst"]), bool(rp["sorted"]), rp.get("x_held_as", "ndarray"),
                 int(rp.get("rep_seed", 0)), bool(rp.get("same_object_passed_twice")), rp.get("rank_method", "average"))
    for it in range(ctx.scale(70, 700)):
        n = rng.choice([0, 1, 2, 3, 4, rng.randint(0, 30), rng.randint(0, ctx.scale(300, 1500))])
        x = gen_values(rng, n)
        srt = rng.random() < 0.2
        if srt:
            x = sorted(x)
        if rng.random() < 0.06 and n > 0:
            x[rng.randrange(n)] = NAN
        do_snorm(x, rng.choice([0.0, 0.0, 0.3, 0.375, 0.5, rng.uniform(0, 0.5)]), srt)
    # the same NaN-free vectors held in other ways: sequences, other dtypes (values those dtypes hold exactly),
    # views with strides, read-only, masked array without masked entry, pandas Series with any index
    # (big-endian arrays are left out: pandas itself refuses to rank them)
    SN_REPS = (["list", "tuple", "int-list", "float32", "int64", "int32", "strided", "reversed", "readonly", "masked"]
               + ["series:" + k for k in IDX_KINDS] + ["series-named:dates"])
    for it in range(ctx.scale(3, 12) * len(SN_REPS)):
        xrep = SN_REPS[it % len(SN_REPS)]
        n = rng.choice([0, 1, 2, 3, 5, 8, rng.randint(0, 40)])
        x = fit_values(gen_values(rng, n), REP_NEEDS.get(xrep))
        srt = rng.random() < 0.2
        if srt:
            x = sorted(x)
        do_snorm(x, rng.choice([0.0, 0.3, 0.375, 0.5, rng.uniform(0, 0.5)]), srt, xrep, rng.randrange(10 ** 6),
                 twice=rng.random() < 0.3)
    # vectors of extreme but legal magnitudes (the ranks are decided by comparisons of the values: 1e-300, the
    # subnormal range, 1e+300, neighbouring doubles, values equal to 10 decimals, mixed magnitudes, +-0, +-inf are
    # values like any other - a vector with +-inf is NaN-free), constants at the ends of [0, 0.5]
    for it in range(ctx.scale(40, 300)):
        n = rng.choice([1, 2, 3, 4, 7, rng.randint(0, 30), rng.randint(0, ctx.scale(120, 600))])
        x, _ = gen_values_mag(rng, n)
        r = rng.random()
        if r < 0.15 and n > 1:
            for k in rng.sample(range(n), min(n, rng.choice([1, 2, 3]))):
                x[k] = rng.choice([INF, -INF])
        elif r < 0.3 and n > 1:
            for k in rng.sample(range(n), min(n, rng.choice([1, 2, 3]))):
                x[k] = rng.choice([0.0, -0.0])
        srt = rng.random() < 0.2
        if srt:
            x = sorted(x)
        do_snorm(x, rng.choice([0.0, 0.0, 0.375, 0.5, 1e-300, 0.49999999999999994, rng.uniform(0, 0.5)]), srt,
                 rng.choice(["ndarray", "ndarray", "list", "series:range", "strided"]), rng.randrange(10 ** 6))
    # the option rank_method: the scores are a strictly increasing function of the data ranks whatever the way ties
    # are ranked (ranks by the method's own definition; tied, constant, continuous and extreme-magnitude vectors)
    for it in range(ctx.scale(32, 240)):
        n = rng.choice([1, 2, 3, 5, 8, rng.randint(0, 40), rng.randint(0, ctx.scale(150, 600))])
        x = gen_values(rng, n) if it % 3 else gen_values_mag(rng, n)[0]
        srt = rng.random() < 0.15
        do_snorm(sorted(x) if srt else x, rng.choice([0.0, 0.3, 0.375, 0.5, rng.uniform(0, 0.5)]), srt,
                 rng.choice(["ndarray", "ndarray", "series:shuffled", "list"]),
                 rng.randrange(10 ** 6), method=["min", "max", "first", "dense"][it % 4])

    # ------------------------------------------------------------------ numpy.linspace
    for it in range(ctx.scale(40, 300)):
        num = rng.choice([0, 1, 2, 3, rng.randint(0, 60)])
        a = rng.choice([0.0, rng.gauss(0, 1), rng.gauss(0, 1e3)])
        b = rng.choice([a, 1.0, a + rng.uniform(0, 10), rng.gauss(0, 1e3), a + 5e-324])
        out = [float(v) for v in np.linspace(a, b, num)]
        add(f"CLinspace {cm.coq_float(a)} {cm.coq_float(b)} {cm.coq_z(num)} {fl(out)}",
            {"call": "numpy.linspace", "start": a, "stop": b, "num": num, "impl": out[:6]},
            ("linspace", min(num, 3), a == b))

    # ------------------------------------------------------------------ lhs
    def bounds_rep(name, v, seed):
        if name in ("float", "int", "np.float64", "np.float32", "np.int64", "0d"):     # one parameter: a number
            return scalar_rep(name, v[0])
        return vec_rep(pd, name, v, seed)

    def do_lhs(n, pmin, pmax, reps=("ndarray", "ndarray"), seed=0, nrep="int", broadcast=False):
        """reps: how the lower / upper bounds are held; nrep: how the sample size is held; broadcast: the
        upper bounds are all equal and given once (the code repeats a single upper bound)"""
        rec = {"perm": [], "unif": []}
        operm, ounif = np.random.permutation, np.random.uniform

        def perm(*a, **k):
            r = operm(*a, **k)
            rec["perm"].append([int(v) for v in r])
            return r

        def unif(*a, **k):
            r = ounif(*a, **k)
            rec["unif"].append([float(v) for v in np.atleast_1d(r)])
            return r
        exc, smp = None, None
        try:
            a_min = bounds_rep(reps[0], pmin, seed)
            a_max = bounds_rep(reps[1], pmax[:1] if broadcast else pmax, seed + 1)
            with Patch(np.random, "permutation", perm), Patch(np.random, "uniform", unif):
                smp = sutils.lhs(scalar_rep(nrep, n), a_min, a_max)
            cols = [[float(v) for v in smp[:, j]] for j in range(smp.shape[1])]
        except (ValueError, ZeroDivisionError):
            cols = None
        except Exception as e:      # noqa: BLE001
            cols, exc = None, e
        npar = len(pmin)
        if cols is not None and (len(rec["perm"]) != npar or len(rec["unif"]) != npar):
            observed = False
            kks, jits = [[0] * n] * npar, [[0.0] * n] * npar
        else:
            observed = True
            kks, jits = rec["perm"], rec["unif"]
        replay = {"call": "sutils.lhs", "nsamples": n, "pmin": pmin, "pmax": pmax, "impl_columns": cols,
                  "bounds_held_as": list(reps), "rep_seed": seed, "nsamples_held_as": nrep,
                  "single_upper_bound_given": broadcast}
        res = {"in": [], "out": [smp] if smp is not None else []}
        valid = len(pmin) == len(pmax) and all(b > a for a, b in zip(pmin, pmax)) and n >= 1
        if (exc is not None or cols is None) and valid and \
                any(r == "masked" or r.startswith("series") for r in reps):
            ctx.notes["undocumented_holder_refused"] = ctx.notes.get("undocumented_holder_refused", 0) + 1
            return None
        if exc is not None:
            if valid and not broadcast:
                fail(None, "C20/lhs/raises", f"lhs({n}, {pmin}, {pmax}) with the bounds held as {reps} raised "
                     f"{flat_exc(exc)}", replay)
            return None
        if broadcast and cols is None:
            return None     # repeating a single upper bound is not promised by the property
        i = None
        if observed:
            i = add(f"CLhs {cm.coq_z(n)} {fl(pmin)} {fl(pmax)} {zll(kks if cols is not None else [])} "
                    f"{fll(jits if cols is not None else [])} {cm.coq_option(cols, fll)}",
                    replay, ("lhs", min(n, 3), npar, cols is None) + tuple(reps) + (nrep, broadcast))
        if not valid:
            return res  # outside the quantifier (pmin < pmax, n >= 1): correspondence only
        if cols is None:
            fail(i, "C20/lhs/valid-input-rejected", f"lhs({n}, {pmin}, {pmax}) raised (bounds held as {reps})", replay)
            return res
        if len(cols) != npar or any(len(c) != n for c in cols):
            fail(i, "C20/lhs/shape", "sample matrix is not nsamples x nparams", replay)
            return res
        # exactly one point in each of the n equal strata of every range (exact rationals; a point within
        # 1e-9 stratum widths - or, for a range far from zero, within 8 spacings of the doubles at its bounds:
        # the rounding of centre + jitter - of a boundary may count for either side)
        for j in range(npar):
            a, b = F(pmin[j]), F(pmax[j])
            du = (b - a) / n
            slack = max(Fraction(1, 10 ** 9), 8 * F(math.ulp(max(abs(pmin[j]), abs(pmax[j])))) / du)
            sure, free = [], []
            for s in cols[j]:
                if not isfin(s):
                    fail(i, "C20/lhs/not-finite", f"parameter {j}: sample {s!r}", replay)
                    return res
                t = (F(s) - a) / du
                k = math.floor(t)
                fr = t - k
                if fr < slack:
                    free.append((k - 1, k))
                elif fr > 1 - slack:
                    free.append((k, k + 1))
                else:
                    sure.append(k)
            okj = len(set(sure)) == len(sure) and all(0 <= k < n for k in sure)
            if okj:     # matching of the points next to a boundary (two neighbouring strata each) to the strata left
                left = set(range(n)) - set(sure)
                for opts in sorted(free, key=lambda o: o[1]):
                    hit = [k for k in opts if k in left]
                    if not hit:
                        okj = False
                        break
                    left.discard(hit[0])
                okj = okj and not left
            if not okj:
                cnt = {}
                for s in cols[j]:
                    k = math.floor((F(s) - a) / du)
                    cnt[k] = cnt.get(k, 0) + 1
                badk = sorted(k for k in set(cnt) | set(range(n)) if cnt.get(k, 0) != 1)[:5]
                fail(i, "C20/lhs/stratum-count", f"parameter {j} of [{pmin[j]!r}, {pmax[j]!r}], n={n}: strata "
                     f"{badk} do not hold exactly one point", replay)
                return res
        return res

    if replay_is("sutils.lhs"):
        do_lhs(int(rp["nsamples"]), [float(v) for v in rp["pmin"]], [float(v) for v in rp["pmax"]],
               tuple(rp.get("bounds_held_as", ("ndarray", "ndarray"))), int(rp.get("rep_seed", 0)),
               rp.get("nsamples_held_as", "int"), bool(rp.get("single_upper_bound_given")))
    for it in range(ctx.scale(60, 600)):
        n = rng.choice([1, 1, 2, 3, rng.randint(1, 30), rng.randint(1, ctx.scale(300, 1200))])
        npar = rng.randint(1, 6)
        pmin, pmax = [], []
        for _ in range(npar):
            loc = rng.choice([0.0, -1.0, rng.gauss(0, 1), rng.gauss(0, 1e4), rng.uniform(-1e6, 1e6)])
            w = rng.choice([1.0, 2.0, 10 ** rng.uniform(-3, 6), rng.uniform(0.001, 100)])
            pmin.append(float(loc))
            pmax.append(float(loc + w))
            if pmax[-1] <= pmin[-1]:
                pmax[-1] = pmin[-1] + 1.0
        r = rng.random()
        if r < 0.05:
            k = rng.randrange(npar)
            pmax[k] = pmin[k] if rng.random() < 0.5 else pmin[k] - rng.random()
        elif r < 0.07 and npar > 2:
            pmax = pmax[:-1]
        do_lhs(n, pmin, pmax)
    # the same ranges held in other ways: lists / tuples of floats or integers, integer and float32 arrays (bounds
    # those types hold exactly), big-endian, strided / reversed views, read-only, Series with any index, plain
    # numbers for one parameter, the size as a numpy integer; one upper bound given for equal upper bounds.
    # Single and half precision bounds, lower AND upper: the pinned code converted only the lower bounds to
    # float64, `pmax[i]-du/2` was then evaluated in the precision of pmax and lhs(100, [1e6], np.float32([1e6+1]))
    # put samples above pmax and left strata empty (C20/lhs/stratum-count, fixed: known_findings.d/C20.json).  The
    # ranges include bounds far from zero with a width near the spacing of the type, where that defect shows.
    LHS_REPS = ["list", "tuple", "int-list", "int64", "int32", "float32", "float32", "float16", "big-endian", "strided",
                "reversed", "readonly", "series:shuffled", "series:dates", "series:text"]
    for it in range(ctx.scale(4, 16) * len(LHS_REPS)):
        r0 = LHS_REPS[it % len(LHS_REPS)]
        r1 = r0 if rng.random() < 0.5 else rng.choice(LHS_REPS)
        if rng.random() < 0.3:      # the two bounds held differently
            r0 = rng.choice(LHS_REPS)
        n = rng.choice([1, 2, 3, 10, rng.randint(1, 40), rng.randint(10, 100)])
        npar = rng.randint(1, 4)
        bc = rng.random() < 0.15
        if npar == 1 and rng.random() < 0.4:
            r0 = rng.choice(["float", "int", "np.float64", "np.float32", "np.int64", "0d"])
            r1 = rng.choice(["float", "int", "np.float32", "0d"])
        needs = (REP_NEEDS.get(r0), REP_NEEDS.get(r1))
        anyint = "int" in needs
        far = 1000.0 if "f16" in needs else 1e6      # far from zero: the spacing of the type is near the width
        pmin, pmax = [], []
        for _ in range(npar):
            loc = rng.choice([0.0, -1.0, rng.gauss(0, 1), rng.gauss(0, 1e3), float(rng.randint(-50, 50)),
                              float(rng.randint(-int(far), int(far))), far])
            w = rng.choice([1.0, 2.0, 10 ** rng.uniform(-2, 4), rng.uniform(0.01, 100)])
            if anyint:
                loc, w = float(round(loc)), float(max(1, round(w)))
            pmin.append(float(loc))
            pmax.append(float(loc + w))
        pmin = fit_values(pmin, needs[0])
        if bc:
            top = max(pmin) + rng.choice([1.0, 3.0, float(rng.randint(1, 1000))])
            pmax = [top] * npar
        pmax = fit_values(pmax, needs[1])
        if any(b <= a or not isfin(a) or not isfin(b) for a, b in zip(pmin, pmax)):
            continue
        do_lhs(n, pmin, pmax, (r0, r1), rng.randrange(10 ** 6),
               rng.choice(["int", "int", "np.int64", "np.int32"]), bc)
    # ... and ranges a few spacings of the storage type wide: integer bounds in [2^e, 2^(e+1)) held in single
    # (e = 14..22) or half (e = 7..10) precision, 10..100 samples - half a stratum is then below the spacing
    for it in range(ctx.scale(12, 60)):
        half = it % 3 == 2
        e = rng.randint(7, 10) if half else rng.randint(14, 22)
        npar = rng.choice([1, 1, 2, 3])
        pmin = [float(rng.randint(2 ** e, 2 ** (e + 1) - 10)) * rng.choice([1, 1, -1]) for _ in range(npar)]
        pmax = [a + float(rng.choice([1, 1, 2, 3, 8])) for a in pmin]
        tname = "float16" if half else "float32"
        r1 = tname if npar > 1 or half or rng.random() < 0.6 else "np.float32"
        r0 = rng.choice([tname, "list", "ndarray", "int64"]) if r1 != "np.float32" else rng.choice(["np.float32", "float"])
        do_lhs(rng.randint(10, 100), pmin, pmax, (r0, r1), rng.randrange(10 ** 6), "int", False)
    # ranges of extreme but legal location and width ("arbitrary finite ranges"): widths from the subnormal range
    # to 1e+300 at zero, around zero and next to it; ranges far from zero that are 64 .. 1e6 spacings of the
    # doubles per stratum wide; one such parameter beside ordinary ones.  (A width that is not a finite double,
    # e.g. [-1e308, 1e308], is not generated: pmax - pmin overflows.)
    def gen_range_mag(n):
        kind = rng.choice(["tiny-width", "tiny-width", "huge-width", "huge-width", "subnormal", "far-narrow",
                           "far-narrow", "ordinary"])
        if kind == "tiny-width":
            w = 10 ** rng.uniform(-300, -4)
            a = rng.choice([0.0, -w * rng.random(), w * rng.randint(-3, 3), -w])
        elif kind == "huge-width":
            w = 10 ** rng.uniform(6, 300)
            a = rng.choice([0.0, -w * rng.random(), -w / 2, -w, w * rng.random(), rng.gauss(0, 1)])
        elif kind == "subnormal":
            w = rng.uniform(1, 100) * 1e-312
            a = rng.choice([0.0, rng.uniform(-1, 1) * 1e-310, -w / 2])
        elif kind == "far-narrow":
            a = rng.choice([1.0, -1.0]) * 10 ** rng.uniform(0, 300)
            w = math.ulp(a) * n * rng.choice([64, 1000, 10 ** 6, 10 ** 9])
        else:
            a, w = rng.gauss(0, 10), rng.uniform(0.1, 10)
        a = float(a)
        return a, float(a + w)

    for it in range(ctx.scale(50, 400)):
        n = rng.choice([1, 2, 3, 10, rng.randint(1, 50), rng.randint(50, ctx.scale(300, 1000))])
        pmin, pmax = [], []
        for _ in range(rng.randint(1, 4)):
            a, b = gen_range_mag(n)
            pmin.append(a)
            pmax.append(b)
        if any(not (b > a) or not isfin(b - a) for a, b in zip(pmin, pmax)):
            continue
        do_lhs(n, pmin, pmax, rng.choice([("ndarray", "ndarray"), ("list", "list"), ("list", "ndarray")]),
               rng.randrange(10 ** 6))

    # ------------------------------------------------------------------ pareto_front
    def o_dominated(data, o):
        n = len(data)
        out = []
        for i in range(n):
            dom = 0
            for j in range(n):
                if j == i:
                    continue
                if all(math.isnan(a) or math.isnan(b) or (a > b if o > 0 else a < b)
                       for a, b in zip(data[j], data[i])):
                    dom = 1
                    break
            out.append(dom)
        return out

    def do_pareto(data, ncol, o, mrep="C", orep="int", twice=False):
        """mrep: layout / dtype of the array holding the points (mat_rep); orep: how the orientation is held;
        twice: the same array object is passed a second time and the second answer is examined"""
        arr = mat_rep(mrep, data, ncol)
        replay = {"call": "sutils.pareto_front", "data": data, "ncol": ncol, "orientation": o,
                  "array_held_as": mrep, "orientation_held_as": orep, "same_object_passed_twice": twice}
        cm.mark(replay)
        try:
            if twice:
                sutils.pareto_front(arr, scalar_rep(orep, o))
                if not same_snapshot(snapshot(arr), snapshot(mat_rep(mrep, data, ncol))):
                    ctx.notes["input_modified_by_call"] = ctx.notes.get("input_modified_by_call", 0) + 1
                    return None     # the caller's array was changed: what it holds now is another point set
            raw = sutils.pareto_front(arr, scalar_rep(orep, o))
            out = [int(v) for v in raw]
        except Exception as e:      # noqa: BLE001
            if mrep in UNDOCUMENTED_HOLDERS:
                ctx.notes["undocumented_holder_refused"] = ctx.notes.get("undocumented_holder_refused", 0) + 1
                return None
            fail(None, "C20/pareto_front/raises", f"pareto_front of {len(data)} points x {ncol} columns held as "
                 f"{mrep} array (orientation {o} as {orep}) raised {flat_exc(e)}", replay)
            return None
        replay["impl"] = out
        res = {"in": [arr], "out": [raw]}
        hasnan = any(math.isnan(v) for r in data for v in r)
        i = add(f"CPareto {cm.coq_z(o)} {fll(data)} {cm.coq_zlist(out)}", replay,
                ("pareto", min(len(data), 3), ncol, hasnan, o, min(sum(out), 2),
                 len(set(map(tuple, data))) < len(data), mrep, orep, twice))
        want = o_dominated(data, o)
        if out != want:
            k = [a != b for a, b in zip(out, want)].index(True) if len(out) == len(want) else -1
            fail(i, "C20/pareto_front/flag-not-strict-dominance" + ("/nan-coordinates" if hasnan else ""),
                 f"pareto_front(orientation={o}, array held as {mrep}): point {k} flagged "
                 f"{out[k] if k >= 0 else '?'}, "
                 f"strict dominance in every non-missing coordinate says {want[k] if k >= 0 else '?'}")
            return res
        if not hasnan and len(data) > 0 and all(out):
            fail(i, "C20/pareto_front/empty-front", "every point of a complete data set is flagged as dominated")
            return res
        neg = [[-v for v in r] for r in data]
        try:
            rev = [int(v) for v in sutils.pareto_front(mat_rep(mrep, neg, ncol), scalar_rep(orep, -o))]
        except Exception as e:      # noqa: BLE001
            fail(i, "C20/pareto_front/raises", f"pareto_front(-data, {-o}) (held as {mrep}) raised {flat_exc(e)}")
            return res
        if rev != out:
            fail(i, "C20/pareto_front/orientation-not-negation",
                 f"pareto_front(data, {o}) != pareto_front(-data, {-o})")
        return res

    if replay_is("sutils.pareto_front"):
        do_pareto([[float(v) for v in r] for r in rp["data"]], int(rp["ncol"]), int(rp["orientation"]),
                  rp.get("array_held_as", "C"), rp.get("orientation_held_as", "int"),
                  bool(rp.get("same_object_passed_twice")))
    def gen_points(n, ncol, nan_ok=True):
        kind = rng.random()
        if kind < 0.5:
            k = rng.choice([1, 2, 3, 6])
            data = [[float(rng.randint(0, k)) for _ in range(ncol)] for _ in range(n)]
        elif kind < 0.75:
            data = [[rng.gauss(0, 1) for _ in range(ncol)] for _ in range(n)]
        else:   # chains and anti-chains
            base = [rng.gauss(0, 1) for _ in range(n)]
            sgn = [rng.choice([1, -1]) if rng.random() < 0.5 else 1 for _ in range(ncol)]
            data = [[s * b + rng.choice([0.0, 0.0, rng.gauss(0, 0.3)]) for s in sgn] for b in base]
        pn = rng.choice([0.0, 0.0, 0.05, 0.3, 0.7]) if nan_ok else 0.0
        data = [[NAN if rng.random() < pn else v for v in r] for r in data]
        if rng.random() < 0.1 and n > 1:
            data[rng.randrange(n)] = list(data[rng.randrange(n)])
        return data

    for it in range(ctx.scale(260, 2600)):
        n = rng.choice([0, 1, 2, 3, rng.randint(0, 12), rng.randint(0, 60)])
        ncol = rng.randint(1, 5)
        do_pareto(gen_points(n, ncol), ncol, rng.choice([1, -1]))
    # the same point sets held in other ways: Fortran order, transposed / strided / negative-stride views, float32
    # and integer arrays (coordinates those types hold exactly), big-endian, read-only, masked array without
    # masked entry; the orientation as numpy integer or float
    for it in range(ctx.scale(6, 24) * len(MAT_REPS)):
        mrep = MAT_REPS[it % len(MAT_REPS)]
        n = rng.choice([0, 1, 2, 3, rng.randint(0, 12), rng.randint(0, 40)])
        ncol = rng.randint(1, 5)
        needs = REP_NEEDS.get(mrep)
        data = gen_points(n, ncol, nan_ok=needs != "int")
        if needs == "int":
            data = [[float(round(3 * v)) for v in r] for r in data]
        elif needs == "f32":
            data = [fit_values(r, "f32") for r in data]
        do_pareto(data, ncol, rng.choice([1, -1]), mrep,
                  rng.choice(["int", "int", "np.int64", "np.int32", "np.int8", "float", "np.float64"]),
                  twice=rng.random() < 0.3)
    # point sets of extreme but legal magnitudes: "strictly better" is a comparison, whatever the size of the
    # improvement.  Every column gets a magnitude class of its own (objective values of the order of 1e-11 ..
    # 1e-300 or whole multiples of the smallest double, of 1e+11 .. 1e+300, neighbouring doubles, values equal to
    # 10 decimals, mixed magnitudes, +-0) or stays ordinary; lattices, Gaussian clouds, chains and anti-chains
    # as above, NaN coordinates, both orientations, several layouts.
    def gen_points_mag(n, ncol):
        data = gen_points(n, ncol)
        names = []
        for j in range(ncol):
            if rng.random() < 0.2 and ncol > 1:
                names.append("ordinary")
                continue
            name, f = mag_map(rng)
            names.append(name)
            for r in data:
                if not math.isnan(r[j]):
                    r[j] = float(f(r[j]))
                    if r[j] == 0.0 and rng.random() < 0.3:
                        r[j] = -0.0
        return data, names

    for it in range(ctx.scale(90, 900)):
        n = rng.choice([2, 3, 4, rng.randint(0, 12), rng.randint(0, 60)])
        ncol = rng.randint(1, 5)
        data, names = gen_points_mag(n, ncol)
        do_pareto(data, ncol, rng.choice([1, -1]),
                  rng.choice(["C", "C", "C", "F", "transposed", "row-strided", "big-endian", "readonly"]),
                  rng.choice(["int", "int", "np.int64", "float"]))

    # ------------------------------------------------------------------ numpy.percentile
    for it in range(ctx.scale(150, 1500)):
        n = rng.choice([1, 2, 3, 4, 5, rng.randint(1, 50), rng.randint(1, 300)])
        s = sorted(gen_values(rng, n) if it % 4 else gen_values_mag(rng, n)[0])
        p = rng.choice([0.0, 100.0, 50.0, 25.0, 75.0, 5.0, 95.0, rng.uniform(0, 100),
                        100.0 * rng.randrange(n) / max(1, n - 1) if n > 1 else 30.0])
        p = min(100.0, max(0.0, float(p)))
        out = float(np.percentile(np.array(s), p))
        add(f"CPercentile {fl(s)} {cm.coq_float(p)} {cm.coq_float(out)}",
            {"call": "numpy.percentile", "sorted": s, "p": p, "impl": out}, ("percentile", min(n, 4), p in (0.0, 100.0)))

    # ------------------------------------------------------------------ box plot statistics
    def o_boxstats(i, vals, box, wh, st, where, replay):
        """the statement on one column / group: st = implementation's numbers"""
        fin = [v for v in vals if isfin(v)]
        nonfin = len(fin) < len(vals)
        tag = "/nonfinite-input" if nonfin else ""
        if st["count"] != len(fin):
            fail(i, f"C20/{where}/count{tag}", f"count = {st['count']}, finite values: {len(fin)}", replay)
            return
        allv = st["prc"] + [st["mean"], st["max"], st["min"]]
        if all(math.isnan(v) for v in allv):
            # the NaN row: what the code documents for small samples (the property text leaves
            # the minimum sample size open; the model follows the threshold found in the source)
            if len(fin) > 3:
                fail(i, f"C20/{where}/nan-row-for-large-sample{tag}",
                     f"{len(fin)} finite values but every statistic is NaN", replay)
            return
        if not fin:
            fail(i, f"C20/{where}/statistics-of-empty-sample{tag}", f"no finite value but statistics {allv}", replay)
            return
        s = sorted(F(v) for v in fin)
        sc = mag_of(fin)        # tolerances relative to the sample itself (data of any magnitude)
        tol = rel_tol(fin)
        b1, b2 = exact_levels(box)
        w1, w2 = exact_levels(wh)
        for name, lev, got in zip(["whisker-low", "box-low", "median", "box-high", "whisker-high"],
                                  [w1, b1, Fraction(50), b2, w2], st["prc"]):
            want = exact_percentile(s, lev)
            if not close(got, want, tol):
                fail(i, f"C20/{where}/percentile{tag}", f"{name} (level {float(lev)}) = {got!r}, the finite "
                     f"sample gives {float(want)!r} (n={len(fin)})", replay)
                return
        seq = [st["min"]] + st["prc"] + [st["max"]]
        if any(not (a <= b + 1e-12 * sc) for a, b in zip(seq, seq[1:])):   # sc: largest finite magnitude
            fail(i, f"C20/{where}/not-ordered{tag}", f"min, percentiles, max not in non-decreasing order: {seq}", replay)
            return
        if F(st["min"]) != s[0] or F(st["max"]) != s[-1]:
            fail(i, f"C20/{where}/minmax{tag}", f"min/max = {st['min']!r}/{st['max']!r}, finite sample "
                 f"{float(s[0])!r}/{float(s[-1])!r}", replay)
            return
        if not close(st["mean"], sum(s) / len(s), tol):
            fail(i, f"C20/{where}/mean{tag}", f"mean = {st['mean']!r}, finite sample {float(sum(s) / len(s))!r}", replay)

    def sig_col(vals):
        fin = [v for v in vals if isfin(v)]
        return (min(len(vals), 5), min(len(fin), 5), len(fin) < len(vals), len(set(fin)) < len(fin),
                len(set(fin)) == 1 and len(fin) > 1)

    def do_box(cols, box, wh, frep="frame", seed=0, crep="float", twice=False):
        """cols: dict name -> list (same length >= 1): Boxplot(DataFrame).stats and boxplot_stats.
        frep: how the columns are held (frame_rep); crep: how the two coverages are held; twice: a second
        Boxplot is built from the same object and the second one is examined"""
        valid = box >= 40.0 and wh > box
        df, keys = frame_rep(pd, frep, cols, seed)
        key_of = dict(zip(cols, keys))
        held = {"columns": cols, "columns_held_as": frep, "rep_seed": seed, "coverages_held_as": crep,
                "same_object_passed_twice": twice}
        bp, exc = None, None
        try:
            if twice:
                hbox.Boxplot(df, box_coverage=scalar_rep(crep, box), whiskers_coverage=scalar_rep(crep, wh))
                if not same_snapshot(snapshot(frame_rep(pd, frep, cols, seed)[0]), snapshot(df)):
                    ctx.notes["input_modified_by_call"] = ctx.notes.get("input_modified_by_call", 0) + 1
                    return None
            bp = hbox.Boxplot(df, box_coverage=scalar_rep(crep, box), whiskers_coverage=scalar_rep(crep, wh))
            stats = bp.stats
        except hbox.BoxplotError:
            stats = None
        except Exception as e:      # noqa: BLE001
            stats, exc = None, e
        if (exc is not None or stats is None) and valid and frep in UNDOCUMENTED_HOLDERS:
            ctx.notes["undocumented_holder_refused"] = ctx.notes.get("undocumented_holder_refused", 0) + 1
            return None
        if exc is not None:
            if valid:
                fail(None, "C20/boxplot/raises", f"Boxplot of {len(cols)} column(s) held as {frep} (coverages "
                     f"{box}, {wh} as {crep}) raised {flat_exc(exc)}",
                     dict(held, call="Boxplot(DataFrame).stats", box_coverage=box, whiskers_coverage=wh))
            return None
        levels = None
        if stats is not None:
            b1, b2 = hbox.compute_percentiles(box)
            w1, w2 = hbox.compute_percentiles(wh)
            levels = [w1, b1, 50, b2, w2]
        res = {"in": [df], "out": [], "reread": (lambda: [bp.stats]) if bp is not None else None}
        for name, vals in cols.items():
            replay = dict(held, call="Boxplot(DataFrame).stats", column=vals, box_coverage=box,
                          whiskers_coverage=wh)
            st = None
            if stats is not None:
                if key_of[name] not in stats.columns:
                    fail(None, "C20/boxplot/missing-column", f"no statistics for column {key_of[name]!r} "
                         f"(columns held as {frep}): {list(stats.columns)}", replay)
                    continue
                st = read_stats(stats[key_of[name]], levels)
                if st is None:
                    continue      # duplicate labels: outside the generator's intent
                replay["impl"] = st
            i = add(f"CBox {fl(vals)} {cm.coq_float(box)} {cm.coq_float(wh)} {cm.coq_option(st, fstats_term)}",
                    replay, ("box",) + sig_col(vals) + (stats is None, frep, crep, twice))
            if not valid:
                continue    # outside the quantifier (40 <= box < whiskers): correspondence only
            if stats is None:
                fail(i, "C20/boxplot/valid-coverage-rejected", f"Boxplot rejected box={box}, whiskers={wh}")
                continue
            o_boxstats(i, vals, box, wh, st, "boxplot", replay)
            # the function alone gives the same numbers as the frame-wise apply
            alone = read_stats(hbox.boxplot_stats(np.array(vals, dtype=float), box, wh), levels)
            if alone is not None and not same_stats(alone, st):
                fail(i, "C20/boxplot/column-differs-from-function",
                     f"Boxplot(...).stats column {st} != boxplot_stats(column) {alone}", replay)
        return res

    def same_stats(a, b):
        def eq(x, y, tol=0.0):
            if math.isnan(x) or math.isnan(y):
                return math.isnan(x) and math.isnan(y)
            return abs(x - y) <= tol
        sc = scale_of(a["prc"] + b["prc"])
        return (a["count"] == b["count"] and all(eq(x, y) for x, y in zip(a["prc"], b["prc"]))
                and eq(a["max"], b["max"]) and eq(a["min"], b["min"]) and eq(a["mean"], b["mean"], 1e-12 * sc))

    if replay_is("Boxplot(DataFrame).stats") and len(rp["column"]) > 0:
        do_box({k: [float(v) for v in vs] for k, vs in rp.get("columns", {"c0": rp["column"]}).items()},
               float(rp["box_coverage"]), float(rp["whiskers_coverage"]), rp.get("columns_held_as", "frame"),
               int(rp.get("rep_seed", 0)), rp.get("coverages_held_as", "float"),
               bool(rp.get("same_object_passed_twice")))
    maxlen = ctx.scale(300, 1200)
    for it in range(ctx.scale(130, 1300)):
        n = max(1, gen_len(rng, maxlen))
        ncols = rng.choice([1, 1, 2, 3])
        cols = {f"c{k}": add_nonfinite(rng, gen_values(rng, n)) for k in range(ncols)}
        box, wh = gen_coverages(rng)
        r = rng.random()
        if r < 0.04:
            box = rng.choice([39.9, 30.0, 0.0, 39.99999])
        elif r < 0.08:
            wh = rng.choice([box, box - 1.0, box - 1e-9])
        do_box(cols, box, wh)
    # the same columns held in other ways: frames with any index (integers out of order, duplicates, dates with
    # unit / time zone, text), integer column labels, Fortran-order / float32 / integer / object blocks, dict of
    # lists, list of rows, 2-D arrays (C / Fortran order, strided view, read-only), one column as Series or 1-D
    # array; the coverages as integers or numpy scalars
    for it in range(ctx.scale(3, 12) * len(FRAME_REPS)):
        frep = FRAME_REPS[it % len(FRAME_REPS)]
        n = max(1, rng.choice([1, 3, 4, 5, 8, rng.randint(1, 40), rng.randint(1, 40)]))
        ncols = 1 if frep in ONE_COLUMN_REPS else rng.choice([1, 2, 3])
        needs = REP_NEEDS.get(frep)
        cols = {}
        for k in range(ncols):
            v = gen_values(rng, n)
            cols[f"c{k}"] = fit_values(v, needs) if needs == "int" else fit_values(add_nonfinite(rng, v), needs)
        crep = rng.choice(["float", "float", "int", "np.float64", "np.int64", "np.float32"])
        if crep == "float":
            box, wh = gen_coverages(rng)
        else:       # coverages that integers and float32 hold exactly
            box = float(rng.choice([40, 50, 50, 60, 75, 80]))
            wh = float(rng.choice([90, 90, 95, 99, 100]))
        do_box(cols, box, wh, frep, rng.randrange(10 ** 6), crep, twice=rng.random() < 0.25)
    # the function alone on empty / tiny arrays
    def do_boxfn(vals, box=50.0, wh=90.0, vrep="ndarray", seed=0):
        """boxplot_stats(column held as vrep, box, wh)"""
        xin = vec_rep(pd, vrep, vals, seed)
        replay = {"call": "boxplot_stats", "column": vals, "box_coverage": box, "whiskers_coverage": wh,
                  "column_held_as": vrep, "rep_seed": seed}
        try:
            raw = hbox.boxplot_stats(xin, box, wh)
            b1, b2 = hbox.compute_percentiles(box)
            w1, w2 = hbox.compute_percentiles(wh)
            st = read_stats(raw, [w1, b1, 50, b2, w2])
        except Exception as e:      # noqa: BLE001
            fail(None, "C20/boxplot/function-raises", f"boxplot_stats of {len(vals)} values held as {vrep} raised "
                 f"{flat_exc(e)}", replay)
            return None
        if st is None:
            return None
        replay["impl"] = st
        i = add(f"CBox {fl(vals)} {cm.coq_float(box)} {cm.coq_float(wh)} (Some {fstats_term(st)})",
                replay, ("boxfn",) + sig_col(vals) + (vrep,))
        o_boxstats(i, vals, box, wh, st, "boxplot", replay)
        return {"in": [xin], "out": [raw]}

    if replay_is("boxplot_stats"):
        do_boxfn([float(v) for v in rp["column"]], float(rp["box_coverage"]), float(rp["whiskers_coverage"]),
                 rp.get("column_held_as", "ndarray"), int(rp.get("rep_seed", 0)))
    for vals in [[], [NAN], [INF], [1.0], [1.0, 2.0, 3.0], [1.0, 2.0, 3.0, NAN, INF, -INF]]:
        do_boxfn(vals)
    # the function on a column held as integer array, strided / reversed view, read-only array, Series with any
    # index (what DataFrame.apply and groupby.apply hand to it, and what a caller may hand to it)
    FN_REPS = ["int64", "int32", "strided", "reversed", "readonly"] + ["series:" + k for k in IDX_KINDS]
    for it in range(ctx.scale(2, 8) * len(FN_REPS)):
        vrep = FN_REPS[it % len(FN_REPS)]
        v = gen_values(rng, rng.choice([0, 1, 3, 4, 5, 9, rng.randint(0, 40)]))
        v = fit_values(v, "int") if REP_NEEDS.get(vrep) == "int" else add_nonfinite(rng, v)
        box, wh = gen_coverages(rng)
        do_boxfn(v, box, wh, vrep, rng.randrange(10 ** 6))

    # Regions of the quantifier where a comparison inside the summary switches:
    def gen_coverages_edge():
        """coverages at the ends of their ranges: box at / next to 40, box next to 100 (whiskers 100), whiskers just
        above the box, whiskers at / next to 100 (the one-decimal labels of the five levels stay distinct)"""
        r = rng.choice(["box-40", "box-high", "close", "wh-100", "wh-high"])
        if r == "box-40":
            return rng.choice([40.0, 40.0, 40.000001, 40.1]), rng.choice([41.0, 60.0, 99.9, 100.0])
        if r == "box-high":
            return rng.choice([98.5, 99.0, 99.25, 99.5, 99.6]), 100.0
        if r == "close":
            box = float(rng.choice([40, 50, 75, 90, 97]))
            return box, box + rng.choice([0.5, 0.6, 1.0])
        if r == "wh-100":
            return float(rng.choice([40, 50, 80, 95])), 100.0
        return float(rng.choice([40, 50, 80, 95])), rng.choice([99.5, 99.8, 99.9, 99.99])

    def gen_column_edge(n):
        """a column of n values in one of the narrow regions: a magnitude class; exactly 3 / 4 / 5 finite values
        (where the NaN row starts) among non-finite ones; a size that puts percentile levels exactly on sample
        values; nearly constant (two neighbouring doubles); finite values next to the largest double"""
        r = rng.choice(["mag", "mag", "mag", "few-finite", "on-sample", "near-constant", "near-max"])
        if r == "mag":
            v, name = gen_values_mag(rng, n)
            return (add_nonfinite(rng, v) if rng.random() < 0.5 else v), "mag:" + name.split(":")[0]
        if r == "few-finite":
            nfin = min(n, rng.choice([3, 4, 4, 5]))
            v = [rng.choice([NAN, INF, -INF]) for _ in range(n)]
            for k in rng.sample(range(n), nfin):
                v[k] = rng.choice([0.0, 1.0, rng.gauss(0, 1), rng.gauss(0, 1) * 1e-12])
            return v, r
        if r == "on-sample":
            m = 1 + rng.choice([20, 40, 4, 8, 100, 200])      # (m - 1) * level / 100 is whole for 5, 25, 50 ...
            v = gen_values(rng, m) + [NAN] * max(0, n - m)
            rng.shuffle(v)
            return v, r
        if r == "near-constant":
            base = rng.choice(MAG_BASES)
            return [rng.choice([base, base, math.nextafter(base, INF)]) for _ in range(n)], r
        return [rng.choice([1.0, -1.0]) * rng.uniform(0.5, 1.0) * 1.7e308 / max(n, 1) for _ in range(n)], r

    for it in range(ctx.scale(90, 700)):
        n = max(1, rng.choice([4, 5, 8, 21, rng.randint(1, 40), rng.randint(1, ctx.scale(150, 600))]))
        cols, kinds = {}, []
        for k in range(rng.choice([1, 1, 2, 3])):
            v, kind = gen_column_edge(n)
            v = (v + [NAN] * n)[:max(n, len(v))]
            cols[f"c{k}"] = v
            kinds.append(kind)
        m = max(len(v) for v in cols.values())
        cols = {k: v + [NAN] * (m - len(v)) for k, v in cols.items()}
        box, wh = gen_coverages_edge() if it % 2 else gen_coverages(rng)
        ctx.count(("box-edge",) + tuple(sorted(set(kinds))))
        if it % 3 == 0:
            for v in cols.values():
                do_boxfn(v, box, wh, rng.choice(["ndarray", "series:range", "strided"]), rng.randrange(10 ** 6))
        else:
            do_box(cols, box, wh)

    # ------------------------------------------------------------------ box plot with `by`
    def by_rep(name, labels, index):
        """the grouping vector held as array / list / tuple / int32 array / Series (named or not) that carries
        the index of the data (the default index when the data have none)"""
        if name == "ndarray":
            return np.array(labels)
        if name == "list":
            return list(labels)
        if name == "tuple":
            return tuple(labels)
        if name == "int32":
            return np.array(labels).astype(np.int32)
        if name == "series":
            return pd.Series(np.array(labels), index=index)
        if name == "series-named":
            return pd.Series(np.array(labels), index=index, name="month")
        raise ValueError(name)

    def do_boxby(by, vals, box, wh, aslabels, drep="ndarray", brep="ndarray", seed=0, twice=False):
        """drep: how the data vector is held (vec_rep); brep: how the grouping vector is held (by_rep)"""
        cats = sorted(set(by))
        labels = [f"g{c:02d}" for c in by] if aslabels else by
        replay = {"call": "Boxplot(data, by).stats", "by": by, "data": vals, "box_coverage": box,
                  "whiskers_coverage": wh, "string_labels": aslabels, "data_held_as": drep, "by_held_as": brep,
                  "rep_seed": seed, "same_objects_passed_twice": twice}
        valid = len(cats) >= 2 and box >= 40.0 and wh > box
        bp, exc = None, None
        try:
            din = vec_rep(pd, drep, vals, seed)
            bin_ = by_rep(brep, labels, din.index if hasattr(din, "index") and not isinstance(din, (list, tuple))
                          else None)
            if twice:
                hbox.Boxplot(din, by=bin_, box_coverage=box, whiskers_coverage=wh)
                if not same_snapshot(snapshot(din), snapshot(vec_rep(pd, drep, vals, seed))) or \
                        [str(v) for v in np.asarray(bin_)] != [str(v) for v in labels]:
                    ctx.notes["input_modified_by_call"] = ctx.notes.get("input_modified_by_call", 0) + 1
                    return None
            bp = hbox.Boxplot(din, by=bin_, box_coverage=box, whiskers_coverage=wh)
            stats = bp.stats
        except hbox.BoxplotError:
            stats = None
        except Exception as e:      # noqa: BLE001
            stats, exc = None, e
        if (exc is not None or stats is None) and valid and (drep in UNDOCUMENTED_HOLDERS or brep in UNDOCUMENTED_HOLDERS):
            ctx.notes["undocumented_holder_refused"] = ctx.notes.get("undocumented_holder_refused", 0) + 1
            return None
        if exc is not None:
            if valid:
                fail(None, "C20/boxplot-by/raises", f"Boxplot(data held as {drep}, by held as {brep}) with "
                     f"{len(cats)} categories raised {flat_exc(exc)}", replay)
            return None
        res = {"in": [din], "out": [], "reread": (lambda: [bp.stats]) if bp is not None else None}
        exp = None
        if stats is not None:
            b1, b2 = hbox.compute_percentiles(box)
            w1, w2 = hbox.compute_percentiles(wh)
            levels = [w1, b1, 50, b2, w2]
            exp = []
            for c in cats:
                key = f"g{c:02d}" if aslabels else c
                if key not in stats.columns:
                    exp = "missing-column"
                    break
                st = read_stats(stats[key], levels)
                if st is None:
                    return res
                exp.append((c, st))
            replay["impl"] = exp
        if exp == "missing-column":
            fail(None, "C20/boxplot-by/missing-group", f"category {c} has no column in Boxplot(data, by).stats "
                 f"(data held as {drep}, by as {brep})", replay)
            return res
        term = cm.coq_option(exp, lambda e: "[" + "; ".join(f"({cm.coq_z(c)}, {fstats_term(st)})" for c, st in e) + "]")
        i = add(f"CBoxBy {cm.coq_zlist(by)} {fl(vals)} {cm.coq_float(box)} {cm.coq_float(wh)} {term}",
                replay, ("boxby", len(cats), min(len(vals), 5), any(not isfin(v) for v in vals), stats is None,
                         drep, brep, twice))
        if not valid:
            return res  # outside the quantifier (2+ categories, 40 <= box < whiskers): correspondence only
        if stats is None:
            fail(i, "C20/boxplot-by/valid-arguments-rejected", f"{len(cats)} categories, box={box}, whiskers={wh}")
            return res
        if len(stats.columns) != len(cats):
            fail(i, "C20/boxplot-by/extra-group", f"columns {list(stats.columns)} for categories {cats}")
            return res
        for c, st in exp:
            sub = [v for b, v in zip(by, vals) if b == c]
            o_boxstats(i, sub, box, wh, st, "boxplot-by", replay)
            alone = read_stats(hbox.boxplot_stats(pd.Series(np.array(sub, dtype=float)), box, wh), levels)
            if alone is not None and not same_stats(alone, st):
                fail(i, "C20/boxplot-by/group-differs-from-group-alone",
                     f"category {c}: grouped {st} != boxplot_stats(group alone) {alone}", replay)
                return res
        return res

    if replay_is("Boxplot(data, by).stats"):
        do_boxby([int(v) for v in rp["by"]], [float(v) for v in rp["data"]], float(rp["box_coverage"]),
                 float(rp["whiskers_coverage"]), bool(rp.get("string_labels")), rp.get("data_held_as", "ndarray"),
                 rp.get("by_held_as", "ndarray"), int(rp.get("rep_seed", 0)),
                 bool(rp.get("same_objects_passed_twice")))
    def gen_by(maxsize, one_ok=True, ncat=None):
        """ncat: number of categories (default 2..5; up to 12: one per month)"""
        ncat = ncat or rng.choice([2, 2, 3, 4, 5])
        if one_ok and rng.random() < 0.05:
            ncat = 1
        sizes = [rng.choice([1, 2, 3, 4, 5, rng.randint(1, 30), rng.randint(1, maxsize)]) for _ in range(ncat)]
        if ncat > 1 and len(set(sizes)) == 1:
            sizes[0] += 1 + rng.randint(0, 5)
        ids = rng.sample(range(0, 12), ncat)
        by = [c for c, s in zip(ids, sizes) for _ in range(s)]
        rng.shuffle(by)
        return by

    for it in range(ctx.scale(70, 700)):
        by = gen_by(ctx.scale(120, 500))
        vals = add_nonfinite(rng, gen_values(rng, len(by)))
        box, wh = gen_coverages(rng)
        if rng.random() < 0.04:
            box = 35.0
        do_boxby(by, vals, box, wh, rng.random() < 0.3)
    # the same data and grouping vectors held in other ways.  Data: list / tuple / float32 / integer / strided /
    # reversed / read-only arrays, Series with any index; grouping vector: array, list, tuple, int32, Series (named
    # or not).  When the data are a Series with an index of their own, the grouping vector is a Series with the
    # same index (the documented use: two columns of one frame); a vector without index is then positional only
    # with the default index, so that combination is not generated.
    BY_DATA_REPS = (["list", "tuple", "float32", "int64", "strided", "reversed", "readonly", "series-named:dates"]
                    + ["series:" + k for k in IDX_KINDS])
    for it in range(ctx.scale(3, 12) * len(BY_DATA_REPS)):
        drep = BY_DATA_REPS[it % len(BY_DATA_REPS)]
        by = gen_by(25, one_ok=False)
        needs = REP_NEEDS.get(drep)
        v = gen_values(rng, len(by))
        vals = fit_values(v, "int") if needs == "int" else fit_values(add_nonfinite(rng, v), needs)
        aslabels = rng.random() < 0.3
        own_index = drep.startswith("series") and not drep.endswith(":range")
        brep = rng.choice(["series", "series-named"] if own_index else
                          ["ndarray", "list", "tuple", "series", "series-named"] + ([] if aslabels else ["int32"]))
        box, wh = gen_coverages(rng)
        do_boxby(by, vals, box, wh, aslabels, drep, brep, rng.randrange(10 ** 6), twice=rng.random() < 0.25)
    # groups in the narrow regions of above (magnitude classes, 3 / 4 / 5 finite values in a group, coverages at the
    # ends of their ranges); a group of magnitude 1e-300 beside a group of magnitude 1e+300
    for it in range(ctx.scale(40, 300)):
        by = gen_by(ctx.scale(60, 300), one_ok=False, ncat=rng.choice([None, None, 8, 12]))
        r = rng.random()
        if r < 0.5:
            vals, _ = gen_values_mag(rng, len(by))
        elif r < 0.75:      # every group its own magnitude
            maps = {c: mag_map(rng)[1] for c in set(by)}
            vals = [float(maps[c](rng.gauss(0, 1) if rng.random() < 0.7 else float(rng.randint(-2, 2)))) for c in by]
        else:               # few finite values per group
            vals = [rng.choice([NAN, INF, -INF]) for _ in by]
            for c in set(by):
                pos = [k for k, b in enumerate(by) if b == c]
                for k in rng.sample(pos, min(len(pos), rng.choice([3, 4, 4, 5]))):
                    vals[k] = rng.choice([0.0, 1.0, rng.gauss(0, 1), rng.gauss(0, 1) * 1e-12])
        if r < 0.75 and rng.random() < 0.5:
            vals = add_nonfinite(rng, vals)
        box, wh = gen_coverages_edge() if it % 2 else gen_coverages(rng)
        do_boxby(by, vals, box, wh, rng.random() < 0.3)

    # ------------------------------------------------------------------ violin
    VROWS = ["Q0", "Q25", "median", "Q75", "Q100"]

    def o_violin_quant(i, vals, st, rp, where="violin"):
        """statement on one column: st = the implementation's quantiles 0, 25, 50, 75, 100; they are those of the
        finite values.  False: the profile of the column is not examined."""
        fin = [v for v in vals if isfin(v)]
        nonfin = len(fin) < len(vals)
        hasinf = any(math.isinf(v) for v in vals)
        if not fin:
            if not all(math.isnan(v) for v in st):
                fail(i, f"C20/{where}/nonfinite-input/quantile-not-finite-sample" if hasinf else
                     f"C20/{where}/empty-column-not-nan", f"no finite value but statistics {st}", rp)
                return False
            return True
        s = sorted(F(v) for v in fin)
        tol = rel_tol(fin)
        for r, lev, got in zip(VROWS, [0, 25, 50, 75, 100], st):
            want = exact_percentile(s, Fraction(lev))
            if not close(got, want, tol):
                fail(i, f"C20/{where}/nonfinite-input/quantile-not-finite-sample" if hasinf else
                     f"C20/{where}/quantile" + ("/nan-input" if nonfin else ""),
                     f"{r} = {got!r}, the finite sample gives {float(want)!r} (n={len(fin)})", rp)
                return True
        if any(not a <= b for a, b in zip(st, st[1:])):
            fail(i, f"C20/{where}/not-ordered", f"quantiles not in non-decreasing order: {st}", rp)
        return True

    def o_violin_profile(j, vals, x, y, rp, where="violin", strict=True):
        """statement on the density profile of one column (x, y = kde_x, kde_y): finite, in [0, 1] with minimum 0
        and maximum 1, abscissae sorted within the data range.  strict=False (columns of extreme magnitude, see
        the generator restrictions of the violin): a missing profile is accepted, a profile that is there is
        examined."""
        fin = [v for v in vals if isfin(v)]
        has = not all(math.isnan(v) for v in x)
        degenerate = len(fin) < 3 or (max(fin) - min(fin)) <= 1e-6 * scale_of(fin) or not strict
        if not has:
            if not degenerate:
                fail(j, f"C20/{where}/profile-missing", f"no density profile for {len(fin)} finite values", rp)
            elif not all(math.isnan(v) for v in y):
                fail(j, f"C20/{where}/profile-inconsistent", "kde_x is NaN but kde_y is not", rp)
            return
        if len(fin) < 3:
            fail(j, f"C20/{where}/profile-from-too-few-values", f"profile from {len(fin)} finite values", rp)
            return
        if any(not isfin(v) for v in y) or min(y) != 0.0 or max(y) != 1.0:
            if degenerate:
                return
            fail(j, f"C20/{where}/profile-not-normalised",
                 f"kde_y range [{min(y)!r}, {max(y)!r}], non-finite: {sum(1 for v in y if not isfin(v))}", rp)
            return
        lo, hi = min(fin) - 1.0000001e-6, max(fin) + 1.0000001e-6
        if any(not a <= b for a, b in zip(x, x[1:])) or x[0] < lo or x[-1] > hi:
            fail(j, f"C20/{where}/abscissae", f"kde_x not sorted within the data range [{min(fin)!r}, {max(fin)!r}]", rp)

    def do_violin(cols, frep="frame", seed=0, twice=False, loose=()):
        """frep: how the columns are held (frame_rep); twice: a second Violin is built from the same object;
        loose: names of the columns of extreme magnitude (outside the generator restrictions of the density
        profile: a missing profile is accepted for them)"""
        names = list(cols)
        nrows = len(cols[names[0]])
        df, keys = frame_rep(pd, frep, cols, seed)
        key_of = dict(zip(names, keys))
        events = []
        okde, ounif = hvio.gaussian_kde, np.random.uniform

        class KdeProxy:
            def __init__(self, dataset, *a, **k):
                events.append(["kde", False])
                self.k = okde(dataset, *a, **k)
                events[-1][1] = True

            def __call__(self, x):
                y = self.k(x)
                events.append(["eval", [float(v) for v in np.asarray(y)]])
                return y

        def unif(*a, **k):
            r = ounif(*a, **k)
            events.append(["unif", [float(v) for v in np.atleast_1d(r)]])
            return r
        replay = {"call": "Violin(DataFrame)", "columns": cols, "columns_held_as": frep, "rep_seed": seed,
                  "same_object_passed_twice": twice, "extreme_magnitude_columns": list(loose)}
        held = {"columns_held_as": frep, "rep_seed": seed, "same_object_passed_twice": twice,
                "extreme_magnitude_columns": list(loose)}
        err = None
        try:
            if twice:
                hvio.Violin(df)
                if not same_snapshot(snapshot(frame_rep(pd, frep, cols, seed)[0]), snapshot(df)):
                    ctx.notes["input_modified_by_call"] = ctx.notes.get("input_modified_by_call", 0) + 1
                    return None
            with Patch(hvio, "gaussian_kde", KdeProxy), Patch(np.random, "uniform", unif):
                vl = hvio.Violin(df)
                stats, kx, ky = vl.stats, vl.kde_x, vl.kde_y
        except Exception as e:      # any exception: the summaries are not returned
            err = e
        fins = {k: [v for v in cols[k] if isfin(v)] for k in names}
        if err is not None and frep in UNDOCUMENTED_HOLDERS:
            ctx.notes["undocumented_holder_refused"] = ctx.notes.get("undocumented_holder_refused", 0) + 1
            return None
        if err is not None:
            consts = [k for k in names if len(fins[k]) > 2 and len(set(fins[k])) == 1]
            npts = max(100, min(500, nrows))
            if consts:
                key = "C20/violin/constant-column/raises"
            elif npts % 2 == 1 and any(len(fins[k]) > 2 for k in names):
                key = "C20/violin/odd-npoints/raises"
            else:
                key = "C20/violin/raises"
            msg = " ".join(str(err).split())[:100]
            fail(None, key, f"Violin raised {type(err).__name__}: {msg} "
                 f"({nrows} rows; constant columns: {consts}; columns held as {frep})", replay)
            return None
        res = {"in": [df], "out": [], "reread": lambda: [vl.stats, vl.kde_x, vl.kde_y]}
        # split the recorded events per column with more than 2 finite values
        segs, cur = [], None
        for ev in events:
            if ev[0] == "kde":
                cur = {"ok": ev[1], "u": None, "y": None}
                segs.append(cur)
            elif cur is not None and ev[0] == "unif":
                cur["u"] = ev[1]
            elif cur is not None and ev[0] == "eval":
                cur["y"] = ev[1]
        elig = [k for k in names if len(fins[k]) > 2]
        seg_of = dict(zip(elig, segs)) if len(segs) == len(elig) else {}
        rows = VROWS
        for k in names:
            vals, fin = cols[k], fins[k]
            rp = dict(held, call="Violin(DataFrame)", column=vals, nrows=nrows)
            if len(names) > 1 or frep != "frame" or loose:
                rp["columns"] = cols
            try:
                st = [float(stats.loc[r, key_of[k]]) for r in rows]
            except KeyError:
                fail(None, "C20/violin/stats-layout", f"rows {list(stats.index)}, columns {list(stats.columns)} "
                     f"(columns held as {frep})", rp)
                return res
            rp["impl_stats"] = st
            hasinf = any(math.isinf(v) for v in vals)
            i = add(f"CViolin {fl(vals)} {fl(st)}", rp, ("violin",) + sig_col(vals) + (hasinf, k in loose))
            if not o_violin_quant(i, vals, st, None):
                continue
            # density profile
            x = [float(v) for v in kx[key_of[k]].values]
            y = [float(v) for v in ky[key_of[k]].values]
            has = not all(math.isnan(v) for v in x)
            seg = seg_of.get(k)
            if k in elig and seg is not None and (seg["u"] is not None or not seg["ok"]):
                u = seg["u"] or []
                j = add(f"CViolinX {fl(vals)} {cm.coq_z(nrows)} {fl(u)} {cm.coq_bool(seg['ok'])} "
                        f"{cm.coq_z(len(x))} {cm.coq_bool(has)} {fl(x if has else [])}",
                        dict(rp, impl_kde_x=x[:6], u=u[:4]), ("violin-x", min(len(fin), 4), nrows % 2, has,
                                                               nrows <= 100, nrows >= 500))
                if seg["y"] is not None and has:
                    add(f"CNorm {fl(seg['y'])} {fl(y)}", dict(rp, raw_density=seg["y"][:6], impl_kde_y=y[:6]),
                        ("norm", len(y) % 2))
            elif k not in elig:
                j = add(f"CViolinX {fl(vals)} {cm.coq_z(nrows)} [] true {cm.coq_z(len(x))} {cm.coq_bool(has)} []",
                        rp, ("violin-x-small", len(fin), has))
            else:
                j = i
            o_violin_profile(j, vals, x, y, None, strict=k not in loose)
        return res

    if replay_is("Violin(DataFrame)"):
        vrep = (rp.get("columns_held_as", "frame"), int(rp.get("rep_seed", 0)), bool(rp.get("same_object_passed_twice")),
                tuple(rp.get("extreme_magnitude_columns", ())))
        if "columns" in rp:
            do_violin({k: [float(v) for v in vs] for k, vs in rp["columns"].items()}, *vrep)
        elif "column" in rp:
            do_violin({"v0": [float(v) for v in rp["column"]]}, *vrep)
    # corpus: earlier failures, replayed first
    for case in corpus:
        if case.get("call") == "violin":
            do_violin({k: [float(v) for v in vs] for k, vs in case["columns"].items()})

    for it in range(ctx.scale(110, 900)):
        nrows = rng.choice([1, 2, 3, 4, 5, 7, rng.randint(1, 60), rng.randint(80, 130), rng.randint(1, ctx.scale(520, 1500)),
                            rng.choice([101, 103, 251, 499, 500, 501])])
        ncols = rng.choice([1, 1, 2, 3])
        cols = {}
        for k in range(ncols):
            v = gen_values(rng, nrows)
            # spread of non-constant columns well above the 1e-6 jitter and the 1e-10 censoring threshold
            fin = [z for z in v if isfin(z)]
            if len(set(fin)) > 1 and (max(fin) - min(fin)) < 1e-2 * scale_of(fin):
                v = [z * 1.0 for z in gen_values(rng, nrows)]
            cols[f"v{k}"] = add_nonfinite(rng, v) if rng.random() < 0.6 else v
        do_violin(cols)

    # columns of extreme but legal magnitudes (the quantiles are those of the finite values whatever the magnitude;
    # the profile, when there is one, is normalised), alone and beside ordinary columns
    for it in range(ctx.scale(36, 300)):
        nrows = rng.choice([3, 4, 5, 9, rng.randint(1, 60), rng.randint(80, 130), rng.randint(1, ctx.scale(300, 900))])
        cols, loose = {}, []
        for k in range(rng.choice([1, 1, 2, 3])):
            if k > 0 and rng.random() < 0.4:
                v = [float(z) for z in gen_values(rng, nrows)]
                fin = [z for z in v if isfin(z)]
                if len(set(fin)) > 1 and (max(fin) - min(fin)) < 1e-2 * scale_of(fin):
                    v = [float(z) for z in range(nrows)]
            else:
                v, _ = gen_values_mag(rng, nrows)
                loose.append(f"v{k}")
            cols[f"v{k}"] = add_nonfinite(rng, v) if rng.random() < 0.5 else v
        do_violin(cols, loose=tuple(loose))

    def violin_column(nrows, needs=None):
        """a column inside the generator restrictions of the violin (see notes), or None"""
        v = fit_values(gen_values(rng, nrows), needs)
        if needs != "int" and rng.random() < 0.6:
            v = add_nonfinite(rng, v)
        fin = [z for z in v if isfin(z)]
        if len(set(fin)) > 1 and (max(fin) - min(fin)) < 1e-2 * scale_of(fin):
            return None
        return v

    # the same columns held in other ways (as for the box plot)
    for it in range(ctx.scale(2, 8) * len(FRAME_REPS)):
        frep = FRAME_REPS[it % len(FRAME_REPS)]
        nrows = rng.choice([1, 3, 4, 5, 9, rng.randint(1, 40), rng.randint(80, 130)])
        ncols = 1 if frep in ONE_COLUMN_REPS else rng.choice([1, 2])
        cols = {f"v{k}": violin_column(nrows, REP_NEEDS.get(frep)) for k in range(ncols)}
        if any(v is None for v in cols.values()):
            continue
        do_violin(cols, frep, rng.randrange(10 ** 6), twice=rng.random() < 0.25)

    # ------------------------------------------------------------------ histories
    # One process, a sequence of operations on the public entry points: what a call returns satisfies the
    # statement whatever was called before (each step goes through the oracle and the model above), and an
    # answer once returned stays what it was: it is not changed by later calls, by the caller overwriting ANOTHER
    # returned object or overwriting the arrays he passed in; an object (Boxplot, Violin) keeps reporting the
    # same summaries while other objects are built.
    def run_step(st):
        op = st["op"]
        if op == "ppos":
            raw = do_ppos(st["nval"], st["cst"])
            return {"in": [], "out": [raw] if raw is not None else []}
        if op == "standard_normal":
            return do_snorm(st["x"], st["cst"], st["sorted"], st.get("rep", "ndarray"), st.get("seed", 0))
        if op == "lhs":
            return do_lhs(st["nsamples"], st["pmin"], st["pmax"])
        if op == "pareto_front":
            return do_pareto(st["data"], st["ncol"], st["orientation"], st.get("rep", "C"))
        if op == "boxplot_stats":
            return do_boxfn(st["column"], st["box"], st["whiskers"], st.get("rep", "ndarray"), st.get("seed", 0))
        if op == "Boxplot":
            return do_box(st["columns"], st["box"], st["whiskers"], st.get("rep", "frame"), st.get("seed", 0))
        if op == "Boxplot-by":
            return do_boxby(st["by"], st["data"], st["box"], st["whiskers"], False, st.get("rep", "ndarray"),
                            st.get("by_rep", "ndarray"), st.get("seed", 0))
        if op == "Violin":
            return do_violin(st["columns"], st.get("rep", "frame"), st.get("seed", 0))
        raise ValueError(op)

    def run_history(steps):
        live = []       # [step, label, getter of the current value, snapshot when returned, object or None]
        inputs = {}     # step -> objects passed in
        try:
            for k, st in enumerate(steps):
                ambient.clear()
                ambient.update(input_class="history: operations in one process, returned and passed objects kept",
                               steps=steps[:k + 1])
                op = st["op"]
                if op == "overwrite-result":
                    done = False
                    for e in live:
                        if e[0] == st["of"] and e[4] is not None:
                            done = scribble(e[4]) or done
                    live = [e for e in live if not (e[0] == st["of"] and e[4] is not None)]
                    why = f"the caller overwrote the object returned by step {st['of']}"
                    if not done:
                        continue
                elif op == "overwrite-input":
                    if not any([scribble(o) for o in inputs.get(st["of"], [])]):
                        continue
                    why = f"the caller overwrote the arrays passed in step {st['of']}"
                else:
                    res = run_step(st)
                    why = f"the later call {op} (step {k})"
                # every answer still alive is what it was when returned
                for e in list(live):
                    try:
                        now = snapshot(e[2]())
                    except Exception as ex:      # noqa: BLE001
                        now = ([flat_exc(ex)], np.zeros(0))
                    if not same_snapshot(now, e[3]):
                        live.remove(e)
                        j = e[0]
                        fail(None, f"C20/{steps[j]['op']}/returned-answer-changes-later",
                             f"{e[1]} of step {j} ({steps[j]['op']}) changed after {why}: was "
                             f"{e[3][1].ravel()[:6].tolist()}, is {now[1].ravel()[:6].tolist()}",
                             {"call": "history"})
                if op.startswith("overwrite") or res is None:
                    continue
                inputs[k] = res.get("in", [])
                for n_, o in enumerate(res.get("out", [])):
                    if o is not None:
                        live.append([k, f"result {n_}", (lambda o=o: o), snapshot(o), o])
                if res.get("reread"):
                    rr = res["reread"]
                    for n_, o in enumerate(rr()):
                        live.append([k, f"summary {n_} of the object", (lambda rr=rr, n_=n_: rr()[n_]), snapshot(o),
                                     None])
                ctx.count(("history", op, len(live) > 3))
        finally:
            ambient.clear()

    SMALL = [0.0, 1.0, 2.0, 3.0, 5.0, -1.0, 2.5]

    def gen_step():
        op = rng.choice(["ppos", "ppos", "standard_normal", "standard_normal", "lhs", "pareto_front", "pareto_front",
                         "boxplot_stats", "Boxplot", "Boxplot-by", "Violin"])
        box, wh = rng.choice([(50.0, 90.0), (50.0, 90.0), (60.0, 95.0)])
        if op == "ppos":         # few sizes and constants: the same arguments come again
            return {"op": op, "nval": rng.choice([1, 2, 3, 5]), "cst": rng.choice([0.0, 0.3, 0.5])}
        if op == "standard_normal":
            n = rng.choice([1, 3, 5, 6])
            srt = rng.random() < 0.3
            x = [rng.choice(SMALL) if rng.random() < 0.5 else round(rng.gauss(0, 2), 2) for _ in range(n)]
            return {"op": op, "x": sorted(x) if srt else x, "cst": rng.choice([0.0, 0.375]), "sorted": srt,
                    "rep": rng.choice(["ndarray", "ndarray", "list", "series:shuffled", "series:dates"]),
                    "seed": rng.randrange(100)}
        if op == "lhs":
            npar = rng.choice([1, 2])
            return {"op": op, "nsamples": rng.choice([1, 4, 5]), "pmin": [0.0, -1.0][:npar], "pmax": [1.0, 3.0][:npar]}
        if op == "pareto_front":
            ncol = rng.choice([1, 2, 2, 3])
            n = rng.choice([2, 4, 4, 7])
            return {"op": op, "data": [[float(rng.randint(0, 3)) for _ in range(ncol)] for _ in range(n)], "ncol": ncol,
                    "orientation": rng.choice([1, -1]), "rep": rng.choice(["C", "C", "F", "row-strided"])}
        if op == "boxplot_stats":
            n = rng.choice([3, 5, 8])
            return {"op": op, "column": add_nonfinite(rng, [rng.choice(SMALL) for _ in range(n)]), "box": box,
                    "whiskers": wh, "rep": rng.choice(["ndarray", "series:dates", "series:shuffled"]),
                    "seed": rng.randrange(100)}
        if op in ("Boxplot", "Violin"):     # frames of one shape, the same column names: objects that look alike
            n = rng.choice([5, 5, 8])
            cols = {}
            for name in ["a", "b"][:rng.choice([1, 2])]:
                cols[name] = add_nonfinite(rng, [round(rng.gauss(0, 3), 1) for _ in range(n)])
                if op == "Violin":
                    fin = [z for z in cols[name] if isfin(z)]
                    if len(set(fin)) > 1 and (max(fin) - min(fin)) < 1e-2 * scale_of(fin):
                        cols[name] = [float(i) for i in range(n)]
            st = {"op": op, "columns": cols, "rep": rng.choice(["frame", "frame", "ndarray-C", "frame:dates"]),
                  "seed": rng.randrange(100)}
            if op == "Boxplot":
                st.update(box=box, whiskers=wh)
            return st
        by = [rng.choice([1, 2]) for _ in range(rng.choice([6, 9]))]
        by[0], by[1] = 1, 2
        return {"op": op, "by": by, "data": add_nonfinite(rng, [round(rng.gauss(0, 3), 1) for _ in by]), "box": box,
                "whiskers": wh, "rep": rng.choice(["ndarray", "series:dates"]), "by_rep": "series",
                "seed": rng.randrange(100)}

    if replay_is("history"):
        run_history(rp["steps"])
    for it in range(ctx.scale(45, 300)):
        steps = []
        for _ in range(rng.randint(4, 10)):
            steps.append(gen_step())
            k = len(steps) - 1
            r = rng.random()
            if r < 0.3:             # the caller overwrites what he got, then (often) asks again
                steps.append({"op": "overwrite-result", "of": k})
                if rng.random() < 0.7:
                    steps.append(dict(steps[k]))
            elif r < 0.45:
                steps.append({"op": "overwrite-input", "of": k})
            elif r < 0.6 and k > 0:  # ... or overwrites something returned earlier
                j = rng.randrange(k)
                if not steps[j]["op"].startswith("overwrite"):
                    steps.append({"op": "overwrite-result", "of": j})
        model_too[0] = it % 3 == 0      # every third history also as cases of the model
        run_history(steps)
    model_too[0] = True

    # ------------------------------------------------------------------ lives of the plot objects
    # The summaries are observed at Boxplot(...).stats and Violin(...).stats / kde_x / kde_y, and the objects have
    # a life after their construction: every option of the constructor, every drawing / option method (draw on a
    # linear or log axis, with an offset, on the current or a given axis, twice; show_count; set_ylim with limits
    # inside the data; set_color; reset_items; the settings of the items that select the branches of draw), in any
    # order.  Whatever was called, what is read afterwards is examined by the same oracle as a fresh answer: the
    # stored summaries are the sample statistics of the finite values (oracle only - no case for the Coq model).
    # The data include what the drawing code treats specially: zeros and negative values (log axis), columns
    # with a NaN row, constant columns, extreme magnitudes.  An exception of a drawing method is not reported (the
    # statement is about the summaries), the summaries are examined after it all the same.
    import matplotlib
    matplotlib.use("Agg")
    import matplotlib.pyplot as plt
    from matplotlib.figure import Figure

    BOX_CTOR_OPTIONS = {"style": ["default", "narrow"], "show_mean": [False, True], "show_median": [True, True, False],
                        "show_text": [False, True], "center_text": [True, False], "linewidth": [2, 1, 3.5],
                        "width_from_count": [False, True], "number_format": ["0.2f", "0.0f", "3.3e", ".4g"]}
    BOX_ITEM_SETTINGS = [("median", "show_text", True), ("median", "show_line", False), ("median", "marker", "o"),
                         ("mean", "marker", "+"), ("mean", "show_text", True), ("mean", "show_line", True),
                         ("box", "show_text", True), ("box", "ha", "center"), ("box", "ha", "left"),
                         ("box", "facecolor", "none"), ("box", "show_line", False),
                         ("box", "boxstyle", "Round,pad=0,rounding_size=0.2"), ("box", "alpha", 0.3),
                         ("whiskers", "width", 0.3), ("whiskers", "width", 0.0), ("whiskers", "show_line", False),
                         ("caps", "width", 0.0), ("caps", "width", 0.5), ("caps", "show_line", False),
                         ("minmax", "marker", "*"), ("minmax", "marker", "none"), ("minmax", "show_line", True),
                         ("count", "show_text", False), ("count", "number_format", "%0.1f"),
                         ("count", "fontsize", 9)]
    VIOLIN_CTOR_OPTIONS = {"show_text": [True, False], "linewidth": [2, 1], "number_format": ["0.2f", "3.3e"],
                           "col_ref_median": ["darkblue", "k"], "col_ref_others": ["tab:blue", "tab:red"],
                           "brightening_factor_light": [-0.5, 0.3], "brightening_factor_superlight": [-1.0, 0.5],
                           "npoints_kde": [None, 50, 101, 7, 200], "nresample_kde": [500, 10, 50],
                           "st": [False], "lw": [3], "nfmt": ["0.1f"], "crm": ["green"], "cro": ["grey"],
                           "bfl": [-0.2], "bfsl": [-0.8]}
    VIOLIN_ITEM_SETTINGS = [("median", "show_text", False), ("median", "show_text", True), ("center", "show_text", True),
                            ("center", "ha", "left"), ("median", "ha", "left"), ("extremes", "hatch", "none"),
                            ("center", "hatch", "/"), ("extremes", "alpha", 0.5), ("median", "linewidth", 1)]

    def gen_life_column(n):
        """a column for the life of a plot object: what draw treats specially"""
        r = rng.choice(["gauss", "positive", "zeros", "negative", "ints", "const-0", "const", "nan-row", "tiny", "huge"])
        if r == "gauss":
            v = [rng.gauss(0, 1) * rng.choice([1.0, 10.0]) for _ in range(n)]
        elif r == "positive":
            v = [math.exp(rng.gauss(0, 1)) for _ in range(n)]
        elif r == "zeros":          # intermittent: many zeros, the rest positive
            v = [max(0.0, rng.gauss(0, 1)) for _ in range(n)]
        elif r == "negative":
            v = [-math.exp(rng.gauss(0, 1)) for _ in range(n)]
        elif r == "ints":
            v = [float(rng.randint(-2, 2)) for _ in range(n)]
        elif r == "const-0":
            v = [0.0] * n
        elif r == "const":
            v = [rng.choice([5.0, -1.5])] * n
        elif r == "nan-row":        # at most 3 finite values
            v = [NAN] * n
            for k in rng.sample(range(n), min(n, rng.randint(0, 3))):
                v[k] = rng.gauss(0, 1)
            return v
        else:
            v, _ = gen_values_mag(rng, n, r)
        return add_nonfinite(rng, v) if rng.random() < 0.5 else v

    def gen_ylim(vals):
        """limits inside / around / outside the data, either order"""
        fin = sorted(v for v in vals if isfin(v)) or [0.0, 1.0]
        r = rng.random()
        if r < 0.5:
            lo, hi = fin[len(fin) // 4], fin[(3 * len(fin)) // 4]      # cuts the boxes
        elif r < 0.7:
            lo, hi = fin[0], fin[-1]
        elif r < 0.85:
            lo, hi = -1.0, 1.0
        else:
            lo, hi = fin[-1] + 1.0, fin[-1] + 2.0       # everything off limits
        if not hi > lo:
            hi = lo + max(1.0, abs(lo))
        return [float(lo), float(hi)]

    def gen_box_ops(allvals, it):
        """a sequence of operations on a Boxplot; the iteration number makes sure that every option comes up"""
        ops = []
        for s in rng.sample(BOX_ITEM_SETTINGS, rng.choice([0, 1, 2, 4])) + [BOX_ITEM_SETTINGS[it % len(BOX_ITEM_SETTINGS)]]:
            ops.append({"op": "set-item", "item": s[0], "attr": s[1], "value": s[2]})
        ndraw = rng.choice([1, 1, 2])
        for d in range(ndraw):
            log = [False, True][(it + d) % 2] if d == 0 else rng.random() < 0.5
            ops.append({"op": "draw", "ax": rng.choice(["given", "given", "current", "same"]), "logscale": log,
                        "xoffset": rng.choice([0.0, 0.0, 0.3, -1.0])})
            for name in rng.sample(["show_count", "set_ylim", "set_color", "set-item", "read"], rng.randint(1, 4)):
                if name == "show_count":
                    ops.append({"op": name, "ypos": rng.choice([0.025, 0.9])})
                elif name == "set_ylim":
                    ops.append({"op": name, "ylim": rng.choice([gen_ylim(allvals), gen_ylim(allvals)[::-1]]),
                                "hide_offlimit_text": rng.random() < 0.5})
                elif name == "set_color":
                    ops.append({"op": name, "pattern": rng.choice([".", "c0", "1", "nomatch"]),
                                "color": rng.choice(["red", "tab:green"]), "alpha": rng.choice([0.5, 1.0])})
                elif name == "set-item":
                    s = rng.choice(BOX_ITEM_SETTINGS)
                    ops.append({"op": "set-item", "item": s[0], "attr": s[1], "value": s[2]})
                else:
                    ops.append({"op": "read"})
        return ops

    def apply_plot_op(obj, op, axes):
        """one operation on a Boxplot / Violin; axes: {"fig": Figure, "last": axis of the last draw}"""
        name = op["op"]
        if name == "read":
            return
        if name == "set-item":
            item = getattr(obj, op["item"], None)
            if item is not None:
                setattr(item, op["attr"], op["value"])
            return
        if name == "draw":
            kw = {k: op[k] for k in ("logscale", "xoffset", "ylim") if k in op}
            if kw.get("ylim") is not None:
                kw["ylim"] = tuple(kw["ylim"])
            if op["ax"] == "current":
                plt.close("all")
                obj.draw(**kw)
                axes["last"] = plt.gca()
            else:
                if op["ax"] == "given" or axes.get("last") is None:
                    axes["last"] = Figure().subplots()
                obj.draw(ax=axes["last"], **kw)
            return
        if name == "show_count":
            obj.show_count(ypos=op["ypos"])
        elif name == "set_ylim":
            obj.set_ylim(tuple(op["ylim"]), hide_offlimit_text=op["hide_offlimit_text"])
        elif name == "set_color":
            obj.set_color(op["pattern"], op["color"], alpha=op["alpha"])
        elif name == "reset_items":
            obj.reset_items()
        else:
            raise ValueError(name)

    def note_raised(op, e):
        """an exception of a drawing / option method: counted in the evidence, not a failure of the statement"""
        ctx.notes["plot_method_raised"] = ctx.notes.get("plot_method_raised", 0) + 1
        kinds = ctx.notes.setdefault("plot_method_raised_kinds", {})
        k = f"{op['op']}: {flat_exc(e)[:70]}"
        if k in kinds or len(kinds) < 12:
            kinds[k] = kinds.get(k, 0) + 1

    def do_box_life(cols, by, box, wh, options, ops):
        """cols: dict name -> list; by: None (Boxplot(DataFrame)) or a list of categories (one column: Boxplot(data,
        by)); options: keyword arguments of the constructor; ops: operations applied in order"""
        replay = {"call": "Boxplot-life", "columns": cols, "by": by, "box_coverage": box, "whiskers_coverage": wh,
                  "constructor_options": options, "operations": ops,
                  "input_class": "life of a plot object: constructor options, then drawing / option methods; the "
                                 "stored summaries are read after each of them"}
        names = list(cols)
        where = "boxplot-by" if by is not None else "boxplot"
        try:
            if by is None:
                bp = hbox.Boxplot(pd.DataFrame({k: np.array(v, dtype=float) for k, v in cols.items()}),
                                  box_coverage=box, whiskers_coverage=wh, **options)
                groups = {k: (k, cols[k]) for k in names}
            else:
                vals = cols[names[0]]
                bp = hbox.Boxplot(np.array(vals, dtype=float), by=np.array(by), box_coverage=box,
                                  whiskers_coverage=wh, **options)
                groups = {c: (c, [v for b, v in zip(by, vals) if b == c]) for c in sorted(set(by))}
        except Exception as e:      # noqa: BLE001
            fail(None, f"C20/{where}/raises", f"Boxplot with the constructor options {options} raised {flat_exc(e)}",
                 replay)
            return
        b1, b2 = hbox.compute_percentiles(box)
        w1, w2 = hbox.compute_percentiles(wh)
        levels = [w1, b1, 50, b2, w2]
        axes = {}

        def examine(obj, after, upto):
            """the stored summaries, read now, are the sample statistics of every column / group"""
            rp = dict(replay, operations=ops[:upto], read_after=after)
            stats = obj.stats
            nv = ctx.violation_count
            for g, (key, sub) in groups.items():
                if key not in stats.columns:
                    fail(None, f"C20/{where}/after-{after}/missing-column", f"no statistics for {key!r} after "
                         f"{after}: columns {list(stats.columns)}", rp)
                    return False
                st = read_stats(stats[key], levels)
                if st is None:
                    return True
                o_boxstats(None, sub, box, wh, st, f"{where}/after-{after}", dict(rp, column_or_group=key, impl=st))
            return ctx.violation_count == nv

        ctx.count(("box-life", "new", by is not None) + tuple(sorted(options.items())))
        if not examine(bp, "construction", 0):
            return
        for k, op in enumerate(ops):
            try:
                apply_plot_op(bp, op, axes)
                raised = False
            except Exception as e:       # noqa: BLE001
                raised = True
                note_raised(op, e)
            after = op["op"] + ("-logscale" if op.get("logscale") else "")
            ctx.count(("box-life", after, by is not None, raised,
                       (op.get("item"), op.get("attr"), str(op.get("value"))) if op["op"] == "set-item" else
                       (op.get("ax"), op.get("xoffset", 0) != 0, op.get("pattern"), op.get("hide_offlimit_text"))))
            if not examine(bp, after, k + 1):
                break
        plt.close("all")

    def gen_box_life(it):
        n = rng.choice([5, 8, 12, rng.randint(4, 40), rng.randint(4, 60)])
        options = {}
        keys = list(BOX_CTOR_OPTIONS)
        # every option value comes up: option it % len alone, plus a random combination
        k0 = keys[it % len(keys)]
        options[k0] = BOX_CTOR_OPTIONS[k0][(it // len(keys)) % len(BOX_CTOR_OPTIONS[k0])]
        for k in rng.sample(keys, rng.choice([0, 1, 3, len(keys)])):
            options.setdefault(k, rng.choice(BOX_CTOR_OPTIONS[k]))
        box, wh = rng.choice([(50.0, 90.0), (50.0, 90.0), gen_coverages(rng)])
        if it % 3 == 2:
            by = gen_by(20, one_ok=False)
            cols = {"c0": gen_life_column(len(by))}
        else:
            by = None
            cols = {f"c{k}": gen_life_column(n) for k in range(rng.choice([1, 2, 3, 4, 9]))}
        allvals = [v for vs in cols.values() for v in vs]
        return cols, by, box, wh, options, gen_box_ops(allvals, it)

    if replay_is("Boxplot-life"):
        do_box_life({k: [float(v) for v in vs] for k, vs in rp["columns"].items()}, rp.get("by"),
                    float(rp["box_coverage"]), float(rp["whiskers_coverage"]), dict(rp.get("constructor_options", {})),
                    list(rp.get("operations", [])))
    for it in range(ctx.scale(50, 400)):
        do_box_life(*gen_box_life(it))

    def do_violin_life(cols, options, ops, loose=()):
        replay = {"call": "Violin-life", "columns": cols, "constructor_options": options, "operations": ops,
                  "extreme_magnitude_columns": list(loose),
                  "input_class": "life of a plot object: constructor options, then drawing / option methods; the "
                                 "stored summaries are read after each of them"}
        names = list(cols)
        try:
            vl = hvio.Violin(pd.DataFrame({k: np.array(v, dtype=float) for k, v in cols.items()}), **options)
        except Exception as e:      # noqa: BLE001
            fail(None, "C20/violin/raises", f"Violin with the constructor options {options} raised {flat_exc(e)}", replay)
            return
        axes = {}

        def examine(after, upto):
            rp = dict(replay, operations=ops[:upto], read_after=after)
            where = f"violin/after-{after}"
            nv = ctx.violation_count
            try:
                stats, kx, ky = vl.stats, vl.kde_x, vl.kde_y
                for k in names:
                    st = [float(stats.loc[r, k]) for r in VROWS]
                    x = [float(v) for v in kx[k].values]
                    y = [float(v) for v in ky[k].values]
                    rk = dict(rp, column=k, impl_stats=st)
                    # (a sub-sample for the density - option nresample_kde - may be degenerate: profile not required)
                    nfin = sum(1 for v in cols[k] if isfin(v))
                    if o_violin_quant(None, cols[k], st, rk, where):
                        o_violin_profile(None, cols[k], x, y, rk, where,
                                         strict=k not in loose and options.get("nresample_kde", 500) >= nfin)
            except Exception as e:      # noqa: BLE001
                fail(None, f"C20/{where}/summaries-not-readable", f"reading stats / kde_x / kde_y after {after} "
                     f"raised {flat_exc(e)}", rp)
            return ctx.violation_count == nv

        ctx.count(("violin-life", "new") + tuple(sorted((k, str(v)) for k, v in options.items())))
        if not examine("construction", 0):
            return
        for k, op in enumerate(ops):
            try:
                apply_plot_op(vl, op, axes)
                raised = False
            except Exception as e:       # noqa: BLE001
                raised = True
                note_raised(op, e)
            ctx.count(("violin-life", op["op"], raised, op.get("ylim") is not None,
                       (op.get("item"), op.get("attr"), str(op.get("value")))))
            if not examine(op["op"] + ("-ylim" if op.get("ylim") is not None else ""), k + 1):
                break
        plt.close("all")

    def gen_violin_life(it):
        n = rng.choice([5, 8, 30, rng.randint(4, 60), rng.randint(90, 120)])
        keys = list(VIOLIN_CTOR_OPTIONS)
        k0 = keys[it % len(keys)]
        options = {k0: VIOLIN_CTOR_OPTIONS[k0][(it // len(keys)) % len(VIOLIN_CTOR_OPTIONS[k0])]}
        for k in rng.sample(keys, rng.choice([0, 1, 3, 6])):
            options.setdefault(k, rng.choice(VIOLIN_CTOR_OPTIONS[k]))
        cols, loose = {}, []
        for k in range(rng.choice([1, 2, 3])):
            v = gen_life_column(n)
            fin = [z for z in v if isfin(z)]
            if len(set(fin)) > 1 and (max(fin) - min(fin)) < 1e-2 * scale_of(fin) or mag_of(fin) > 1e6:
                loose.append(f"v{k}")       # outside the generator restrictions of the density profile
            cols[f"v{k}"] = v
        allvals = [v for vs in cols.values() for v in vs]
        ops = []
        for s in rng.sample(VIOLIN_ITEM_SETTINGS, rng.choice([0, 1, 2])) + [VIOLIN_ITEM_SETTINGS[it % len(VIOLIN_ITEM_SETTINGS)]]:
            ops.append({"op": "set-item", "item": s[0], "attr": s[1], "value": s[2]})
        for d in range(rng.choice([1, 1, 2])):
            ylim = None if (it + d) % 2 else gen_ylim(allvals)
            ops.append({"op": "draw", "ax": rng.choice(["given", "current", "same"]), "ylim": ylim})
            for name in rng.sample(["reset_items", "set-item", "read"], rng.randint(1, 2)):
                if name == "set-item":
                    s = rng.choice(VIOLIN_ITEM_SETTINGS)
                    ops.append({"op": "set-item", "item": s[0], "attr": s[1], "value": s[2]})
                else:
                    ops.append({"op": name})
        return cols, options, ops, tuple(loose)

    if replay_is("Violin-life"):
        do_violin_life({k: [float(v) for v in vs] for k, vs in rp["columns"].items()},
                       dict(rp.get("constructor_options", {})), list(rp.get("operations", [])),
                       tuple(rp.get("extreme_magnitude_columns", ())))
    for it in range(ctx.scale(32, 250)):
        do_violin_life(*gen_violin_life(it))

    # ------------------------------------------------------------------ Coq
    sel = [i for i, t in enumerate(terms) if t is not None]
    bad, nshards, failed = cm.run_case_files(PID, HEADER, "scase", "s_ok", [terms[i] for i in sel], shard=250,
                                             max_bytes=350000)
    bad = [sel[b] for b in bad]
    ctx.notes["correspondence_cases"] = len(sel)
    ctx.notes["oracle_only_cases"] = len(terms) - len(sel)
    ctx.notes["correspondence_mismatches"] = len(bad)
    for k in range(nshards):
        ctx.obligation(f"Cases_{PID}_{k}.agree (model = implementation on the shard)", True)
    cm.settle(ctx, proved, bad, failed, orc_fail, lambda i: replays[i],
              "Model/Summary.v vs sutils.py, c_paretofront.c, boxplot.py, violinplot.py")
    return ctx.finish()
