"""C17 - AR simulation and residual are exact inverses."""
import math

import numpy as np

from harness import common as cm

PID = "C17"
HEADER = "From Coq Require Import ZArith List PrimFloat.\nFrom Hy Require Import Base.Num Model.Armodel."


def gen_case(rng, i, thorough):
    kind = rng.choice([0, 1])
    r = rng.random()
    if r < 0.06:
        order = rng.choice([0, 11, 12])
    else:
        order = rng.randint(1, 10)
    # coefficients of any sign with sum |phi| <= 1.5
    raw = [rng.uniform(-1, 1) for _ in range(order)]
    s = sum(abs(x) for x in raw) or 1.0
    tot = rng.choice([0.3, 0.9, 1.0, 1.5]) * rng.random() ** 0.3
    params = [x / s * tot for x in raw]
    if rng.random() < 0.25:  # dyadic coefficients (exact arithmetic)
        params = [round(p * 8) / 8 for p in params]
    if order >= 2 and rng.random() < 0.2:  # exactly-zero coefficients at some lags
        for j in range(order):
            if rng.random() < 0.4:
                params[j] = 0.0
    maxlen = 400 if thorough else 60
    n = rng.choice([0, 1, 2, 3, rng.randint(0, maxlen)])
    scale = rng.choice([1.0, 1e-3, 1e3, 1e6])
    series = [rng.gauss(0, 1) * scale for _ in range(n)]
    if rng.random() < 0.3:
        series = [float(round(x)) for x in series]
    nanmode = rng.random()
    if nanmode < 0.35 and n > 0:
        k = rng.randint(1, max(1, n // 3))
        for _ in range(k):
            series[rng.randrange(n)] = float("nan")
        if rng.random() < 0.5:  # NaN within the first `order` steps
            for j in range(min(n, max(1, order))):
                if rng.random() < 0.5:
                    series[j] = float("nan")
    mean = rng.choice([0.0, rng.gauss(0, 3) * scale, -2.5 * scale])
    ini_default = rng.random() < 0.3
    # explicit initial values include exactly 0 / -0 (falsy in Python) and the mean itself
    ini = mean if ini_default else rng.choice([rng.gauss(0, 3) * scale, rng.gauss(0, 3) * scale,
                                                0.0, -0.0, mean])
    mean_default = rng.random() < 0.2
    bad = rng.random()
    if bad < 0.03 and order > 0:
        params[rng.randrange(order)] = float("nan")
    elif bad < 0.05:
        mean = float("nan")
        mean_default = False
    elif bad < 0.07:
        ini = float("nan")
        ini_default = False
    return dict(kind=kind, params=params, series=series, mean=mean, ini=ini,
                mean_default=mean_default, ini_default=ini_default)


def run_impl(case):
    """Call the public API; returns (effective mean, effective ini, output or None)."""
    from hydrodiy.stat import armodels
    params = np.array(case["params"], dtype=np.float64)
    series = np.array(case["series"], dtype=np.float64)
    kw = {}
    mean, ini = case["mean"], case["ini"]
    if case["kind"] == 0:
        if case["mean_default"]:
            mean = 0.0
        else:
            kw["sim_mean"] = mean
        if case["ini_default"]:
            ini = mean
        else:
            kw["sim_ini"] = ini
        fn = armodels.armodel_sim
    else:
        if case["mean_default"]:
            with np.errstate(all="ignore"):
                mean = float(np.nanmean(series)) if len(series) else float("nan")
        else:
            kw["sim_mean"] = mean
        if case["ini_default"]:
            ini = mean
        else:
            kw["sim_ini"] = ini
        fn = armodels.armodel_residual
    try:
        with np.errstate(all="ignore"):
            out = fn(params, series, **kw)
        out = [float(x) for x in np.atleast_1d(out)]
    except ValueError:
        out = None
    return mean, ini, out


def term(case, mean, ini, out):
    exp = cm.coq_option(out, cm.coq_flist)
    return ("{| ar_kind := %s; ar_mean := %s; ar_ini := %s; ar_params := %s; "
            "ar_series := %s; ar_expect := %s |}") % (
        cm.coq_z(case["kind"]), cm.coq_float(mean), cm.coq_float(ini),
        cm.coq_flist(case["params"]), cm.coq_flist(case["series"]), exp)


def _tol(vals):
    fin = [abs(v) for v in vals if math.isfinite(v)]
    return 1e-8 * max([1.0] + fin)


def oracle(case, mean, ini, out):
    """Independent check of the property's statement on the implementation.
    Returns a list of (key, what) failures."""
    from hydrodiy.stat import armodels
    fails = []
    params, series = case["params"], case["series"]
    order = len(params)
    bad_input = (order < 1 or order > 10 or any(math.isnan(p) for p in params)
                 or math.isnan(mean) or math.isnan(ini))
    if bad_input:
        if out is not None:
            fails.append(("C17/reject/accepted-bad-parameters",
                          f"order={order} or NaN parameter/mean/ini accepted without error"))
        return fails
    if out is None:
        fails.append(("C17/reject/valid-input-rejected", f"order={order} valid input raised"))
        return fails
    if len(out) != len(series):
        fails.append(("C17/shape", "output length differs from input length"))
        return fails
    if any(math.isinf(v) or abs(v) > 1e150 for v in out):
        return fails  # explosive behaviour: outside the stated conditioning
    p = np.array(params)
    if case["kind"] == 0:
        e0 = [0.0 if math.isnan(e) else e for e in series]
        # recursion (fsum, independent of the kernel's order of operations)
        hist = []
        tol = _tol(out + e0 + [mean, ini])
        for t, e in enumerate(e0):
            lags = [(hist[-1 - k] if k < len(hist) else ini) - mean for k in range(order)]
            want = math.fsum([params[k] * lags[k] for k in range(order)] + [e, mean])
            if any(math.isnan(v) for v in [out[t]]) or abs(out[t] - want) > tol * (1 + order):
                fails.append(("C17/sim/recursion",
                              f"sim[{t}]={out[t]!r} but the recursion gives {want!r}"))
                break
            hist.append(out[t])
        # inverse: residual(sim(e)) = e0
        try:
            back = armodels.armodel_residual(p, np.array(out), sim_mean=mean, sim_ini=ini)
            if not np.allclose(back, e0, rtol=0, atol=tol * (1 + order) * 10):
                j = int(np.argmax(np.abs(np.array(back) - np.array(e0))))
                fails.append(("C17/inverse/residual-of-sim",
                              f"residual(sim(e))[{j}]={back[j]!r} != e[{j}]={e0[j]!r}"))
        except ValueError:
            fails.append(("C17/inverse/residual-of-sim", "residual raised on sim output"))
    else:
        nanpos = [t for t, x in enumerate(series) if math.isnan(x)]
        tol = _tol(out + [x for x in series if not math.isnan(x)] + [mean, ini])
        for t in nanpos:
            if not abs(out[t]) <= tol * (1 + order):
                fails.append(("C17/residual/missing-input-nonzero",
                              f"residual[{t}]={out[t]!r} for a missing input"))
                break
        # sim(residual(y)) re-runs the recursion on rounded residuals: a perturbation is
        # amplified by at most (sum|phi|)^n; the numerical test is only meaningful while that
        # factor is moderate (the exact law is the theorem C17_sim_of_residual; the kernels
        # are compared bit-exactly with the model in any case)
        sabs = sum(abs(q) for q in params)
        amp = max(1.0, sabs) ** len(series)
        if not nanpos and amp <= 1e4:
            tol = tol * amp
            try:
                back = armodels.armodel_sim(p, np.array(out), sim_mean=mean, sim_ini=ini)
                if not np.allclose(back, series, rtol=0, atol=tol * (1 + order) * 10):
                    j = int(np.argmax(np.abs(np.array(back) - np.array(series))))
                    fails.append(("C17/inverse/sim-of-residual",
                                  f"sim(residual(y))[{j}]={back[j]!r} != y[{j}]={series[j]!r}"))
            except ValueError:
                fails.append(("C17/inverse/sim-of-residual", "sim raised on residual output"))
    return fails


def run(ctx):
    ctx.rule = ("cases drawn from one PRNG: kind sim/residual x order 0..12 x coefficients of "
                "any sign (sum|phi|<=1.5, 25% dyadic) x length 0..60 (400 thorough) x NaN placement "
                "x default/explicit mean and initial value x NaN parameters; non-trivial = distinct "
                "(kind, order, length class, has NaN, error) signature")
    ctx.trusted = cm.STD_TRUST + [
        "default sim_mean of armodel_residual (numpy.nanmean) is computed by the harness, not the model"]
    ctx.tested_not_proved = [
        "floating-point accuracy of the inverse laws (1e-8*scale) - tested on the implementation",
        "Python wrapper glue (atleast_1d/astype/reshape, default mean and initial value)"]
    # theorems (incl. refinement of the regenerated MiniC program) + translator/interpreter
    # vs the compiled kernels (binary64, inside Coq)
    proved = cm.prove_with_kernels(ctx, ["c_armodel_sim", "c_armodel_residual"], extractors=[])
    cm.use_impl()
    n = ctx.scale(900, 12000)
    cases, terms, results = [], [], []
    corpus = cm.load_corpus(PID)
    for i in range(n + len(corpus)):
        case = corpus[i] if i < len(corpus) else gen_case(ctx.rng, i, ctx.thorough)
        if len(case["params"]) > 10:
            cm.mark({"call": "armodels.armodel_sim/residual", "case": case})
        mean, ini, out = run_impl(case)
        cases.append(case)
        results.append((mean, ini, out))
        terms.append(term(case, mean, ini, out))
        sig = (case["kind"], len(case["params"]), min(len(case["series"]), 4),
               any(math.isnan(x) for x in case["series"]), out is None)
        ctx.count(sig)
        if i % 150 == 0:
            ctx.sample({"kind": "sim" if case["kind"] == 0 else "residual",
                        "params": case["params"], "mean": mean, "ini": ini,
                        "series": case["series"][:8], "output": None if out is None else out[:8]})
    bad, nshards, failed = cm.run_case_files(PID, HEADER, "arcase", "ar_ok", terms)
    ctx.notes["correspondence_cases"] = len(terms)
    ctx.notes["correspondence_mismatches"] = len(bad)
    for k in range(nshards):
        ctx.obligation(f"Cases_{PID}_{k}.agree (model = implementation on the shard)", True)
    # oracle on every case
    orc_fail_idx = set()
    for i, (case, (mean, ini, out)) in enumerate(zip(cases, results)):
        for key, what in oracle(case, mean, ini, out):
            orc_fail_idx.add(i)
            ctx.failure(key, {"case": case, "mean": mean, "ini": ini, "output": out}, what)
    cm.settle(ctx, proved, bad, failed, orc_fail_idx,
              lambda i: {"case": cases[i], "impl_output": results[i][2],
                         "model": "Hy.Model.Armodel.ar_ok"},
              "Model/Armodel.v vs c_armodels.c + armodels.py")
    return ctx.finish()
