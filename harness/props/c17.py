"""C17 - AR simulation and residual are exact inverses.

Two input classes besides the values themselves (both inside the property's quantifier:
the property speaks of coefficient vectors, series, means and initial values as VALUES):

* stored representation (REPS_*): the same values handed over as float64 / float32 /
  integer / bool / object / big-endian / unaligned arrays, strided, reversed, column, row,
  offset and read-only views, 0-d arrays, numpy and Python scalars, lists, tuples, pandas
  Series under any index.  Every such case goes through the same correspondence (Coq model
  on the values) and the same oracle as the canonical float64 C-contiguous case.
* operation sequences (sessions): a pool of coefficient / series arrays used by several
  calls, rewritten in place between calls, passed twice to one call, results fed straight
  into the inverse function; every result must satisfy the oracle for the values its
  arguments had at the time of the call - at return and after every later operation.
"""
import math

import numpy as np

from harness import common as cm

PID = "C17"
HEADER = "From Coq Require Import ZArith List PrimFloat.\nFrom Hy Require Import Base.Num Model.Armodel."


def gen_case(rng, i, thorough):
    kind = rng.choice([0, 1])
    r = rng.random()
    if r < 0.06:
        order = rng.choice([0, 11, 12])
    else:
        order = rng.randint(1, 10)
    # coefficients of any sign with sum |phi| <= 1.5
    raw = [rng.uniform(-1, 1) for _ in range(order)]
    s = sum(abs(x) for x in raw) or 1.0
    tot = rng.choice([0.3, 0.9, 1.0, 1.5]) * rng.random() ** 0.3
    params = [x / s * tot for x in raw]
    if rng.random() < 0.25:  # dyadic coefficients (exact arithmetic)
        params = [round(p * 8) / 8 for p in params]
    if order >= 2 and rng.random() < 0.2:  # exactly-zero coefficients at some lags
        for j in range(order):
            if rng.random() < 0.4:
                params[j] = 0.0
    maxlen = 400 if thorough else 60
    n = rng.choice([0, 1, 2, 3, rng.randint(0, maxlen)])
    scale = rng.choice([1.0, 1e-3, 1e3, 1e6])
    series = [rng.gauss(0, 1) * scale for _ in range(n)]
    if rng.random() < 0.3:
        series = [float(round(x)) for x in series]
    nanmode = rng.random()
    if nanmode < 0.35 and n > 0:
        k = rng.randint(1, max(1, n // 3))
        for _ in range(k):
            series[rng.randrange(n)] = float("nan")
        if rng.random() < 0.5:  # NaN within the first `order` steps
            for j in range(min(n, max(1, order))):
                if rng.random() < 0.5:
                    series[j] = float("nan")
    mean = rng.choice([0.0, rng.gauss(0, 3) * scale, -2.5 * scale])
    ini_default = rng.random() < 0.3
    # explicit initial values include exactly 0 / -0 (falsy in Python) and the mean itself
    ini = mean if ini_default else rng.choice([rng.gauss(0, 3) * scale, rng.gauss(0, 3) * scale,
                                                0.0, -0.0, mean])
    mean_default = rng.random() < 0.2
    bad = rng.random()
    if bad < 0.03 and order > 0:
        params[rng.randrange(order)] = float("nan")
    elif bad < 0.05:
        mean = float("nan")
        mean_default = False
    elif bad < 0.07:
        ini = float("nan")
        ini_default = False
    case = dict(kind=kind, params=params, series=series, mean=mean, ini=ini,
                mean_default=mean_default, ini_default=ini_default)
    if rng.random() < 0.5:
        draw_rep(rng, case)
    return case


# ------------------------------------------------------------------ stored representations
# documented argument types (armodels.py docstrings): series = numpy.ndarray, params = float or
# numpy.ndarray, sim_mean / sim_ini = float.  The other ones (lists, tuples, pandas Series, numpy
# scalars in the place of an array, 0-d arrays in the place of a float) work in the pinned code;
# the property does not promise that they are accepted, so a TypeError / AttributeError on them is
# not reported - but when they are accepted the result must be the property's result.
REPS_ARRAY = ["f32", "i64", "i32", "bool", "obj", "be", "unaligned", "strided", "neg", "negstrided",
              "offset", "col", "fcol", "row", "ro", "ro_strided", "0d", "0d_f32"]
REPS_SERIES_UNDOC = ["npscalar", "pd:range", "pd:dates", "pd:tz", "pd:text", "pd:shuffled", "pd:dup",
                     "pd:float", "pd:f32"]
REPS_PARAMS_UNDOC = ["list", "tuple", "pd:text", "pd:shuffled", "0d", "int"]
REPS_SCALAR = ["f64", "f32", "int", "i64", "0d"]
# dtypes whose numpy.nanmean is not the float64 mean of the values (default sim_mean of residual)
_NOT_F64_MEAN = ("f32", "i64", "i32", "bool", "obj", "be", "0d_f32", "pd:f32")
FILL = (1e300, float("nan"), -7.5e5)


def _f32(x):
    with np.errstate(all="ignore"):
        return float(np.float32(x))


def draw_rep(rng, case):
    """Choose a stored representation for each argument and make the VALUES of the case exactly
    representable in it (the case keeps the values as Python floats: they are what the model and
    the oracle see)."""
    rep = {}
    n, order = len(case["series"]), len(case["params"])
    # --- series
    r = rng.random()
    if r < 0.75:
        cand = [x for x in REPS_ARRAY if n == 1 or not x.startswith("0d")]
        sr = rng.choice(cand)
    elif r < 0.95:
        cand = [x for x in REPS_SERIES_UNDOC if n == 1 or x != "npscalar"]
        sr = rng.choice(cand)
    else:
        sr = "c64"
    ser = case["series"]
    if sr in ("f32", "0d_f32", "pd:f32"):
        ser = [_f32(x) for x in ser]
    elif sr in ("i64", "i32"):
        ser = [0.0 if math.isnan(x) else float(max(-2e9, min(2e9, round(x)))) for x in ser]
    elif sr == "bool":
        ser = [0.0 if math.isnan(x) else float(x > 0) for x in ser]
    case["series"] = ser
    rep["series"] = sr
    if sr in _NOT_F64_MEAN and case["kind"] == 1 and case["mean_default"]:
        case["mean_default"] = False       # generator restriction (see notes in run())
    # --- params
    r = rng.random()
    pr = "c64"
    if r < 0.45:
        cand = [x for x in REPS_ARRAY if x not in ("bool", "0d_f32", "i32") and (order == 1 or x != "0d")]
        if order == 1:
            cand += ["float", "npfloat", "float", "npfloat"]
        pr = rng.choice(cand)
    elif r < 0.6:
        pr = rng.choice([x for x in REPS_PARAMS_UNDOC if order == 1 or x not in ("0d", "int")])
    par = case["params"]
    if pr == "f32":
        par = [_f32(x) for x in par]
    elif pr in ("i64", "int"):
        # integer coefficients with sum |phi| <= 1.5: at most one +-1
        if not any(math.isnan(x) for x in par) and order > 0:
            j = rng.randrange(order)
            par = [0.0] * order
            par[j] = rng.choice([1.0, -1.0, 0.0])
        else:
            pr = "c64"
    case["params"] = par
    rep["params"] = pr
    # --- mean, initial value
    for name in ("mean", "ini"):
        v = case[name]
        q = "float"
        if rng.random() < 0.4 and not math.isnan(v):
            q = rng.choice(REPS_SCALAR)
            if q == "f32":
                v = _f32(v)
            elif q in ("int", "i64"):
                v = float(round(max(-1e15, min(1e15, v))))
            if math.isinf(v):
                q, v = "float", case[name]
        case[name] = v
        rep[name] = q
    if case["ini_default"]:
        case["ini"] = case["mean"]
    case["rep"] = rep
    return case


def _filled(shape):
    big = np.empty(shape, dtype=np.float64)
    flat = big.reshape(-1)
    for k, f in enumerate(FILL):
        flat[k::len(FILL)] = f
    return big


def build_array(vals, rep):
    """the values `vals` (Python floats) as an object of stored representation `rep`"""
    a = np.array(vals, dtype=np.float64)
    n = len(vals)
    if rep == "c64":
        return a
    if rep == "f32":
        return a.astype(np.float32)
    if rep == "i64":
        return a.astype(np.int64)
    if rep == "i32":
        return a.astype(np.int32)
    if rep == "bool":
        return a.astype(bool)
    if rep == "obj":
        return np.array([float(x) for x in vals], dtype=object).reshape(n)
    if rep == "be":
        return a.astype(">f8")
    if rep == "unaligned":
        raw = np.zeros(8 * n + 1, dtype=np.uint8)
        v = raw[1:].view(np.float64)
        v[:] = a
        return v
    if rep in ("strided", "ro_strided"):
        v = _filled(3 * n + 2)[1::3][:n]
        v[:] = a
        if rep == "ro_strided":
            v.flags.writeable = False
        return v
    if rep == "neg":
        return a[::-1].copy()[::-1]
    if rep == "negstrided":
        v = _filled(2 * n + 1)[::-2][:n]
        v[:] = a
        return v
    if rep == "offset":
        v = _filled(n + 5)[3:3 + n]
        v[:] = a
        return v
    if rep == "col":
        v = _filled((n, 3))[:, 1]
        v[:] = a
        return v
    if rep == "fcol":
        v = np.asfortranarray(_filled((n, 3)))[:, 1]
        v[:] = a
        return v
    if rep == "row":
        v = _filled((3, n))[1]
        v[:] = a
        return v
    if rep == "ro":
        a.flags.writeable = False
        return a
    if rep == "0d":
        return np.array(vals[0], dtype=np.float64)
    if rep == "0d_f32":
        return np.array(vals[0], dtype=np.float32)
    if rep == "npscalar":
        return np.float64(vals[0])
    if rep == "npfloat":
        return np.float64(vals[0])
    if rep == "float":
        return float(vals[0])
    if rep == "int":
        return int(vals[0])
    if rep == "list":
        return [float(x) for x in vals]
    if rep == "tuple":
        return tuple(float(x) for x in vals)
    if rep.startswith("pd:"):
        import pandas as pd
        kind = rep[3:]
        if kind == "f32":
            return pd.Series(a.astype(np.float32))
        if kind == "range":
            idx = None
        elif kind == "dates":
            idx = pd.date_range("2001-03-01", periods=n, freq="D")[::-1]
        elif kind == "tz":
            idx = pd.date_range("2001-03-01", periods=n, freq="h", tz="Australia/Sydney", unit="s")
        elif kind == "text":
            idx = [f"k{(7 * i) % 5}" for i in range(n)]
        elif kind == "shuffled":
            idx = [(i * 7 + 3) % max(n, 1) if math.gcd(7, max(n, 1)) == 1 else n - 1 - i for i in range(n)]
        elif kind == "dup":
            idx = [i // 3 for i in range(n)][::-1]
        else:
            idx = [0.5 * (n - i) for i in range(n)]
        return pd.Series(a, index=idx)
    raise KeyError(rep)


def build_scalar(v, rep):
    if rep == "float":
        return float(v)
    if rep == "f64":
        return np.float64(v)
    if rep == "f32":
        return np.float32(v)
    if rep == "int":
        return int(v)
    if rep == "i64":
        return np.int64(int(v))
    if rep == "0d":
        return np.array(v, dtype=np.float64)
    raise KeyError(rep)


def uses_undocumented(case):
    rep = case.get("rep") or {}
    return (rep.get("series") in REPS_SERIES_UNDOC or rep.get("params") in REPS_PARAMS_UNDOC
            or rep.get("mean") == "0d" or rep.get("ini") == "0d")


class Unsupported(Exception):
    """an undocumented argument type was refused with TypeError / AttributeError"""


def build_args(case):
    """the arguments of the call in the stored representation of the case:
    (params object, series object, explicit mean or None, explicit ini or None)"""
    rep = case.get("rep") or {}
    params = build_array(case["params"], rep.get("params", "c64"))
    series = build_array(case["series"], rep.get("series", "c64"))
    mean = None if case["mean_default"] else build_scalar(case["mean"], rep.get("mean", "float"))
    ini = None if case["ini_default"] else build_scalar(case["ini"], rep.get("ini", "float"))
    return params, series, mean, ini


def call_impl(kind, params, series, mean_arg, ini_arg):
    """One call of the public API on the given objects (None = argument left to its default).
    Returns (effective mean, effective ini, output list or None, exception text or None, returned
    object); the effective values are those the docstrings define for the defaults."""
    from hydrodiy.stat import armodels
    kw = {}
    if kind == 0:
        if mean_arg is None:
            mean = 0.0
        else:
            kw["sim_mean"] = mean_arg
            mean = float(mean_arg)
        fn = armodels.armodel_sim
    else:
        if mean_arg is None:
            with np.errstate(all="ignore"):
                # the same expression on the same object as the docstring ("mean(inputs)")
                mean = float(np.nanmean(series)) if np.size(series) else float("nan")
        else:
            kw["sim_mean"] = mean_arg
            mean = float(mean_arg)
        fn = armodels.armodel_residual
    if ini_arg is None:
        ini = mean
    else:
        kw["sim_ini"] = ini_arg
        ini = float(ini_arg)
    exc = None
    res = None
    try:
        with np.errstate(all="ignore"):
            res = fn(params, series, **kw)
        out = [float(x) for x in np.asarray(res).reshape(-1)]
    except Exception as e:      # noqa: BLE001 - ValueError = the property's rejection; any other
        out, exc = None, repr(e)[:200]      # exception is judged by the caller / the oracle as a rejection too
    return mean, ini, out, exc, res


def run_impl(case):
    """Call the public API; returns (effective mean, effective ini, output or None)."""
    import warnings
    params, series, mean_arg, ini_arg = build_args(case)
    with warnings.catch_warnings():
        warnings.simplefilter("ignore")
        mean, ini, out, exc, _ = call_impl(case["kind"], params, series, mean_arg, ini_arg)
    if exc is not None:
        if uses_undocumented(case) and exc.startswith(("TypeError", "AttributeError")):
            raise Unsupported(exc)
        case["exception"] = exc
    return mean, ini, out


def term(case, mean, ini, out):
    exp = cm.coq_option(out, cm.coq_flist)
    return ("{| ar_kind := %s; ar_mean := %s; ar_ini := %s; ar_params := %s; "
            "ar_series := %s; ar_expect := %s |}") % (
        cm.coq_z(case["kind"]), cm.coq_float(mean), cm.coq_float(ini),
        cm.coq_flist(case["params"]), cm.coq_flist(case["series"]), exp)


def _tol(vals):
    fin = [abs(v) for v in vals if math.isfinite(v)]
    return 1e-8 * max([1.0] + fin)


def oracle(case, mean, ini, out):
    """Independent check of the property's statement on the implementation.
    Returns a list of (key, what) failures."""
    from hydrodiy.stat import armodels
    fails = []
    params, series = case["params"], case["series"]
    order = len(params)
    bad_input = (order < 1 or order > 10 or any(math.isnan(p) for p in params)
                 or math.isnan(mean) or math.isnan(ini))
    if bad_input:
        if out is not None:
            fails.append(("C17/reject/accepted-bad-parameters",
                          f"order={order} or NaN parameter/mean/ini accepted without error"))
        return fails
    if out is None:
        fails.append(("C17/reject/valid-input-rejected",
                      f"order={order} valid input raised {case.get('exception', 'ValueError')}"
                      + (f" (stored representation {case['rep']})" if case.get("rep") else "")))
        return fails
    if len(out) != len(series):
        fails.append(("C17/shape", "output length differs from input length"))
        return fails
    if any(math.isinf(v) or abs(v) > 1e150 for v in out):
        return fails  # explosive behaviour: outside the stated conditioning
    p = np.array(params)
    if case["kind"] == 0:
        e0 = [0.0 if math.isnan(e) else e for e in series]
        # recursion (fsum, independent of the kernel's order of operations)
        hist = []
        tol = _tol(out + e0 + [mean, ini])
        for t, e in enumerate(e0):
            lags = [(hist[-1 - k] if k < len(hist) else ini) - mean for k in range(order)]
            want = math.fsum([params[k] * lags[k] for k in range(order)] + [e, mean])
            if any(math.isnan(v) for v in [out[t]]) or abs(out[t] - want) > tol * (1 + order):
                fails.append(("C17/sim/recursion",
                              f"sim[{t}]={out[t]!r} but the recursion gives {want!r}"))
                break
            hist.append(out[t])
        # inverse: residual(sim(e)) = e0
        try:
            back = armodels.armodel_residual(p, np.array(out), sim_mean=mean, sim_ini=ini)
            if not np.allclose(back, e0, rtol=0, atol=tol * (1 + order) * 10):
                j = int(np.argmax(np.abs(np.array(back) - np.array(e0))))
                fails.append(("C17/inverse/residual-of-sim",
                              f"residual(sim(e))[{j}]={back[j]!r} != e[{j}]={e0[j]!r}"))
        except ValueError:
            fails.append(("C17/inverse/residual-of-sim", "residual raised on sim output"))
    else:
        nanpos = [t for t, x in enumerate(series) if math.isnan(x)]
        tol = _tol(out + [x for x in series if not math.isnan(x)] + [mean, ini])
        if not nanpos:
            # the innovations of the recursion that produces y (its unique solution in e):
            # e[t] = (y[t]-m) - sum_k phi[k]*(y[t-k]-m), y[t-k] = ini before the start
            for t, y in enumerate(series):
                lags = [(series[t - 1 - k] if t - 1 - k >= 0 else ini) - mean for k in range(order)]
                want = math.fsum([y, -mean] + [-params[k] * lags[k] for k in range(order)])
                if math.isnan(out[t]) or abs(out[t] - want) > tol * (1 + order):
                    fails.append(("C17/residual/recursion",
                                  f"residual[{t}]={out[t]!r} but the recursion gives {want!r}"))
                    break
        for t in nanpos:
            if not abs(out[t]) <= tol * (1 + order):
                fails.append(("C17/residual/missing-input-nonzero",
                              f"residual[{t}]={out[t]!r} for a missing input"))
                break
        # sim(residual(y)) re-runs the recursion on rounded residuals: a perturbation is
        # amplified by at most (sum|phi|)^n; the numerical test is only meaningful while that
        # factor is moderate (the exact law is the theorem C17_sim_of_residual; the kernels
        # are compared bit-exactly with the model in any case)
        sabs = sum(abs(q) for q in params)
        amp = math.exp(min(700.0, len(series) * math.log(max(1.0, sabs)))) if math.isfinite(sabs) else math.inf
        if not nanpos and amp <= 1e4:
            tol = tol * amp
            try:
                back = armodels.armodel_sim(p, np.array(out), sim_mean=mean, sim_ini=ini)
                if not np.allclose(back, series, rtol=0, atol=tol * (1 + order) * 10):
                    j = int(np.argmax(np.abs(np.array(back) - np.array(series))))
                    fails.append(("C17/inverse/sim-of-residual",
                                  f"sim(residual(y))[{j}]={back[j]!r} != y[{j}]={series[j]!r}"))
            except ValueError:
                fails.append(("C17/inverse/sim-of-residual", "sim raised on residual output"))
    return fails


# ------------------------------------------------------------------ operation sequences
def _bits(xs):
    return [None if x is None else (float(x).hex() if not math.isnan(x) else "nan") for x in xs]


def _draw_params(rng, order):
    raw = [rng.uniform(-1, 1) for _ in range(order)]
    s = sum(abs(x) for x in raw) or 1.0
    tot = rng.choice([0.3, 0.9, 1.0, 1.2]) * rng.random() ** 0.3
    par = [x / s * tot for x in raw]
    if rng.random() < 0.3:
        par = [round(q * 8) / 8 for q in par]
    return par


def _draw_series(rng, n, scale):
    ser = [rng.gauss(0, 1) * scale for _ in range(n)]
    if rng.random() < 0.3:
        ser = [float(round(x)) for x in ser]
    if n and rng.random() < 0.2:
        for _ in range(rng.randint(1, max(1, n // 4))):
            ser[rng.randrange(n)] = float("nan")
    return ser


def session(ctx, rng, sid):
    """One pool of arrays, a sequence of operations.  Returns True when a failure was reported."""
    import warnings
    scale = rng.choice([1.0, 1.0, 1e3])
    lens = [rng.choice([1, 2, 3, 5, 8, rng.randint(4, 30)]) for _ in range(2)]
    pool, initial, layouts = {}, {}, {}
    pnames, snames = [], []
    for k in range(rng.randint(2, 3)):
        order = rng.choice([rng.randint(1, 10), lens[k % 2] if lens[k % 2] <= 10 else 2])
        pool[f"P{k}"] = np.array(_draw_params(rng, order))
        pnames.append(f"P{k}")
    for k in range(rng.randint(3, 4)):
        lay = rng.choice(["c64", "c64", "c64", "offset", "row", "fcol", "strided", "neg"])
        pool[f"S{k}"] = build_array(_draw_series(rng, lens[k % 2], scale), lay)
        layouts[f"S{k}"] = lay
        snames.append(f"S{k}")
    for k, v in pool.items():
        initial[k] = v.tolist()
    history, entries = [], []
    reported = False
    nres = 0

    def fail(key, entry, what, extra=None):
        nonlocal reported
        reported = True
        rep = {"session": sid, "pool_at_start": initial, "pool_layouts (others: float64 C-contiguous)": layouts,
               "history": history,
               "failing_call": entry["step"], "case_at_time_of_call": entry["case"],
               "mean": entry["mean"], "ini": entry["ini"], "output_at_return": entry["out"]}
        rep.update(extra or {})
        ctx.failure(key, rep, what)

    def recheck(after):
        for en in entries:
            if not en["alive"]:
                continue
            live = [float(x) for x in np.asarray(pool[en["res"]]).reshape(-1)]
            if _bits(live) == _bits(en["out"]):
                continue
            en["alive"] = False
            with warnings.catch_warnings():
                warnings.simplefilter("ignore")
                fl = oracle(en["case"], en["mean"], en["ini"], live)
            for key, what in fl:
                fail(key + "/after-later-operations", en,
                     f"session {sid}: result {en['res']} of step {en['step']} ({en['call']}) now reads "
                     f"{live[:6]!r} after step {after} ({history[-1]['op']}"
                     f"{' ' + history[-1].get('target', '') if history[-1]['op'] == 'write' else ''}), it was "
                     f"{en['out'][:6]!r} at return: {what}", {"output_now": live})

    nsteps = rng.randint(8, 16)
    for step in range(nsteps):
        r = rng.random()
        alive = [en for en in entries if en["alive"] and en["out"] is not None]
        used = [x for en in entries for x in (en["pname"], en["sname"]) if x in pool]
        if r < 0.28 and step > 0:
            # ---- the caller rewrites one of its arrays in place (mostly one that a call has used)
            name = rng.choice(used if used and rng.random() < 0.7 else
                              pnames + snames + [en["res"] for en in alive])
            arr = pool[name]
            n = arr.shape[0]
            how = rng.choice(["all", "all", "one", "scale"]) if n else "all"
            if how == "all":
                new = _draw_params(rng, n) if name in pnames else _draw_series(rng, n, scale)
                arr[:] = new
            elif how == "one":
                j = rng.randrange(n)
                if name in pnames:
                    room = 1.5 - (sum(abs(x) for x in arr.tolist() if not math.isnan(x)) - abs(arr[j]))
                    arr[j] = rng.uniform(-1, 1) * max(0.0, min(room, 0.5))
                else:
                    arr[j] = rng.choice([rng.gauss(0, 1) * scale, 0.0, float("nan")])
            else:
                arr *= 0.5
            history.append({"op": "write", "target": name, "how": how, "values_after": arr.tolist()})
            for en in entries:
                if en["res"] == name:
                    en["alive"] = False      # the caller overwrote this result itself
            recheck(step)
            continue
        # ---- a call on pool objects
        kind = rng.choice([0, 1])
        chain = None
        r = rng.random()
        if alive and r < 0.3:
            # the result object of an earlier call straight into the inverse function
            chain = rng.choice(alive)
            kind = 1 - chain["case"]["kind"]
            pname, sname = chain["pname"], chain["res"]
            mean_arg, ini_arg = chain["mean"], chain["ini"]
        elif entries and r < 0.6:
            # an earlier call once more: same objects (whatever they hold now), same arguments
            prev = rng.choice([en for en in entries if en["sname"] in pool])
            kind, pname, sname = prev["case"]["kind"], prev["pname"], prev["sname"]
            mean_arg, ini_arg = prev["mean_arg"], prev["ini_arg"]
        else:
            pname = rng.choice(pnames)
            sname = rng.choice(snames + [en["res"] for en in alive])
            if rng.random() < 0.12:
                sname = pname            # the same object as coefficients and as series
            mean_arg = None if rng.random() < 0.4 else rng.choice([0.0, rng.gauss(0, 2) * scale])
            ini_arg = None if rng.random() < 0.4 else rng.choice([0.0, rng.gauss(0, 2) * scale, mean_arg or 0.0])
        params, series = pool[pname], pool[sname]
        case = dict(kind=kind, params=params.tolist(), series=np.asarray(series, dtype=np.float64).reshape(-1).tolist(),
                    mean=mean_arg, ini=ini_arg, mean_default=mean_arg is None, ini_default=ini_arg is None)
        call = (f"armodel_{'sim' if kind == 0 else 'residual'}({pname}, {sname}, sim_mean={mean_arg!r}, "
                f"sim_ini={ini_arg!r})")
        cm.mark({"call": call, "session": sid, "case": case})
        with warnings.catch_warnings():
            warnings.simplefilter("ignore")
            mean, ini, out, exc, res = call_impl(kind, params, series, mean_arg, ini_arg)
        if exc is not None:
            case["exception"] = exc
        rname = f"R{nres}"
        nres += 1
        history.append({"op": "call", "call": call, "result": rname, "params_values": case["params"],
                        "series_values": case["series"], "output": out})
        en = dict(step=step, call=call, case=case, mean=mean, ini=ini, out=out, res=rname, pname=pname,
                  sname=sname, mean_arg=mean_arg, ini_arg=ini_arg,
                  alive=out is not None and isinstance(res, np.ndarray) and res.ndim == 1)
        if en["alive"]:
            pool[rname] = res
        entries.append(en)
        ctx.count(("session", kind, min(len(case["params"]), 3), min(len(case["series"]), 4),
                   chain is not None, sname == pname, sname.startswith("R"), out is None))
        with warnings.catch_warnings():
            warnings.simplefilter("ignore")
            fl = oracle(case, mean, ini, out)
        for key, what in fl:
            fail(key, en, f"session {sid} step {step}: {call} with {pname}={case['params']!r}, "
                          f"{sname}={case['series'][:8]!r}: {what}")
        recheck(step)
    return reported


def sessions(ctx):
    n = ctx.scale(60, 600)
    nfail = 0
    for sid in range(n):
        if session(ctx, ctx.rng, sid):
            nfail += 1
    ctx.notes["sessions"] = n
    ctx.notes["sessions_with_failures"] = nfail
    return nfail


def run(ctx):
    ctx.rule = ("cases drawn from one PRNG: kind sim/residual x order 0..12 x coefficients of "
                "any sign (sum|phi|<=1.5, 25% dyadic) x length 0..60 (400 thorough) x NaN placement "
                "x default/explicit mean and initial value x NaN parameters x (half of the cases) stored "
                "representation of the series / coefficients / mean / initial value (float32, int64/32, bool, "
                "object, big-endian, unaligned, strided / reversed / column / row / offset / read-only views, "
                "0-d arrays, numpy and Python scalars, lists, tuples, pandas Series under range / date / tz / "
                "text / shuffled / duplicate / float index) with values exactly representable in it; "
                "sessions: a pool of coefficient / series arrays x 8..16 operations (call on pool objects "
                "incl. the same object as coefficients and series, result object of an earlier call fed to "
                "the inverse function, an earlier call repeated on the same objects, in-place rewrite of a pool "
                "array) with the oracle on every result at return and after every later operation; "
                "non-trivial = distinct (kind, order, length class, has NaN, error) signature, distinct (kind, "
                "representation, error) and distinct session-call signature")
    ctx.trusted = cm.STD_TRUST + [
        "default sim_mean of armodel_residual (numpy.nanmean) is computed by the harness, not the model"]
    ctx.tested_not_proved = [
        "floating-point accuracy of the inverse laws (1e-8*scale) - tested on the implementation",
        "Python wrapper glue (atleast_1d/astype/reshape, default mean and initial value)",
        "independence of the stored representation of the arguments and of the history of calls "
        "(generated representations and sessions; generator restriction: the default sim_mean of "
        "armodel_residual is only drawn for float64 series, numpy.nanmean of a float32 / integer / "
        "object series being computed in another arithmetic)"]
    # theorems (incl. refinement of the regenerated MiniC program) + translator/interpreter
    # vs the compiled kernels (binary64, inside Coq)
    proved = cm.prove_with_kernels(ctx, ["c_armodel_sim", "c_armodel_residual"], extractors=[])
    cm.use_impl()
    n = ctx.scale(900, 12000)
    cases, terms, results = [], [], []
    unsupported = {}
    corpus = cm.load_corpus(PID)
    for i in range(n + len(corpus)):
        case = corpus[i] if i < len(corpus) else gen_case(ctx.rng, i, ctx.thorough)
        if len(case["params"]) > 10:
            cm.mark({"call": "armodels.armodel_sim/residual", "case": case})
        try:
            mean, ini, out = run_impl(case)
        except Unsupported as e:
            unsupported[str((case["rep"], str(e)[:60]))] = unsupported.get(str((case["rep"], str(e)[:60])), 0) + 1
            continue
        cases.append(case)
        results.append((mean, ini, out))
        terms.append(term(case, mean, ini, out))
        sig = (case["kind"], len(case["params"]), min(len(case["series"]), 4),
               any(math.isnan(x) for x in case["series"]), out is None)
        ctx.count(sig)
        rep = case.get("rep")
        if rep:
            ctx.count(("rep", case["kind"], rep["series"], out is None), 0)
            ctx.count(("rep-params", case["kind"], rep["params"], out is None), 0)
            ctx.count(("rep-scalars", rep["mean"], rep["ini"]), 0)
        if i % 150 == 0:
            ctx.sample({"kind": "sim" if case["kind"] == 0 else "residual", "rep": case.get("rep", "float64 C-contiguous"),
                        "params": case["params"], "mean": mean, "ini": ini,
                        "series": case["series"][:8], "output": None if out is None else out[:8]})
    ctx.notes["undocumented_argument_types_refused"] = unsupported
    bad, nshards, failed = cm.run_case_files(PID, HEADER, "arcase", "ar_ok", terms)
    ctx.notes["correspondence_cases"] = len(terms)
    ctx.notes["correspondence_mismatches"] = len(bad)
    for k in range(nshards):
        ctx.obligation(f"Cases_{PID}_{k}.agree (model = implementation on the shard)", True)
    # oracle on every case
    orc_fail_idx = set()
    for i, (case, (mean, ini, out)) in enumerate(zip(cases, results)):
        for key, what in oracle(case, mean, ini, out):
            orc_fail_idx.add(i)
            ctx.failure(key, {"case": case, "mean": mean, "ini": ini, "output": out}, what)
    # operation sequences on shared objects (oracle only)
    sess_failed = sessions(ctx)
    if sess_failed and not orc_fail_idx:
        orc_fail_idx.add(-1)         # a concrete failing history has been reported
    cm.settle(ctx, proved, bad, failed, orc_fail_idx,
              lambda i: {"case": cases[i], "impl_output": results[i][2],
                         "model": "Hy.Model.Armodel.ar_ok"},
              "Model/Armodel.v vs c_armodels.c + armodels.py")
    return ctx.finish()
