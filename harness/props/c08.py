"""C08 - temporal aggregation and disaggregation reduce by group and conserve totals.

dutils.aggregate / dutils.flathomogen (c_dutils.c), dutils.monthly2daily (flat,
cubic; calendar of c_dateutils.c), signatures.goue.

The property quantifies over index vectors, input series and monthly series - not
over how the caller stores them nor over what was done before with the objects that
carry them.  Besides the "build a fresh int64 / float64 array, call once" cases the
check therefore runs recorded sequences of calls on caller-side objects and judges
EVERY answer on the way with the same exact oracle and the same model:
  * ArrLife: 2..5 calls of aggregate / flathomogen / goue; the index is held as a
    list, tuple, int64 / int32 / smallest-fitting integer ndarray (plain, strided,
    negative stride, read-only, other byte order, column of a 2-D array), pandas
    Series (text / shuffled / duplicated / date labels) or pandas Index; the inputs
    as a float64 ndarray (plain, strided, negative stride, read-only, other byte
    order, column of a Fortran / C 2-D array, inner slice); operator and maxnan as
    Python int, numpy int32 / int64 or 0-d array.  Between calls the caller keeps
    its objects untouched (the same objects are passed again), rewrites them in
    place, or builds new ones; vectors returned by earlier calls are still held and
    must still be what they were (also after the caller overwrites its own arrays);
    an index that decreases is mixed in (the error must not outlive the call).
  * SeriesLife: 2..4 calls of monthly2daily; the monthly Series has a DatetimeIndex
    of unit s / ms / us / ns, with or without freq, naive / UTC / zones with and
    without daylight saving, named or not, float64 or int64 values, held plainly, as a
    DataFrame column, as a slice of a longer series, on a read-only or a strided
    buffer.  Successive calls differ in one respect (other interpolation, other year
    with the same month and length - leap / common / century -, next month, other
    values) and use the same Series object again, rewritten in place or rebuilt.
Replays of these cases carry the whole sequence ("steps") and are re-executed by
--replay.  Their keys are the clause keys with "/caller-objects" appended."""
import calendar
import datetime
import itertools
import json
import math
from fractions import Fraction

import numpy as np

from harness import common as cm

PID = "C08"
HEADER = ("From Coq Require Import ZArith List PrimFloat.\n"
          "From Hy Require Import Base.Num Model.Dutils.")
NAN = float("nan")
INF = float("inf")
I32MIN, I32MAX = -2 ** 31, 2 ** 31 - 1
TS_YEAR_MIN, TS_YEAR_MAX = 1678, 2261      # pandas Timestamp (ns) range, whole years


# ----------------------------------------------------------------------------
# generators (all inside the property's quantifier)

def gen_runs(rng, n):
    """run lengths adding up to n"""
    mode = rng.random()
    if mode < 0.12:
        return [n]
    if mode < 0.24:
        return [1] * n
    out, left = [], n
    top = rng.choice([2, 3, 5, max(2, n)])
    while left > 0:
        k = min(left, rng.randint(1, top))
        out.append(k)
        left -= k
    return out


def gen_index(rng, runs, decreasing):
    """non-decreasing int32 index with the given runs; `decreasing`: break the order somewhere"""
    g = len(runs)
    mode = rng.random()
    if mode < 0.3:        # month codes
        y, m = rng.randint(1900, 2100), rng.randint(1, 12)
        keys = []
        for _ in range(g):
            keys.append(y * 100 + m)
            m += 1
            if m > 12:
                y, m = y + 1, 1
    else:
        if mode < 0.45:
            lo = I32MIN + rng.randint(0, 3)
        elif mode < 0.6:
            lo = None      # end at the top of the int32 range
        elif mode < 0.75:
            lo = -rng.randint(0, 2 * g + 3)
        else:
            lo = rng.randint(-10 ** 6, 10 ** 6)
        steps = [rng.choice([1, 1, 2, rng.randint(1, 1000)]) for _ in range(g - 1)]
        if lo is None:
            lo = I32MAX - rng.randint(0, 3) - sum(steps)
        keys = [lo]
        for s in steps:
            keys.append(keys[-1] + s)
    if g >= 2 and rng.random() < 0.12:
        # consecutive keys more than 2^31-1 apart (from the bottom to the top of the int32
        # range): a comparison made through the int32 difference of two keys wraps around
        cut = rng.randrange(1, g)
        lo_part = [I32MIN + rng.randint(0, 5) + j for j in range(cut)]
        hi_part = [I32MAX - rng.randint(0, 5) - (g - 1 - j) for j in range(cut, g)]
        keys = lo_part + hi_part
    idx = [k for k, r in zip(keys, runs) for _ in range(r)]
    if decreasing and len(idx) >= 2:
        how = rng.random()
        pos = rng.randrange(1, len(idx))
        if how < 0.4:          # one element drops below its predecessor
            idx[pos] = idx[pos - 1] - rng.choice([1, 1, 2, 1000])
        elif how < 0.7:        # swap two different neighbours
            cand = [i for i in range(1, len(idx)) if idx[i] != idx[i - 1]]
            if cand:
                i = rng.choice(cand)
                idx[i - 1], idx[i] = idx[i], idx[i - 1]
            else:
                idx[pos] = idx[pos - 1] - 1
        elif how < 0.8 and idx[0] < idx[-1]:   # a drop of (almost) the whole int32 range
            idx[pos:] = [min(I32MIN + 3, idx[0] - 1)] * (len(idx) - pos)
            idx[:pos] = [I32MAX - 2] * pos
        else:                  # the last element returns to the first group
            idx[-1] = idx[0] - (0 if idx[0] < idx[-1] else 1)
        idx = [min(max(v, I32MIN), I32MAX) for v in idx]
    return idx


def gen_values(rng, runs):
    n = sum(runs)
    scale = rng.choice([1.0, 1.0, 1e-3, 1e3, 1e8])
    kind = rng.random()
    if kind < 0.25:
        xs = [float(rng.randint(-9, 9)) for _ in range(n)]           # small integers, ties, zeros
    elif kind < 0.45:
        xs = [-abs(rng.gauss(0, 1)) * scale - 1e-3 for _ in range(n)]  # all negative
    elif kind < 0.6:
        xs = [abs(rng.gauss(0, 1)) * scale for _ in range(n)]
    else:
        xs = [rng.gauss(0, 1) * scale for _ in range(n)]
    if rng.random() < 0.15:
        for _ in range(max(1, n // 5)):
            xs[rng.randrange(n)] = rng.choice([0.0, -0.0])
    if rng.random() < 0.04:
        xs[rng.randrange(n)] = rng.choice([INF, -INF])
    nanmode = rng.random()
    starts = list(itertools.accumulate([0] + runs[:-1]))
    if nanmode < 0.25:
        pass
    elif nanmode < 0.45:       # scattered
        for _ in range(rng.randint(1, max(1, n // 3))):
            xs[rng.randrange(n)] = NAN
    elif nanmode < 0.6:        # last position of some groups
        for s, r in zip(starts, runs):
            if rng.random() < 0.6:
                xs[s + r - 1] = NAN
    elif nanmode < 0.72:       # first position of some groups
        for s, r in zip(starts, runs):
            if rng.random() < 0.6:
                xs[s] = NAN
    elif nanmode < 0.86:       # whole groups
        for s, r in zip(starts, runs):
            if rng.random() < 0.4:
                for j in range(s, s + r):
                    xs[j] = NAN
    elif nanmode < 0.93:       # everything
        xs = [NAN] * n
    else:                      # leading and trailing stretch
        k = rng.randint(1, max(1, n // 2))
        for j in range(k):
            xs[j] = NAN
            xs[n - 1 - j] = NAN
    return xs


def gen_maxnan(rng, runs):
    return rng.choice([0, 0, 1, 2, max(0, max(runs) - 1), max(runs), sum(runs) + 1, rng.randint(0, 6)])


def gen_agg_case(rng, maxlen, call):
    n = rng.choice([1, 1, 2, 2, 3, rng.randint(1, 12), rng.randint(1, maxlen)])
    runs = gen_runs(rng, n)
    decreasing = rng.random() < 0.12
    case = {"call": call, "idx": gen_index(rng, runs, decreasing), "xs": gen_values(rng, runs),
            "maxnan": gen_maxnan(rng, runs)}
    if call == "aggregate":
        case["op"] = rng.choice([0, 1, 2, 2, 3, 3])
    return case


def gen_m2d_case(rng, maxmonths, interp):
    n = rng.choice([2, 2, 3, rng.randint(2, 14), rng.randint(2, 40), rng.randint(2, maxmonths)])
    years = n // 12 + 2
    y = rng.choice([1999, 2000, 1900 - rng.randint(0, 1), 2100 - rng.randint(0, 1), 1800, 2200,
                    rng.randint(TS_YEAR_MIN, TS_YEAR_MAX - years),
                    rng.randint(TS_YEAR_MIN, TS_YEAR_MAX - years)])
    y = min(max(y, TS_YEAR_MIN), TS_YEAR_MAX - years)
    m = rng.randint(1, 12)
    kind = rng.random()
    scale = rng.choice([1.0, 1.0, 1e-4, 1e3, 1e7])
    if kind < 0.25:
        vals = [float(rng.randint(0, 400)) for _ in range(n)]
    elif kind < 0.4:
        vals = [math.exp(rng.gauss(0, 2)) * scale for _ in range(n)]
    elif kind < 0.5:
        vals = [0.0] * n
    else:
        vals = [rng.random() * scale if rng.random() < 0.8 else 0.0 for _ in range(n)]
    return {"call": "monthly2daily", "interp": interp, "year": y, "month": m, "vals": vals}


# ----------------------------------------------------------------------------
# implementation runs

def fl(a):
    return [float(v) for v in a]


def impl_aggregate(case):
    from hydrodiy.data import dutils
    idx = np.array(case["idx"], dtype=np.int64)
    xs = np.array(case["xs"], dtype=np.float64)
    try:
        with np.errstate(all="ignore"):
            if case["call"] == "aggregate":
                return fl(dutils.aggregate(idx, xs, case["op"], case["maxnan"]))
            return fl(dutils.flathomogen(idx, xs, case["maxnan"]))
    except ValueError:
        return None


INTERP = {"flat": 0, "cubic": 1}


def impl_m2d(case):
    """returns (values or None, index as list of (y,m,d) or None)"""
    import pandas as pd
    from hydrodiy.data import dutils
    idx = pd.date_range(f"{case['year']:04d}-{case['month']:02d}-01", periods=len(case["vals"]), freq="MS")
    se = pd.Series(np.array(case["vals"], dtype=np.float64), index=idx)
    try:
        with np.errstate(all="ignore"):
            sed = dutils.monthly2daily(se, interpolation=case["interp"])
    except ValueError:
        return None, None
    days = [(int(t.year), int(t.month), int(t.day)) for t in sed.index]
    return fl(sed.values), days


# ----------------------------------------------------------------------------
# Coq terms

def term(case, out):
    c = case["call"]
    if c == "aggregate":
        return (f"CAgg {cm.coq_z(case['op'])} {cm.coq_z(case['maxnan'])} {cm.coq_zlist(case['idx'])} "
                f"{cm.coq_flist(case['xs'])} {cm.coq_option(out, cm.coq_flist)}")
    if c == "flathomogen":
        return (f"CFlat {cm.coq_z(case['maxnan'])} {cm.coq_zlist(case['idx'])} "
                f"{cm.coq_flist(case['xs'])} {cm.coq_option(out, cm.coq_flist)}")
    if c == "monthly2daily":
        scale = max([1.0] + [abs(v) for v in case["vals"] if math.isfinite(v)])
        return (f"CM2D {cm.coq_z(INTERP.get(case['interp'], 2))} 0 {cm.coq_z(case['year'])} "
                f"{cm.coq_z(case['month'])} {cm.coq_flist(case['vals'])} {cm.coq_float(1e-9 * scale)} "
                f"{cm.coq_option(out, cm.coq_flist)}")
    raise ValueError(c)


# ----------------------------------------------------------------------------
# oracles (exact rationals; independent of the model)

def fr(x):
    return Fraction(x)


def groups_of(idx):
    """[(key, [positions])] for a non-decreasing index; None when it decreases somewhere"""
    if any(b < a for a, b in zip(idx, idx[1:])):
        return None
    out = []
    for i, k in enumerate(idx):
        if out and out[-1][0] == k:
            out[-1][1].append(i)
        else:
            out.append((k, [i]))
    return out


def near(got, want, scale, rel=1e-9):
    """float `got` equals the exact rational `want` up to rounding"""
    if math.isnan(got) or math.isinf(got):
        return False
    return abs(Fraction(got) - want) <= Fraction(rel) * max(Fraction(1, 10 ** 300), scale)


OPNAME = {0: "sum", 1: "mean", 2: "max", 3: "tail"}


def oracle_aggregate(case, out):
    fails = []
    idx, xs, op, maxnan = case["idx"], case["xs"], case["op"], case["maxnan"]
    if len(idx) != len(xs):
        if out is not None:
            fails.append(("C08/aggregate/length-mismatch-accepted", "different lengths accepted"))
        return fails
    grp = groups_of(idx)
    if grp is None:
        if out is not None:
            fails.append(("C08/aggregate/decreasing-index-accepted",
                          f"index {idx[:8]}... decreases but aggregate returned {out[:4]}"))
        return fails
    if out is None:
        fails.append(("C08/aggregate/valid-input-rejected", "non-decreasing index raised ValueError"))
        return fails
    if len(out) != len(grp):
        fails.append(("C08/aggregate/number-of-groups",
                      f"{len(out)} outputs for {len(grp)} distinct index values"))
        return fails
    total_ok = op == 0
    for (k, pos), got in zip(grp, out):
        vals = [xs[i] for i in pos]
        pres = [v for v in vals if not math.isnan(v)]
        nmiss = len(vals) - len(pres)
        if nmiss > maxnan:
            total_ok = False
            if not math.isnan(got):
                fails.append(("C08/aggregate/maxnan-exceeded-not-nan",
                              f"group {k}: {nmiss} missing > maxnan={maxnan} but output {got!r}"))
            continue
        if not pres:
            # only the sum operator is constrained on a group without any value
            if op == 0 and not (got == 0.0):
                fails.append(("C08/aggregate/sum/empty-group-not-zero", f"group {k}: sum of nothing = {got!r}"))
            continue
        hasinf = any(math.isinf(v) for v in pres)
        if op in (0, 1):
            if hasinf:
                total_ok = False
                continue
            s = sum(fr(v) for v in pres)
            scale = sum(abs(fr(v)) for v in pres)
            want = s if op == 0 else s / len(pres)
            if not near(got, want, scale if op == 0 else scale / len(pres)):
                fails.append((f"C08/aggregate/{OPNAME[op]}/wrong-value",
                              f"group {k} values {vals[:6]}: {OPNAME[op]} = {got!r}, exact {float(want)!r}"))
        elif op == 2:
            want = max(pres)
            if not (got == want):
                fails.append(("C08/aggregate/max/wrong-value",
                              f"group {k} values {vals[:6]} (maxnan={maxnan}): max = {got!r}, expected {want!r}"))
        elif op == 3:
            want = pres[-1]
            if not (got == want):
                fails.append(("C08/aggregate/tail/wrong-value",
                              f"group {k} values {vals[:6]} (maxnan={maxnan}): last = {got!r}, expected {want!r}"))
    if total_ok and not any(math.isnan(v) or math.isinf(v) for v in out):
        pres = [fr(v) for v in xs if not math.isnan(v)]
        if not near(math.fsum(out), sum(pres), sum(abs(v) for v in pres)):
            fails.append(("C08/aggregate/sum/total-not-conserved",
                          f"sum of outputs {math.fsum(out)!r} != sum of inputs {float(sum(pres))!r}"))
    return fails


def oracle_flathomogen(case, out):
    fails = []
    idx, xs, maxnan = case["idx"], case["xs"], case["maxnan"]
    if len(idx) != len(xs):
        if out is not None:
            fails.append(("C08/flathomogen/length-mismatch-accepted", "different lengths accepted"))
        return fails
    grp = groups_of(idx)
    if grp is None:
        if out is not None:
            fails.append(("C08/flathomogen/decreasing-index-accepted",
                          f"index {idx[:8]}... decreases but flathomogen returned a result"))
        return fails
    if out is None:
        fails.append(("C08/flathomogen/valid-input-rejected", "non-decreasing index raised ValueError"))
        return fails
    if len(out) != len(xs):
        fails.append(("C08/flathomogen/length", f"{len(out)} outputs for {len(xs)} inputs"))
        return fails
    for k, pos in grp:
        vals = [xs[i] for i in pos]
        pres = [v for v in vals if not math.isnan(v)]
        nmiss = len(vals) - len(pres)
        for i in pos:
            if math.isnan(xs[i]) and not math.isnan(out[i]):
                fails.append(("C08/flathomogen/missing-not-kept",
                              f"position {i} is missing in the input but {out[i]!r} in the output"))
                return fails
        if nmiss > maxnan or not pres or any(math.isinf(v) for v in pres):
            continue   # the statement says nothing about groups beyond maxnan
        s = sum(fr(v) for v in pres)
        scale = sum(abs(fr(v)) for v in pres)
        mean = s / len(pres)
        for i in pos:
            if not math.isnan(xs[i]) and not near(out[i], mean, scale / len(pres)):
                fails.append(("C08/flathomogen/not-group-mean",
                              f"group {k} values {vals[:6]}: output[{i}] = {out[i]!r}, mean {float(mean)!r}"))
                return fails
        tot = [out[i] for i in pos if not math.isnan(xs[i])]
        if not near(math.fsum(tot), s, scale):
            fails.append(("C08/flathomogen/group-total-not-preserved",
                          f"group {k}: total {math.fsum(tot)!r}, input total {float(s)!r}"))
            return fails
    return fails


def oracle_m2d(case, out, days):
    fails = []
    interp = case["interp"]
    if interp not in INTERP:
        if out is not None:
            fails.append(("C08/monthly2daily/unknown-interpolation-accepted", f"interpolation={interp!r} accepted"))
        return fails
    tag = f"C08/monthly2daily/{interp}"
    if out is None:
        fails.append((tag + "/valid-input-rejected", "raised ValueError"))
        return fails
    # one value per calendar day (python's calendar, independent of pandas and of c_dateutils)
    want_days = []
    y, m = case["year"], case["month"]
    months = []
    for _ in case["vals"]:
        nd = calendar.monthrange(y, m)[1]
        months.append((y, m, nd))
        want_days += [(y, m, d) for d in range(1, nd + 1)]
        y, m = (y, m + 1) if m < 12 else (y + 1, 1)
    if days != want_days:
        j = next((i for i, (a, b) in enumerate(zip(days, want_days)) if a != b), min(len(days), len(want_days)))
        fails.append((tag + "/not-one-value-per-day",
                      f"{len(days)} values for {len(want_days)} calendar days; first difference at position {j}"))
        return fails
    scale = max([abs(fr(v)) for v in case["vals"]] + [Fraction(1, 10 ** 300)])
    p = 0
    for (yy, mm, nd), v in zip(months, case["vals"]):
        block = out[p:p + nd]
        p += nd
        if any(math.isnan(b) or math.isinf(b) for b in block):
            fails.append((tag + "/nan-in-output", f"{yy}-{mm:02d}: non-finite daily value for monthly value {v!r}"))
            return fails
        if not near(math.fsum(block), fr(v), scale):
            fails.append((tag + "/month-total-not-conserved",
                          f"{yy}-{mm:02d} ({nd} days): daily values add up to {math.fsum(block)!r}, monthly input {v!r}"))
            return fails
        if interp == "flat":
            for b in block:
                if not near(b, fr(v) / nd, abs(fr(v)) / nd, rel=1e-12):
                    fails.append((tag + "/not-value-over-days",
                                  f"{yy}-{mm:02d}: daily value {b!r}, expected {v!r}/{nd}"))
                    return fails
    return fails


def oracle_goue(case, got=None):
    """goue = NSE of the flat-homogenised series against the series (NaN-free inputs);
    `got`: the value obtained by the caller (default: a call on fresh int64 / float64 arrays)"""
    from hydrodiy.data import signatures
    idx, xs = case["idx"], case["xs"]
    grp = groups_of(idx)
    if len(idx) != len(xs) or grp is None or len(xs) < 2 \
            or any(math.isnan(v) or math.isinf(v) for v in xs):
        return []
    x = [fr(v) for v in xs]
    mean = sum(x) / len(x)
    den = sum((v - mean) ** 2 for v in x)
    scale = sum(v * v for v in x)
    if den <= Fraction(1, 10 ** 6) * scale or den == 0:
        return []      # ill-conditioned: a nearly constant series
    flat = [None] * len(x)
    for _, pos in grp:
        gm = sum(x[i] for i in pos) / len(pos)
        for i in pos:
            flat[i] = gm
    want = 1 - sum((a - b) ** 2 for a, b in zip(x, flat)) / den
    if got is None:
        with np.errstate(all="ignore"):
            got = float(signatures.goue(np.array(idx, dtype=np.int64), np.array(xs, dtype=np.float64)))
    if not near(got, want, 1 + abs(want), rel=1e-7):
        return [("C08/goue/not-nse-of-group-means", f"goue = {got!r}, exact {float(want)!r}")]
    return []


# ----------------------------------------------------------------------------
# caller-side objects: stored representation and life over a sequence of calls

IDX_REPRS = ["list", "tuple", "int64", "int32", "small", "int64-strided", "int32-strided", "int64-reversed",
             "int32-reversed", "int64-readonly", "int32-readonly", "int64-swapped", "int32-swapped",
             "int64-column", "int32-column", "series-text", "series-shuffled", "series-duplicates",
             "series-dates", "index"]
XS_REPRS = ["plain", "strided", "reversed", "readonly", "swapped", "column-F", "column-C", "inner-slice",
            "readonly-strided"]
PAR_REPRS = {"py": int, "np32": lambda v: np.int32(v), "np64": lambda v: np.int64(v),
             "0d": lambda v: np.array(v)}
GARBAGE_I = [I32MAX, I32MIN, 7, -7]        # what lies between / around the elements of a view
GARBAGE_X = [1e300, -1e300, NAN, 12345.0]


def same_float(a, b):
    return (a != a and b != b) or (a == b and math.copysign(1.0, a) == math.copysign(1.0, b))


def same_floats(a, b):
    return len(a) == len(b) and all(same_float(x, y) for x, y in zip(a, b))


class Held:
    """one caller-side object: `obj` is handed to the library; `put(values)` rewrites its
    content in place (False: the representation is immutable / cannot hold them);
    `get()` reads the content back"""

    def __init__(self, values, rep, kind, salt=0):
        import pandas as pd
        self.rep, self.kind, self.n = rep, kind, len(values)
        self.keep = None          # owner of the memory (kept alive, written through)
        n = len(values)
        if kind == "i":
            vals = [int(v) for v in values]
            junk = GARBAGE_I[salt % len(GARBAGE_I)]
            dt = np.int64
            if rep.startswith("int32"):
                dt = np.int32
            if rep == "small":
                dt = self.smallest(vals)
        else:
            vals = [float(v) for v in values]
            junk = GARBAGE_X[salt % len(GARBAGE_X)]
            dt = np.float64
        lay = rep.split("-", 1)[1] if kind == "i" and rep.startswith("int") and "-" in rep else rep
        if rep == "list":
            self.obj = list(vals)
        elif rep == "tuple":
            self.obj = tuple(vals)
        elif rep == "index":
            self.obj = pd.Index(np.array(vals, dtype=np.int64))
        elif rep.startswith("series"):
            lab = {"series-text": [f"r{j:03d}" for j in range(n)],
                   "series-shuffled": [(j * 7919 + 13) % (n + 5) - 2 for j in range(n)],
                   "series-duplicates": [j // 2 for j in range(n)],
                   "series-dates": list(pd.date_range("1999-12-30", periods=n, freq="D"))}[rep]
            self.obj = pd.Series(np.array(vals, dtype=np.int64), index=lab)
        elif lay in ("int64", "int32", "small", "plain"):
            self.obj = np.array(vals, dtype=dt)
        elif lay in ("strided", "readonly-strided"):
            self.keep = np.full(2 * n + 1, junk, dtype=dt)
            self.obj = self.keep[1::2]
            self.obj[...] = vals
            if lay == "readonly-strided":
                self.obj = self.keep[1::2]
                self.obj.flags.writeable = False
        elif lay == "reversed":
            self.keep = np.array(vals[::-1], dtype=dt)
            self.obj = self.keep[::-1]
        elif lay == "readonly":
            self.keep = np.array(vals, dtype=dt)
            self.obj = self.keep.view()
            self.obj.flags.writeable = False
        elif lay == "swapped":
            self.obj = np.array(vals, dtype=np.dtype(dt).newbyteorder())
        elif lay in ("column", "column-C", "column-F"):
            self.keep = np.full((n, 3), junk, dtype=dt, order="F" if lay == "column-F" else "C")
            self.keep[:, 1] = vals
            self.obj = self.keep[:, 1]
        elif lay == "inner-slice":
            self.keep = np.full(n + 3, junk, dtype=dt)
            self.keep[2:2 + n] = vals
            self.obj = self.keep[2:2 + n]
        else:
            raise ValueError(rep)

    @staticmethod
    def smallest(vals):
        for dt in (np.int8, np.int16, np.int32):
            ii = np.iinfo(dt)
            if all(ii.min <= v <= ii.max for v in vals):
                return dt
        return np.int64

    def put(self, values):
        if len(values) != self.n or self.rep in ("tuple", "index"):
            return False
        if self.kind == "i":
            vals = [int(v) for v in values]
            if self.rep == "small":
                ii = np.iinfo(self.obj.dtype)
                if not all(ii.min <= v <= ii.max for v in vals):
                    return False
        else:
            vals = [float(v) for v in values]
        if self.rep == "list":
            self.obj[:] = vals
        elif self.rep.startswith("series"):
            self.obj.iloc[:] = np.array(vals, dtype=np.int64)
        elif not self.obj.flags.writeable:
            tgt = self.keep[1::2] if self.rep.endswith("strided") else self.keep
            tgt[...] = vals
        else:
            self.obj[...] = vals
        return True

    def get(self):
        conv = int if self.kind == "i" else float
        return [conv(v) for v in (self.obj if isinstance(self.obj, (list, tuple)) else np.asarray(self.obj))]


def finite_values(rng, runs):
    xs = gen_values(rng, runs)
    return [v if math.isfinite(v) else float(rng.randint(-9, 9)) + rng.random() for v in xs]


def gen_arr_session(rng, maxlen):
    """2..5 calls of aggregate / flathomogen / goue on the caller's objects"""
    n = rng.choice([1, 2, 3, rng.randint(2, 12), rng.randint(2, 12), rng.randint(2, maxlen)])
    steps = []
    for k in range(rng.randint(2, 5)):
        fn = rng.choice(["aggregate"] * 3 + ["flathomogen"] * 2 + ["goue"])
        prev = steps[-1] if steps else None
        if prev is not None and rng.random() < 0.15:
            n = rng.choice([1, 2, rng.randint(2, 12), rng.randint(2, maxlen)])
        if fn == "goue":
            n = max(n, 2)
        alike = prev is not None and len(prev["idx"]) == n
        st = {"fn": fn, "idx_repr": rng.choice(IDX_REPRS), "xs_repr": rng.choice(XS_REPRS),
              "par_repr": rng.choice(list(PAR_REPRS)), "idx_obj": "new", "xs_obj": "new"}
        if alike:      # the caller's objects of the step before fit
            st["idx_obj"] = rng.choice(["new", "same", "same", "rewrite", "rewrite"])
            st["xs_obj"] = rng.choice(["new", "same", "rewrite", "rewrite"])
        runs = gen_runs(rng, n)
        if st["idx_obj"] == "same":
            st["idx"] = list(prev["idx"])
            grp = groups_of(st["idx"])
            runs = [len(p) for _, p in grp] if grp else [n]
        else:
            st["idx"] = gen_index(rng, runs, rng.random() < (0.0 if fn == "goue" else 0.12))
        if st["xs_obj"] == "same":
            st["xs"] = list(prev["xs"])
            if fn == "goue" and not all(math.isfinite(v) for v in st["xs"]):
                st["fn"] = fn = "flathomogen"
        else:
            st["xs"] = finite_values(rng, runs) if fn == "goue" else gen_values(rng, runs)
        st["maxnan"] = 0 if fn == "goue" else gen_maxnan(rng, runs)
        if fn == "aggregate":
            st["op"] = rng.choice([0, 1, 2, 2, 3, 3])
        steps.append(st)
    return {"call": "arrays", "steps": steps}


class ArrLife:
    """the caller's index / inputs objects and the vectors it was handed back, over a
    sequence of calls of aggregate / flathomogen / goue"""

    def __init__(self):
        self.I = self.X = None
        self.kept = []      # (step number, function, returned ndarray, its values when returned)
        self.nobj = 0

    def place(self, cur, values, rep, how, kind):
        """-> (the caller's object holding `values`, what was done: new / same / rewrite)"""
        if how == "same" and cur is not None and cur.n == len(values):
            return cur, "same"
        if how == "rewrite" and cur is not None:
            try:
                if cur.put(values):
                    return cur, "rewrite"
            except Exception:      # the object cannot take them any more: the caller makes a new one
                pass
        self.nobj += 1
        return Held(values, rep, kind, salt=self.nobj), "new"

    def step(self, k, st):
        """-> (values returned or None when the call raised, text of the exception, (how, how))"""
        from hydrodiy.data import dutils, signatures
        self.I, hi = self.place(self.I, st["idx"], st["idx_repr"], st["idx_obj"], "i")
        self.X, hx = self.place(self.X, st["xs"], st["xs_repr"], st["xs_obj"], "x")
        par = PAR_REPRS[st["par_repr"]]
        try:
            with np.errstate(all="ignore"):
                if st["fn"] == "aggregate":
                    r = dutils.aggregate(self.I.obj, self.X.obj, par(st["op"]), par(st["maxnan"]))
                elif st["fn"] == "flathomogen":
                    r = dutils.flathomogen(self.I.obj, self.X.obj, par(st["maxnan"]))
                else:
                    r = signatures.goue(self.I.obj, self.X.obj)
                out = fl(np.asarray(r, dtype=np.float64).ravel())
        except Exception as e:     # "rejected with an error": any exception
            return None, f"{type(e).__name__}: {str(e)[:120]}", (hi, hx)
        if st["fn"] != "goue":
            self.kept.append((k, st["fn"], r, out))
        return out, None, (hi, hx)

    def stale(self):
        """earlier results that are no longer what they were: [(step, function, then, now)]"""
        bad = []
        for k, fn, r, then in self.kept:
            now = fl(np.asarray(r, dtype=np.float64).ravel())
            if not same_floats(then, now):
                bad.append((k, fn, then, now))
        return bad

    def scribble(self):
        """the caller overwrites its own objects"""
        if self.I is not None:
            self.I.put([5] * self.I.n)
        if self.X is not None:
            self.X.put([-777.25] * self.X.n)


# monthly series

# zones with daylight saving included: the cubic branch of the pinned code raised for a tz-aware series
# spanning a clock-back (defect found by this class, repaired in 2f7c031; known_findings.d/C08.json)
M2D_TZ = [None, None, None, "UTC", "Australia/Sydney", "Europe/Paris", "Asia/Kolkata"]
M2D_HOLD = ["plain", "plain", "int64", "frame-column", "slice", "readonly", "strided"]
YEAR_KINDS = [1999, 2000, 2001, 2004, 1900, 2100, 1800, 2200, 1700, 1896, 2096]


def build_monthly(st, salt=0):
    """-> (Series handed to monthly2daily, objects to keep alive)"""
    import pandas as pd
    n = len(st["vals"])
    hold = st["hold"]
    pre, post = (1 + salt % 3, 1 + salt % 2) if hold == "slice" else (0, 0)
    y, m = st["year"], st["month"]
    m -= pre
    while m < 1:
        y, m = y - 1, m + 12
    idx = pd.date_range(f"{y:04d}-{m:02d}-01", periods=n + pre + post, freq="MS", unit=st["unit"], tz=st["tz"])
    if not st["freq"]:
        idx = pd.DatetimeIndex(list(idx)).as_unit(st["unit"])
    if st["name"]:
        idx = idx.rename("time")
    vals = [float(v) for v in st["vals"]]
    name = "rain" if st["name"] else None
    if hold == "int64" and all(v == int(v) and abs(v) < 2 ** 53 for v in vals):
        return pd.Series(np.array([int(v) for v in vals], dtype=np.int64), index=idx, name=name), None
    if hold == "frame-column":
        df = pd.DataFrame({"a": [1e6] * n, "b": vals, "c": [NAN] * n}, index=idx)
        return df["b"], df
    if hold == "slice":
        long = pd.Series([1e6] * pre + vals + [2e6] * post, index=idx, name=name)
        return long.iloc[pre:pre + n], long
    if hold == "readonly":
        arr = np.array(vals, dtype=np.float64)
        arr.flags.writeable = False
        return pd.Series(arr, index=idx, name=name, copy=False), arr
    if hold == "strided":
        base = np.full(2 * n + 1, 1e6)
        base[1::2] = vals
        return pd.Series(base[1::2], index=idx, name=name, copy=False), base
    return pd.Series(np.array(vals, dtype=np.float64), index=idx, name=name), None


def pinned_sequences():
    """sequences replayed first on every run (repaired defects found by the sequence classes)"""
    out = []
    for tz, y, m in (("Australia/Sydney", 2000, 2), ("Europe/Paris", 2001, 10), ("Australia/Sydney", 1999, 7)):
        for interp in ("cubic", "flat"):
            n = 2 if y != 1999 else 14
            out.append({"call": "series", "steps": [
                {"interp": interp, "year": y, "month": m, "vals": [29.0, 31.0, 0.0, 7.5][:2] * (n // 2),
                 "unit": "us", "freq": True, "tz": tz, "name": False, "hold": "plain", "obj": "new"}]})
    return out


def gen_m2d_session(rng, maxmonths):
    """2..4 calls of monthly2daily; successive calls differ in one respect"""
    first = gen_m2d_case(rng, min(maxmonths, 30), rng.choice(["flat", "cubic"]))
    if rng.random() < 0.6:
        first["year"] = rng.choice(YEAR_KINDS)
        first["month"] = rng.choice([1, 2, 2, 12, first["month"]])

    def dress(st):
        st.update({"unit": rng.choice(["s", "ms", "us", "ns"]), "freq": rng.random() < 0.6,
                   "tz": rng.choice(M2D_TZ), "name": rng.random() < 0.3, "hold": rng.choice(M2D_HOLD),
                   "obj": "new"})
        return st

    steps = [dress({k: first[k] for k in ("interp", "year", "month", "vals")})]
    for _ in range(rng.randint(1, 3)):
        prev = steps[-1]
        st = dict(prev, vals=list(prev["vals"]))
        what = rng.choice(["interp", "year", "year", "month", "vals", "again"])
        if what == "interp":
            st["interp"] = "flat" if prev["interp"] == "cubic" else "cubic"
            st["obj"] = rng.choice(["same", "same", "new"])
        elif what == "again":
            st["obj"] = "same"
        elif what == "year":
            n = len(prev["vals"])
            st["year"] = rng.choice([y for y in YEAR_KINDS + [prev["year"] + 1, prev["year"] - 1]
                                     if y != prev["year"] and TS_YEAR_MIN <= y <= TS_YEAR_MAX - n // 12 - 2])
            dress(st)
        elif what == "month":
            st["month"] = prev["month"] % 12 + 1
            dress(st)
        else:
            n = len(prev["vals"])
            st["vals"] = gen_m2d_case(rng, n, "flat")["vals"] if rng.random() < 0.5 else \
                [float(rng.randint(0, 300)) for _ in range(n)]
            while len(st["vals"]) != n:
                st["vals"] = (st["vals"] + [float(rng.randint(0, 300)) for _ in range(n)])[:n]
            st["obj"] = rng.choice(["rewrite", "rewrite", "new"])
        steps.append(st)
    return {"call": "series", "steps": steps}


class SeriesLife:
    """the caller's monthly Series and the daily series it was handed back, over a
    sequence of calls of monthly2daily"""

    def __init__(self):
        self.se = self.owner = self.made = self.stamps = None
        self.kept = []
        self.nobj = 0

    @staticmethod
    def days_of(sed):
        return [(int(t.year), int(t.month), int(t.day)) for t in sed.index]

    def writable(self):
        return self.made is not None and self.made["hold"] in ("plain", "frame-column", "slice", "strided") \
            and str(self.se.dtype) == "float64"

    def step(self, k, st):
        """-> (values or None, days or None, text of the exception, what was done with the object)"""
        from hydrodiy.data import dutils
        how = st["obj"]
        same_stamp = self.made is not None and all(self.made[f] == st[f] for f in ("year", "month")) \
            and len(self.made["vals"]) == len(st["vals"])
        if how == "same" and same_stamp:
            pass
        elif how == "rewrite" and same_stamp and self.writable() and self.rewrite(st["vals"]):
            pass
        else:
            how = "new"
            self.nobj += 1
            self.se, self.owner = build_monthly(st, salt=self.nobj)
            self.made, self.stamps = st, self.se.index.copy()
        try:
            with np.errstate(all="ignore"):
                sed = dutils.monthly2daily(self.se, interpolation=st["interp"])
            out, days = fl(sed.values), self.days_of(sed)
        except Exception as e:
            return None, None, f"{type(e).__name__}: {str(e)[:120]}", how
        self.kept.append((k, st["interp"], sed, out, days))
        return out, days, None, how

    def stale(self):
        bad = []
        for k, interp, sed, then, days in self.kept:
            now = fl(sed.values)
            if not same_floats(then, now) or self.days_of(sed) != days:
                bad.append((k, interp, then, now))
        return bad

    def rewrite(self, vals):
        """the caller assigns other values to the months of its series (in place)"""
        try:
            self.se.loc[self.stamps] = np.array(vals, dtype=np.float64)
            return True
        except Exception:
            return False

    def scribble(self):
        if self.se is not None and self.writable():
            self.rewrite([4321.5] * len(self.stamps))


def run_arrays(case, add, session_fail, count):
    """a sequence of aggregate / flathomogen / goue calls on the caller's objects"""
    life = ArrLife()
    replay = dict(case, impl=[])
    mine = []
    for k, st in enumerate(case["steps"]):
        fn = st["fn"]
        out, exc, (hi, hx) = life.step(k, st)
        replay["impl"].append(out if exc is None else exc)
        one = {"call": fn, "idx": st["idx"], "xs": st["xs"], "maxnan": st["maxnan"]}
        if fn == "aggregate":
            one["op"] = st["op"]
        where = (f"call {k + 1} of {len(case['steps'])} ({fn}; index held as {life.I.rep}, {hi}; inputs as "
                 f"{life.X.rep}, {hx}; parameters as {st['par_repr']})")
        sig = ("arrays", fn, st.get("op"), life.I.rep, life.X.rep, hi, hx, out is None)
        if fn == "goue":
            count(sig)
            fs = oracle_goue(one, got=out[0]) if out is not None and len(out) == 1 else []
            if out is None and groups_of(st["idx"]) is not None:
                fs = [("C08/goue/valid-input-rejected", "raised")]
        else:
            mine.append(add(term(one, out), replay, sig))
            fs = oracle_aggregate(one, out) if fn == "aggregate" else oracle_flathomogen(one, out)
        for key, what in fs:
            held = ""
            try:
                intact = life.I.get() == [int(v) for v in st["idx"]] and same_floats(life.X.get(), fl(st["xs"]))
            except Exception:
                intact = False
            if not intact:
                held = "; the caller's objects no longer hold what the caller wrote"
            session_fail(replay, mine, key, f"{where}: {what}{' [' + exc + ']' if exc else ''}{held}")
        if k == len(case["steps"]) - 1:
            life.scribble()
        for k0, fn0, then, now in life.stale():
            session_fail(replay, mine, f"C08/{fn0}/earlier-result-changed",
                         f"the vector returned by call {k0 + 1} ({fn0}) was {then[:6]} and reads {now[:6]} "
                         f"after {where}" + (" and after the caller overwrote its own arrays"
                                             if k == len(case["steps"]) - 1 else ""))
            break


def run_series(case, add, session_fail):
    """a sequence of monthly2daily calls on the caller's monthly Series"""
    life = SeriesLife()
    replay = dict(case, impl=[])
    mine = []
    for k, st in enumerate(case["steps"]):
        out, days, exc, how = life.step(k, st)
        replay["impl"].append(out[:40] if exc is None else exc)
        one = {"call": "monthly2daily", "interp": st["interp"], "year": st["year"], "month": st["month"],
               "vals": [float(v) for v in st["vals"]]}
        made = life.made
        where = (f"call {k + 1} of {len(case['steps'])} (monthly2daily {st['interp']}, {len(st['vals'])} months "
                 f"from {st['year']}-{st['month']:02d}; Series {how}: unit {made['unit']}, "
                 f"{'freq MS' if made['freq'] else 'no freq'}, tz {made['tz']}, held as {made['hold']})")
        sig = ("series", st["interp"], how, made["unit"], made["freq"], made["tz"], made["hold"],
               calendar.isleap(st["year"]), out is None)
        mine.append(add(term(one, out), replay, sig))
        for key, what in oracle_m2d(one, out, days):
            session_fail(replay, mine, key, f"{where}: {what}{' [' + exc + ']' if exc else ''}")
        if k == len(case["steps"]) - 1:
            life.scribble()
        for k0, interp0, then, now in life.stale():
            session_fail(replay, mine, f"C08/monthly2daily/{interp0}/earlier-result-changed",
                         f"the daily series returned by call {k0 + 1} ({interp0}) started {then[:4]} and reads "
                         f"{now[:4]} after {where}")
            break


# ----------------------------------------------------------------------------

def calendar_cases(ctx, add, fail):
    """c_dateutils.c against the model (exhaustive over two 400-year cycles) and
    against python's calendar (oracle)."""
    import c_hydrodiy_data as chd
    import pandas as pd
    y0, y1 = ctx.scale((1590, 2410), (-2500, 4500))
    years = list(range(y0, y1)) + [-2000, -1900, -404, -400, -100, -4, -3, -1, 0, 1, 4, 100, 400,
                                   9999, 10000, 99999, 2 ** 31 - 1, -2 ** 31 + 1]
    for y in years:
        lp = int(chd.isleapyear(y))
        i = add(f"CLeap {cm.coq_z(y)} {cm.coq_z(lp)}", {"call": "isleapyear", "year": y, "impl": lp},
                ("leap", lp, y < 0))
        if 1 <= y <= 9999 and bool(lp) != calendar.isleap(y):
            fail(i, "C08/calendar/leap-year", f"isleapyear({y}) = {lp}")
        for m in range(0, 14):
            d = int(chd.daysinmonth(y, m))
            i = add(f"CDim {cm.coq_z(y)} {cm.coq_z(m)} {cm.coq_z(d)}",
                    {"call": "daysinmonth", "year": y, "month": m, "impl": d}, ("dim", m, d))
            if 1 <= y <= 9999:
                want = calendar.monthrange(y, m)[1] if 1 <= m <= 12 else -1
                if d != want:
                    fail(i, "C08/calendar/days-in-month", f"daysinmonth({y},{m}) = {d}, expected {want}")
    # pandas' days_in_month (what monthly2daily divides by) agrees with the calendar of the model
    idx = pd.date_range(f"{TS_YEAR_MIN}-01-01", f"{TS_YEAR_MAX}-12-01", freq="MS")
    for t, d in zip(idx, idx.days_in_month):
        add(f"CDim {cm.coq_z(t.year)} {cm.coq_z(t.month)} {cm.coq_z(int(d))}",
            {"call": "pandas.days_in_month", "year": int(t.year), "month": int(t.month), "impl": int(d)},
            ("pandas-dim", int(t.month), int(d)))
    rng = ctx.rng
    for _ in range(ctx.scale(600, 6000)):
        y = rng.choice([1900, 2000, 2023, 2024, rng.randint(-500, 3000)])
        m = rng.choice([rng.randint(1, 12)] * 8 + [0, 13, -1])
        nb = calendar.monthrange(y, m)[1] if (1 <= m <= 12 and 1 <= y <= 9999) else 30
        d = rng.choice([1, 28, 29, 30, 31, nb, nb, nb + 1, rng.randint(1, 31), 0, 32])
        for nm, fn, ctor in (("add1month", chd.add1month, "CAdd1m"), ("add1day", chd.add1day, "CAdd1d")):
            date = np.array([y, m, d], dtype=np.int32)
            ierr = int(fn(date))
            res = None if ierr != 0 else [int(v) for v in date]
            i = add(f"{ctor} {cm.coq_zlist([y, m, d])} {cm.coq_option(res, cm.coq_zlist)}",
                    {"call": nm, "date": [y, m, d], "impl": res},
                    (nm, res is None, m == 12, d >= 28))
            if nm == "add1day" and 1 <= y <= 9998 and 1 <= m <= 12 and 1 <= d <= nb:
                nxt = datetime.date(y, m, d) + datetime.timedelta(days=1)
                if res != [nxt.year, nxt.month, nxt.day]:
                    fail(i, "C08/calendar/add1day", f"add1day({[y, m, d]}) = {res}")


def fixed_replays():
    """replays of the repaired defects (known_findings.d/C08.json) - part of the corpus"""
    p = cm.VERIF / "known_findings.d" / "C08.json"
    out = []
    if p.exists():
        for f in json.loads(p.read_text())["findings"]:
            r = f.get("replay")
            if isinstance(r, dict) and "call" in r:
                out.append(clean_case(r))
    return out


def clean_case(r):
    """case dict of a replay / corpus file: input fields only; null stands for NaN"""
    case = {k: v for k, v in r.items() if k in
            ("call", "idx", "xs", "op", "maxnan", "interp", "year", "month", "vals", "steps")}
    for k in ("xs", "vals"):
        if k in case:
            case[k] = [NAN if v is None else float(v) for v in case[k]]
    if "steps" in case:
        case["steps"] = [dict(st) for st in case["steps"]]
        for st in case["steps"]:
            for k in ("xs", "vals"):
                if k in st:
                    st[k] = [NAN if v is None else float(v) for v in st[k]]
    return case


def run(ctx):
    ctx.rule = ("aggregate/flathomogen: lengths 1..60 (thorough 400) x index patterns (constant, strictly "
                "increasing, runs, month codes, negative, at both ends of the int32 range, 12% with a decrease) "
                "x values (integers with ties, all negative, positive, mixed, zeros, +-inf; NaN scattered / last of "
                "group / first of group / whole groups / all / leading+trailing) x operators 0..3 x maxnan "
                "0..beyond the group length; monthly2daily flat and cubic: 2..60 (thorough 400) months from any "
                "month of years 1678..2259 incl. 1700/1800/1900/2000/2100/2200, non-negative values; calendar: "
                "every (year, month 0..13) of 1590..2409 (thorough -2500..4499) + pandas days_in_month of every "
                "month 1678..2261; caller-side objects: 300 (thorough 3000) sequences of 2..5 calls of aggregate / "
                "flathomogen / goue with the index held as list / tuple / int64 / int32 / smallest integer ndarray "
                "(plain, strided, negative stride, read-only, byte-swapped, column) / pandas Series (text, shuffled, "
                "duplicated, date labels) / Index, the inputs as float64 ndarray (plain, strided, negative stride, "
                "read-only, byte-swapped, Fortran / C column, inner slice), operator and maxnan as int / numpy "
                "int32 / int64 / 0-d array, the objects passed again untouched / rewritten in place / rebuilt, "
                "earlier results held and re-read after every call and after the caller overwrites its arrays; "
                "60 (thorough 500) sequences of 2..4 calls of monthly2daily on Series with index unit s/ms/us/ns, "
                "with / without freq, naive / UTC / Australia/Sydney / Europe/Paris / Asia/Kolkata, float64 / int64 values, plain / "
                "DataFrame column / slice of a longer series / read-only / strided buffer, successive calls "
                "differing in interpolation, year (same month and length; leap, common, century), month or values, "
                "the Series passed again / rewritten in place / rebuilt; non-trivial = distinct case signature")
    ctx.trusted = cm.STD_TRUST + [
        "pandas resample/ffill/date arithmetic in monthly2daily is glue: the model takes the month list from "
        "its own calendar (c_dateutils.c table), pandas' days_in_month is compared with it month by month",
        "numpy.dot (BLAS) in the cubic coefficients: compared with tolerance 1e-9*max(1,max|y|)"]
    ctx.tested_not_proved = [
        "binary64 rounding of sums/means/totals (1e-9 of the sum of magnitudes) - tested against exact rationals",
        "monthly2daily output index (one stamp per calendar day) - tested against python's calendar",
        "goue = NSE against the group means - tested against exact rationals",
        "independence of the stored representation of index / inputs / monthly Series and of earlier calls on the "
        "same objects (results judged by the same oracle and model; earlier results re-read) - tested"]
    proved = cm.prove_with_kernels(ctx, ["c_aggregate", "c_flathomogen"],
                                    extractors=["c08", "minic", "minic_chk"])
    cm.use_impl()
    rng = ctx.rng
    terms, replays, results = [], [], []
    orc_fail = set()

    def add(t, replay, sig):
        terms.append(t)
        replays.append(replay)
        ctx.count(sig)
        if len(terms) % 2500 == 1:
            ctx.sample(replay)
        return len(terms) - 1

    def fail(idx, key, what):
        orc_fail.add(idx)
        ctx.failure(key, replays[idx], what)

    def do_case(case):
        c = case["call"]
        if c in ("aggregate", "flathomogen"):
            cm.mark(case)
            out = impl_aggregate(case)
            grp = groups_of(case["idx"]) if len(case["idx"]) == len(case["xs"]) else None
            xs = case["xs"]
            nanpat = (any(math.isnan(v) for v in xs), all(math.isnan(v) for v in xs),
                      bool(grp) and any(math.isnan(xs[p[-1]]) and not all(math.isnan(xs[i]) for i in p)
                                        for _, p in grp))
            sig = (c, case.get("op"), min(len(xs), 4), min(len(grp), 3) if grp else -1, nanpat,
                   min(case["maxnan"], 3), out is None, any(v < 0 for v in xs if not math.isnan(v)))
            i = add(term(case, out), dict(case, impl=out), sig)
            fs = oracle_aggregate(case, out) if c == "aggregate" else oracle_flathomogen(case, out)
            if c == "flathomogen" and not fs:
                fs = oracle_goue(case)
            for key, what in fs:
                fail(i, key, what)
        elif c == "monthly2daily":
            out, days = impl_m2d(case)
            sig = (c, case["interp"], min(len(case["vals"]), 5), case["month"],
                   calendar.isleap(case["year"]), out is None)
            i = add(term(case, out), dict(case, impl=None if out is None else out[:40]), sig)
            for key, what in oracle_m2d(case, out, days):
                fail(i, key, what)
        elif c == "arrays":
            do_arrays(case)
        elif c == "series":
            do_series(case)

    def session_fail(replay, mine, key, what):
        orc_fail.update(mine)
        ctx.failure(key + "/caller-objects", replay, what)

    def do_arrays(case):
        cm.mark(case)
        run_arrays(case, add, session_fail, ctx.count)

    def do_series(case):
        cm.mark(case)
        run_series(case, add, session_fail)

    # replay file given on the command line, then the corpus, then the recorded defects
    extra = []
    if getattr(ctx, "replay", None):
        r = ctx.replay.get("replay", ctx.replay)
        if isinstance(r, dict) and "call" in r:
            extra.append(clean_case(r))
    for case in extra + [clean_case(c) for c in cm.load_corpus(PID)] + fixed_replays() + pinned_sequences():
        if case.get("call") in ("aggregate", "flathomogen", "monthly2daily", "arrays", "series"):
            do_case(case)

    maxlen = ctx.scale(60, 400)
    for _ in range(ctx.scale(1100, 14000)):
        do_case(gen_agg_case(rng, maxlen, "aggregate"))
    for _ in range(ctx.scale(500, 6000)):
        do_case(gen_agg_case(rng, maxlen, "flathomogen"))
    # different lengths: rejected by the wrapper
    for call in ("aggregate", "flathomogen"):
        for _ in range(6):
            case = gen_agg_case(rng, 12, call)
            case["idx"] = case["idx"] + [case["idx"][-1]] if rng.random() < 0.5 else case["idx"][:-1]
            do_case(case)
    maxmonths = ctx.scale(60, 400)
    for interp in ("flat", "cubic"):
        for _ in range(ctx.scale(40, 400)):
            do_case(gen_m2d_case(rng, maxmonths, interp))
    case = gen_m2d_case(rng, 12, "flat")
    case["interp"] = "linear"
    do_case(case)
    # the caller's objects: stored representations and sequences of calls
    for _ in range(ctx.scale(300, 3000)):
        do_case(gen_arr_session(rng, ctx.scale(40, 200)))
    for _ in range(ctx.scale(60, 500)):
        do_case(gen_m2d_session(rng, maxmonths))
    calendar_cases(ctx, add, fail)

    bad, nshards, failed = cm.run_case_files(PID, HEADER, "dcase", "d_ok", terms, shard=6000,
                                             max_bytes=400000)
    ctx.notes["correspondence_cases"] = len(terms)
    ctx.notes["correspondence_mismatches"] = len(bad)
    for k in range(nshards):
        ctx.obligation(f"Cases_{PID}_{k}.agree (model = implementation on the shard)", True)
    cm.settle(ctx, proved, bad, failed, orc_fail, lambda i: replays[i],
              "Model/Dutils.v vs c_dutils.c + c_dateutils.c + dutils.py")
    return ctx.finish()
