"""C08 - temporal aggregation and disaggregation reduce by group and conserve totals.

dutils.aggregate / dutils.flathomogen (c_dutils.c), dutils.monthly2daily (flat,
cubic; calendar of c_dateutils.c), signatures.goue.

The property quantifies over index vectors, input series and monthly series - not
over how the caller stores them nor over what was done before with the objects that
carry them.  Besides the "build a fresh int64 / float64 array, call once" cases the
check therefore runs recorded sequences of calls on caller-side objects and judges
EVERY answer on the way with the same exact oracle and the same model:
  * ArrLife: 2..5 calls of aggregate / flathomogen / goue; the index is held as a
    list, tuple, int64 / int32 / smallest-fitting integer ndarray (plain, strided,
    negative stride, read-only, other byte order, column of a 2-D array), pandas
    Series (text / shuffled / duplicated / date labels) or pandas Index; the inputs
    as a float64 ndarray (plain, strided, negative stride, read-only, other byte
    order, column of a Fortran / C 2-D array, inner slice); operator and maxnan as
    Python int, numpy int32 / int64 or 0-d array.  Between calls the caller keeps
    its objects untouched (the same objects are passed again), rewrites them in
    place, or builds new ones; vectors returned by earlier calls are still held and
    must still be what they were (also after the caller overwrites its own arrays);
    an index that decreases is mixed in (the error must not outlive the call).
  * SeriesLife: 2..4 calls of monthly2daily; the monthly Series has a DatetimeIndex
    of unit s / ms / us / ns, with or without freq, naive / UTC / a zone with
    daylight saving, named or not, float64 or int64 values, held plainly, as a
    DataFrame column, as a slice of a longer series, on a read-only or a strided
    buffer.  Successive calls differ in one respect (other interpolation, other year
    with the same month and length - leap / common / century -, next month, other
    values) and use the same Series object again, rewritten in place or rebuilt.
Replays of these cases carry the whole sequence ("steps") and are re-executed by
--replay.  Their keys are the clause keys with "/caller-objects" appended."""
import calendar
import datetime
import itertools
import json
import math
from fractions import Fraction

import numpy as np

from harness import common as cm

PID = "C08"
HEADER = ("From Coq Require Import ZArith List PrimFloat.\n"
          "From Hy Require Import Base.Num Model.Dutils.")
NAN = float("nan")
INF = float("inf")
I32MIN, I32MAX = -2 ** 31, 2 ** 31 - 1
TS_YEAR_MIN, TS_YEAR_MAX = 1678, 2261      # pandas Timestamp (ns) range, whole years


# ----------------------------------------------------------------------------
# generators (all inside the property's quantifier)

def gen_runs(rng, n):
    """run lengths adding up to n"""
    mode = rng.random()
    if mode < 0.12:
        return [n]
    if mode < 0.24:
        return [1] * n
    out, left = [], n
    top = rng.choice([2, 3, 5, max(2, n)])
    while left > 0:
        k = min(left, rng.randint(1, top))
        out.append(k)
        left -= k
    return out


def gen_index(rng, runs, decreasing):
    """non-decreasing int32 index with the given runs; `decreasing`: break the order somewhere"""
    g = len(runs)
    mode = rng.random()
    if mode < 0.3:        # month codes
        y, m = rng.randint(1900, 2100), rng.randint(1, 12)
        keys = []
        for _ in range(g):
            keys.append(y * 100 + m)
            m += 1
            if m > 12:
                y, m = y + 1, 1
    else:
        if mode < 0.45:
            lo = I32MIN + rng.randint(0, 3)
        elif mode < 0.6:
            lo = None      # end at the top of the int32 range
        elif mode < 0.75:
            lo = -rng.randint(0, 2 * g + 3)
        else:
            lo = rng.randint(-10 ** 6, 10 ** 6)
        steps = [rng.choice([1, 1, 2, rng.randint(1, 1000)]) for _ in range(g - 1)]
        if lo is None:
            lo = I32MAX - rng.randint(0, 3) - sum(steps)
        keys = [lo]
        for s in steps:
            keys.append(keys[-1] + s)
    if g >= 2 and rng.random() < 0.12:
        # consecutive keys more than 2^31-1 apart (from the bottom to the top of the int32
        # range): a comparison made through the int32 difference of two keys wraps around
        cut = rng.randrange(1, g)
        lo_part = [I32MIN + rng.randint(0, 5) + j for j in range(cut)]
        hi_part = [I32MAX - rng.randint(0, 5) - (g - 1 - j) for j in range(cut, g)]
        keys = lo_part + hi_part
    idx = [k for k, r in zip(keys, runs) for _ in range(r)]
    if decreasing and len(idx) >= 2:
        how = rng.random()
        pos = rng.randrange(1, len(idx))
        if how < 0.4:          # one element drops below its predecessor
            idx[pos] = idx[pos - 1] - rng.choice([1, 1, 2, 1000])
        elif how < 0.7:        # swap two different neighbours
            cand = [i for i in range(1, len(idx)) if idx[i] != idx[i - 1]]
            if cand:
                i = rng.choice(cand)
                idx[i - 1], idx[i] = idx[i], idx[i - 1]
            else:
                idx[pos] = idx[pos - 1] - 1
        elif how < 0.8 and idx[0] < idx[-1]:   # a drop of (almost) the whole int32 range
            idx[pos:] = [min(I32MIN + 3, idx[0] - 1)] * (len(idx) - pos)
            idx[:pos] = [I32MAX - 2] * pos
        else:                  # the last element returns to the first group
            idx[-1] = idx[0] - (0 if idx[0] < idx[-1] else 1)
        idx = [min(max(v, I32MIN), I32MAX) for v in idx]
    return idx


def gen_values(rng, runs):
    n = sum(runs)
    scale = rng.choice([1.0, 1.0, 1e-3, 1e3, 1e8])
    kind = rng.random()
    if kind < 0.25:
        xs = [float(rng.randint(-9, 9)) for _ in range(n)]           # small integers, ties, zeros
    elif kind < 0.45:
        xs = [-abs(rng.gauss(0, 1)) * scale - 1e-3 for _ in range(n)]  # all negative
    elif kind < 0.6:
        xs = [abs(rng.gauss(0, 1)) * scale for _ in range(n)]
    else:
        xs = [rng.gauss(0, 1) * scale for _ in range(n)]
    if rng.random() < 0.15:
        for _ in range(max(1, n // 5)):
            xs[rng.randrange(n)] = rng.choice([0.0, -0.0])
    if rng.random() < 0.04:
        xs[rng.randrange(n)] = rng.choice([INF, -INF])
    nanmode = rng.random()
    starts = list(itertools.accumulate([0] + runs[:-1]))
    if nanmode < 0.25:
        pass
    elif nanmode < 0.45:       # scattered
        for _ in range(rng.randint(1, max(1, n // 3))):
            xs[rng.randrange(n)] = NAN
    elif nanmode < 0.6:        # last position of some groups
        for s, r in zip(starts, runs):
            if rng.random() < 0.6:
                xs[s + r - 1] = NAN
    elif nanmode < 0.72:       # first position of some groups
        for s, r in zip(starts, runs):
            if rng.random() < 0.6:
                xs[s] = NAN
    elif nanmode < 0.86:       # whole groups
        for s, r in zip(starts, runs):
            if rng.random() < 0.4:
                for j in range(s, s + r):
                    xs[j] = NAN
    elif nanmode < 0.93:       # everything
        xs = [NAN] * n
    else:                      # leading and trailing stretch
        k = rng.randint(1, max(1, n // 2))
        for j in range(k):
            xs[j] = NAN
            xs[n - 1 - j] = NAN
    return xs


def gen_maxnan(rng, runs):
    return rng.choice([0, 0, 1, 2, max(0, max(runs) - 1), max(runs), sum(runs) + 1, rng.randint(0, 6)])


def gen_agg_case(rng, maxlen, call):
    n = rng.choice([1, 1, 2, 2, 3, rng.randint(1, 12), rng.randint(1, maxlen)])
    runs = gen_runs(rng, n)
    decreasing = rng.random() < 0.12
    case = {"call": call, "idx": gen_index(rng, runs, decreasing), "xs": gen_values(rng, runs),
            "maxnan": gen_maxnan(rng, runs)}
    if call == "aggregate":
        case["op"] = rng.choice([0, 1, 2, 2, 3, 3])
    return case


def gen_m2d_case(rng, maxmonths, interp):
    n = rng.choice([2, 2, 3, rng.randint(2, 14), rng.randint(2, 40), rng.randint(2, maxmonths)])
    years = n // 12 + 2
    y = rng.choice([1999, 2000, 1900 - rng.randint(0, 1), 2100 - rng.randint(0, 1), 1800, 2200,
                    rng.randint(TS_YEAR_MIN, TS_YEAR_MAX - years),
                    rng.randint(TS_YEAR_MIN, TS_YEAR_MAX - years)])
    y = min(max(y, TS_YEAR_MIN), TS_YEAR_MAX - years)
    m = rng.randint(1, 12)
    kind = rng.random()
    scale = rng.choice([1.0, 1.0, 1e-4, 1e3, 1e7])
    if kind < 0.25:
        vals = [float(rng.randint(0, 400)) for _ in range(n)]
    elif kind < 0.4:
        vals = [math.exp(rng.gauss(0, 2)) * scale for _ in range(n)]
    elif kind < 0.5:
        vals = [0.0] * n
    else:
        vals = [rng.random() * scale if rng.random() < 0.8 else 0.0 for _ in range(n)]
    return {"call": "monthly2daily", "interp": interp, "year": y, "month": m, "vals": vals}


# ----------------------------------------------------------------------------
# implementation runs

def fl(a):
    return [float(v) for v in a]


def impl_aggregate(case):
    from hydrodiy.data import dutils
    idx = np.array(case["idx"], dtype=np.int64)
    xs = np.array(case["xs"], dtype=np.float64)
    try:
        with np.errstate(all="ignore"):
            if case["call"] == "aggregate":
                return fl(dutils.aggregate(idx, xs, case["op"], case["maxnan"]))
            return fl(dutils.flathomogen(idx, xs, case["maxnan"]))
    except ValueError:
        return None


INTERP = {"flat": 0, "cubic": 1}


def impl_m2d(case):
    """returns (values or None, index as list of (y,m,d) or None)"""
    import pandas as pd
    from hydrodiy.data import dutils
    idx = pd.date_range(f"{case['year']:04d}-{case['month']:02d}-01", periods=len(case["vals"]), freq="MS")
    se = pd.Series(np.array(case["vals"], dtype=np.float64), index=idx)
    try:
        with np.errstate(all="ignore"):
            sed = dutils.monthly2daily(se, interpolation=case["interp"])
    except ValueError:
        return None, None
    days = [(int(t.year), int(t.month), int(t.day)) for t in sed.index]
    return fl(sed.values), days


# ----------------------------------------------------------------------------
# Coq terms

def term(case, out):
    c = case["call"]
    if c == "aggregate":
        return (f"CAgg {cm.coq_z(case['op'])} {cm.coq_z(case['maxnan'])} {cm.coq_zlist(case['idx'])} "
                f"{cm.coq_flist(case['xs'])} {cm.coq_option(out, cm.coq_flist)}")
    if c == "flathomogen":
        return (f"CFlat {cm.coq_z(case['maxnan'])} {cm.coq_zlist(case['idx'])} "
                f"{cm.coq_flist(case['xs'])} {cm.coq_option(out, cm.coq_flist)}")
    if c == "monthly2daily":
        scale = max([1.0] + [abs(v) for v in case["vals"] if math.isfinite(v)])
        return (f"CM2D {cm.coq_z(INTERP.get(case['interp'], 2))} 0 {cm.coq_z(case['year'])} "
                f"{cm.coq_z(case['month'])} {cm.coq_flist(case['vals'])} {cm.coq_float(1e-9 * scale)} "
                f"{cm.coq_option(out, cm.coq_flist)}")
    raise ValueError(c)


# ----------------------------------------------------------------------------
# oracles (exact rationals; independent of the model)

def fr(x):
    return Fraction(x)


def groups_of(idx):
    """[(key, [positions])] for a non-decreasing index; None when it decreases somewhere"""
    if any(b < a for a, b in zip(idx, idx[1:])):
        return None
    out = []
    for i, k in enumerate(idx):
        if out and out[-1][0] == k:
            out[-1][1].append(i)
        else:
            out.append((k, [i]))
    return out


def near(got, want, scale, rel=1e-9):
    """float `got` equals the exact rational `want` up to rounding"""
    if math.isnan(got) or math.isinf(got):
        return False
    return abs(Fraction(got) - want) <= Fraction(rel) * max(Fraction(1, 10 ** 300), scale)


OPNAME = {0: "sum", 1: "mean", 2: "max", 3: "tail"}


def oracle_aggregate(case, out):
    fails = []
    idx, xs, op, maxnan = case["idx"], case["xs"], case["op"], case["maxnan"]
    if len(idx) != len(xs):
        if out is not None:
            fails.append(("C08/aggregate/length-mismatch-accepted", "different lengths accepted"))
        return fails
    grp = groups_of(idx)
    if grp is None:
        if out is not None:
            fails.append(("C08/aggregate/decreasing-index-accepted",
                          f"index {idx[:8]}... decreases but aggregate returned {out[:4]}"))
        return fails
    if out is None:
        fails.append(("C08/aggregate/valid-input-rejected", "non-decreasing index raised ValueError"))
        return fails
    if len(out) != len(grp):
        fails.append(("C08/aggregate/number-of-groups",
                      f"{len(out)} outputs for {len(grp)} distinct index values"))
        return fails
    total_ok = op == 0
    for (k, pos), got in zip(grp, out):
        vals = [xs[i] for i in pos]
        pres = [v for v in vals if not math.isnan(v)]
        nmiss = len(vals) - len(pres)
        if nmiss > maxnan:
            total_ok = False
            if not math.isnan(got):
                fails.append(("C08/aggregate/maxnan-exceeded-not-nan",
                              f"group {k}: {nmiss} missing > maxnan={maxnan} but output {got!r}"))
            continue
        if not pres:
            # only the sum operator is constrained on a group without any value
            if op == 0 and not (got == 0.0):
                fails.append(("C08/aggregate/sum/empty-group-not-zero", f"group {k}: sum of nothing = {got!r}"))
            continue
        hasinf = any(math.isinf(v) for v in pres)
        if op in (0, 1):
            if hasinf:
                total_ok = False
                continue
            s = sum(fr(v) for v in pres)
            scale = sum(abs(fr(v)) for v in pres)
            want = s if op == 0 else s / len(pres)
            if not near(got, want, scale if op == 0 else scale / len(pres)):
                fails.append((f"C08/aggregate/{OPNAME[op]}/wrong-value",
                              f"group {k} values {vals[:6]}: {OPNAME[op]} = {got!r}, exact {float(want)!r}"))
        elif op == 2:
            want = max(pres)
            if not (got == want):
                fails.append(("C08/aggregate/max/wrong-value",
                              f"group {k} values {vals[:6]} (maxnan={maxnan}): max = {got!r}, expected {want!r}"))
        elif op == 3:
            want = pres[-1]
            if not (got == want):
                fails.append(("C08/aggregate/tail/wrong-value",
                              f"group {k} values {vals[:6]} (maxnan={maxnan}): last = {got!r}, expected {want!r}"))
    if total_ok and not any(math.isnan(v) or math.isinf(v) for v in out):
        pres = [fr(v) for v in xs if not math.isnan(v)]
        if not near(math.fsum(out), sum(pres), sum(abs(v) for v in pres)):
            fails.append(("C08/aggregate/sum/total-not-conserved",
                          f"sum of outputs {math.fsum(out)!r} != sum of inputs {float(sum(pres))!r}"))
    return fails


def oracle_flathomogen(case, out):
    fails = []
    idx, xs, maxnan = case["idx"], case["xs"], case["maxnan"]
    if len(idx) != len(xs):
        if out is not None:
            fails.append(("C08/flathomogen/length-mismatch-accepted", "different lengths accepted"))
        return fails
    grp = groups_of(idx)
    if grp is None:
        if out is not None:
            fails.append(("C08/flathomogen/decreasing-index-accepted",
                          f"index {idx[:8]}... decreases but flathomogen returned a result"))
        return fails
    if out is None:
        fails.append(("C08/flathomogen/valid-input-rejected", "non-decreasing index raised ValueError"))
        return fails
    if len(out) != len(xs):
        fails.append(("C08/flathomogen/length", f"{len(out)} outputs for {len(xs)} inputs"))
        return fails
    for k, pos in grp:
        vals = [xs[i] for i in pos]
        pres = [v for v in vals if not math.isnan(v)]
        nmiss = len(vals) - len(pres)
        for i in pos:
            if math.isnan(xs[i]) and not math.isnan(out[i]):
                fails.append(("C08/flathomogen/missing-not-kept",
                              f"position {i} is missing in the input but {out[i]!r} in the output"))
                return fails
        if nmiss > maxnan or not pres or any(math.isinf(v) for v in pres):
            continue   # the statement says nothing about groups beyond maxnan
        s = sum(fr(v) for v in pres)
        scale = sum(abs(fr(v)) for v in pres)
        mean = s / len(pres)
        for i in pos:
            if not math.isnan(xs[i]) and not near(out[i], mean, scale / len(pres)):
                fails.append(("C08/flathomogen/not-group-mean",
                              f"group {k} values {vals[:6]}: output[{i}] = {out[i]!r}, mean {float(mean)!r}"))
                return fails
        tot = [out[i] for i in pos if not math.isnan(xs[i])]
        if not near(math.fsum(tot), s, scale):
            fails.append(("C08/flathomogen/group-total-not-preserved",
                          f"group {k}: total {math.fsum(tot)!r}, input total {float(s)!r}"))
            return fails
    return fails


def oracle_m2d(case, out, days):
    fails = []
    interp = case["interp"]
    if interp not in INTERP:
        if out is not None:
            fails.append(("C08/monthly2daily/unknown-interpolation-accepted", f"interpolation={interp!r} accepted"))
        return fails
    tag = f"C08/monthly2daily/{interp}"
    if out is None:
        fails.append((tag + "/valid-input-rejected", "raised ValueError"))
        return fails
    # one value per calendar day (python's calendar, independent of pandas and of c_dateutils)
    want_days = []
    y, m = case["year"], case["month"]
    months = []
    for _ in case["vals"]:
        nd = calendar.monthrange(y, m)[1]
        months.append((y, m, nd))
        want_days += [(y, m, d) for d in range(1, nd + 1)]
        y, m = (y, m + 1) if m < 12 else (y + 1, 1)
    if days != want_days:
        j = next((i for i, (a, b) in enumerate(zip(days, want_days)) if a != b), min(len(days), len(want_days)))
        fails.append((tag + "/not-one-value-per-day",
                      f"{len(days)} values for {len(want_days)} calendar days; first difference at position {j}"))
        return fails
    scale = max([abs(fr(v)) for v in case["vals"]] + [Fraction(1, 10 ** 300)])
    p = 0
    for (yy, mm, nd), v in zip(months, case["vals"]):
        block = out[p:p + nd]
        p += nd
        if any(math.isnan(b) or math.isinf(b) for b in block):
            fails.append((tag + "/nan-in-output", f"{yy}-{mm:02d}: non-finite daily value for monthly value {v!r}"))
            return fails
        if not near(math.fsum(block), fr(v), scale):
            fails.append((tag + "/month-total-not-conserved",
                          f"{yy}-{mm:02d} ({nd} days): daily values add up to {math.fsum(block)!r}, monthly input {v!r}"))
            return fails
        if interp == "flat":
            for b in block:
                if not near(b, fr(v) / nd, abs(fr(v)) / nd, rel=1e-12):
                    fails.append((tag + "/not-value-over-days",
                                  f"{yy}-{mm:02d}: daily value {b!r}, expected {v!r}/{nd}"))
                    return fails
    return fails


def oracle_goue(case):
    """goue = NSE of the flat-homogenised series against the series (NaN-free inputs)"""
    from hydrodiy.data import signatures
    idx, xs = case["idx"], case["xs"]
    grp = groups_of(idx)
    if len(idx) != len(xs) or grp is None or len(xs) < 2 \
            or any(math.isnan(v) or math.isinf(v) for v in xs):
        return []
    x = [fr(v) for v in xs]
    mean = sum(x) / len(x)
    den = sum((v - mean) ** 2 for v in x)
    scale = sum(v * v for v in x)
    if den <= Fraction(1, 10 ** 6) * scale or den == 0:
        return []      # ill-conditioned: a nearly constant series
    flat = [None] * len(x)
    for _, pos in grp:
        gm = sum(x[i] for i in pos) / len(pos)
        for i in pos:
            flat[i] = gm
    want = 1 - sum((a - b) ** 2 for a, b in zip(x, flat)) / den
    with np.errstate(all="ignore"):
        got = float(signatures.goue(np.array(idx, dtype=np.int64), np.array(xs, dtype=np.float64)))
    if not near(got, want, 1 + abs(want), rel=1e-7):
        return [("C08/goue/not-nse-of-group-means", f"goue = {got!r}, exact {float(want)!r}")]
    return []


# ----------------------------------------------------------------------------

def calendar_cases(ctx, add, fail):
    """c_dateutils.c against the model (exhaustive over two 400-year cycles) and
    against python's calendar (oracle)."""
    import c_hydrodiy_data as chd
    import pandas as pd
    y0, y1 = ctx.scale((1590, 2410), (-2500, 4500))
    years = list(range(y0, y1)) + [-2000, -1900, -404, -400, -100, -4, -3, -1, 0, 1, 4, 100, 400,
                                   9999, 10000, 99999, 2 ** 31 - 1, -2 ** 31 + 1]
    for y in years:
        lp = int(chd.isleapyear(y))
        i = add(f"CLeap {cm.coq_z(y)} {cm.coq_z(lp)}", {"call": "isleapyear", "year": y, "impl": lp},
                ("leap", lp, y < 0))
        if 1 <= y <= 9999 and bool(lp) != calendar.isleap(y):
            fail(i, "C08/calendar/leap-year", f"isleapyear({y}) = {lp}")
        for m in range(0, 14):
            d = int(chd.daysinmonth(y, m))
            i = add(f"CDim {cm.coq_z(y)} {cm.coq_z(m)} {cm.coq_z(d)}",
                    {"call": "daysinmonth", "year": y, "month": m, "impl": d}, ("dim", m, d))
            if 1 <= y <= 9999:
                want = calendar.monthrange(y, m)[1] if 1 <= m <= 12 else -1
                if d != want:
                    fail(i, "C08/calendar/days-in-month", f"daysinmonth({y},{m}) = {d}, expected {want}")
    # pandas' days_in_month (what monthly2daily divides by) agrees with the calendar of the model
    idx = pd.date_range(f"{TS_YEAR_MIN}-01-01", f"{TS_YEAR_MAX}-12-01", freq="MS")
    for t, d in zip(idx, idx.days_in_month):
        add(f"CDim {cm.coq_z(t.year)} {cm.coq_z(t.month)} {cm.coq_z(int(d))}",
            {"call": "pandas.days_in_month", "year": int(t.year), "month": int(t.month), "impl": int(d)},
            ("pandas-dim", int(t.month), int(d)))
    rng = ctx.rng
    for _ in range(ctx.scale(600, 6000)):
        y = rng.choice([1900, 2000, 2023, 2024, rng.randint(-500, 3000)])
        m = rng.choice([rng.randint(1, 12)] * 8 + [0, 13, -1])
        nb = calendar.monthrange(y, m)[1] if (1 <= m <= 12 and 1 <= y <= 9999) else 30
        d = rng.choice([1, 28, 29, 30, 31, nb, nb, nb + 1, rng.randint(1, 31), 0, 32])
        for nm, fn, ctor in (("add1month", chd.add1month, "CAdd1m"), ("add1day", chd.add1day, "CAdd1d")):
            date = np.array([y, m, d], dtype=np.int32)
            ierr = int(fn(date))
            res = None if ierr != 0 else [int(v) for v in date]
            i = add(f"{ctor} {cm.coq_zlist([y, m, d])} {cm.coq_option(res, cm.coq_zlist)}",
                    {"call": nm, "date": [y, m, d], "impl": res},
                    (nm, res is None, m == 12, d >= 28))
            if nm == "add1day" and 1 <= y <= 9998 and 1 <= m <= 12 and 1 <= d <= nb:
                nxt = datetime.date(y, m, d) + datetime.timedelta(days=1)
                if res != [nxt.year, nxt.month, nxt.day]:
                    fail(i, "C08/calendar/add1day", f"add1day({[y, m, d]}) = {res}")


def fixed_replays():
    """replays of the repaired defects (known_findings.d/C08.json) - part of the corpus"""
    p = cm.VERIF / "known_findings.d" / "C08.json"
    out = []
    if p.exists():
        for f in json.loads(p.read_text())["findings"]:
            r = f.get("replay")
            if isinstance(r, dict) and "call" in r:
                out.append(clean_case(r))
    return out


def clean_case(r):
    """case dict of a replay / corpus file: input fields only; null stands for NaN"""
    case = {k: v for k, v in r.items() if k in
            ("call", "idx", "xs", "op", "maxnan", "interp", "year", "month", "vals")}
    for k in ("xs", "vals"):
        if k in case:
            case[k] = [NAN if v is None else float(v) for v in case[k]]
    return case


def run(ctx):
    ctx.rule = ("aggregate/flathomogen: lengths 1..60 (thorough 400) x index patterns (constant, strictly "
                "increasing, runs, month codes, negative, at both ends of the int32 range, 12% with a decrease) "
                "x values (integers with ties, all negative, positive, mixed, zeros, +-inf; NaN scattered / last of "
                "group / first of group / whole groups / all / leading+trailing) x operators 0..3 x maxnan "
                "0..beyond the group length; monthly2daily flat and cubic: 2..60 (thorough 400) months from any "
                "month of years 1678..2259 incl. 1700/1800/1900/2000/2100/2200, non-negative values; calendar: "
                "every (year, month 0..13) of 1590..2409 (thorough -2500..4499) + pandas days_in_month of every "
                "month 1678..2261; non-trivial = distinct case signature")
    ctx.trusted = cm.STD_TRUST + [
        "pandas resample/ffill/date arithmetic in monthly2daily is glue: the model takes the month list from "
        "its own calendar (c_dateutils.c table), pandas' days_in_month is compared with it month by month",
        "numpy.dot (BLAS) in the cubic coefficients: compared with tolerance 1e-9*max(1,max|y|)"]
    ctx.tested_not_proved = [
        "binary64 rounding of sums/means/totals (1e-9 of the sum of magnitudes) - tested against exact rationals",
        "monthly2daily output index (one stamp per calendar day) - tested against python's calendar",
        "goue = NSE against the group means - tested against exact rationals"]
    proved = cm.prove_with_kernels(ctx, ["c_aggregate", "c_flathomogen"])
    cm.use_impl()
    rng = ctx.rng
    terms, replays, results = [], [], []
    orc_fail = set()

    def add(t, replay, sig):
        terms.append(t)
        replays.append(replay)
        ctx.count(sig)
        if len(terms) % 2500 == 1:
            ctx.sample(replay)
        return len(terms) - 1

    def fail(idx, key, what):
        orc_fail.add(idx)
        ctx.failure(key, replays[idx], what)

    def do_case(case):
        c = case["call"]
        if c in ("aggregate", "flathomogen"):
            cm.mark(case)
            out = impl_aggregate(case)
            grp = groups_of(case["idx"]) if len(case["idx"]) == len(case["xs"]) else None
            xs = case["xs"]
            nanpat = (any(math.isnan(v) for v in xs), all(math.isnan(v) for v in xs),
                      bool(grp) and any(math.isnan(xs[p[-1]]) and not all(math.isnan(xs[i]) for i in p)
                                        for _, p in grp))
            sig = (c, case.get("op"), min(len(xs), 4), min(len(grp), 3) if grp else -1, nanpat,
                   min(case["maxnan"], 3), out is None, any(v < 0 for v in xs if not math.isnan(v)))
            i = add(term(case, out), dict(case, impl=out), sig)
            fs = oracle_aggregate(case, out) if c == "aggregate" else oracle_flathomogen(case, out)
            if c == "flathomogen" and not fs:
                fs = oracle_goue(case)
            for key, what in fs:
                fail(i, key, what)
        elif c == "monthly2daily":
            out, days = impl_m2d(case)
            sig = (c, case["interp"], min(len(case["vals"]), 5), case["month"],
                   calendar.isleap(case["year"]), out is None)
            i = add(term(case, out), dict(case, impl=None if out is None else out[:40]), sig)
            for key, what in oracle_m2d(case, out, days):
                fail(i, key, what)

    # replay file given on the command line, then the corpus, then the recorded defects
    extra = []
    if getattr(ctx, "replay", None):
        r = ctx.replay.get("replay", ctx.replay)
        if isinstance(r, dict) and "call" in r:
            extra.append(clean_case(r))
    for case in extra + [clean_case(c) for c in cm.load_corpus(PID)] + fixed_replays():
        if case.get("call") in ("aggregate", "flathomogen", "monthly2daily"):
            do_case(case)

    maxlen = ctx.scale(60, 400)
    for _ in range(ctx.scale(1100, 14000)):
        do_case(gen_agg_case(rng, maxlen, "aggregate"))
    for _ in range(ctx.scale(500, 6000)):
        do_case(gen_agg_case(rng, maxlen, "flathomogen"))
    # different lengths: rejected by the wrapper
    for call in ("aggregate", "flathomogen"):
        for _ in range(6):
            case = gen_agg_case(rng, 12, call)
            case["idx"] = case["idx"] + [case["idx"][-1]] if rng.random() < 0.5 else case["idx"][:-1]
            do_case(case)
    maxmonths = ctx.scale(60, 400)
    for interp in ("flat", "cubic"):
        for _ in range(ctx.scale(40, 400)):
            do_case(gen_m2d_case(rng, maxmonths, interp))
    case = gen_m2d_case(rng, 12, "flat")
    case["interp"] = "linear"
    do_case(case)
    calendar_cases(ctx, add, fail)

    bad, nshards, failed = cm.run_case_files(PID, HEADER, "dcase", "d_ok", terms, shard=6000,
                                             max_bytes=400000)
    ctx.notes["correspondence_cases"] = len(terms)
    ctx.notes["correspondence_mismatches"] = len(bad)
    for k in range(nshards):
        ctx.obligation(f"Cases_{PID}_{k}.agree (model = implementation on the shard)", True)
    cm.settle(ctx, proved, bad, failed, orc_fail, lambda i: replays[i],
              "Model/Dutils.v vs c_dutils.c + c_dateutils.c + dutils.py")
    return ctx.finish()
