"""C05 API-level driver (child process, runs under the ASan runtime with the
sanitizer-built extension modules first on PYTHONPATH).

usage: python c05_aworker.py <cases.json> <start> <results.jsonl>

Each case is {"code": <python statements>}; the statements are executed in a
namespace holding numpy, pandas and the hydrodiy modules.  The observable is
"returned" / "raised <exception type>"; a sanitizer report or a signal ends the
process and is attributed by the parent to the case that was running.  Before
anything else the `hyexact` allocator is installed, so that every numpy buffer is an
exact-size malloc block surrounded by ASan red zones."""
import json
import os
import sys
import warnings


def main():
    cases = json.load(open(sys.argv[1]))
    start = int(sys.argv[2])
    resf = open(sys.argv[3], "a")
    curf = sys.argv[3] + ".cur"
    with open(curf, "w") as f:
        f.write("-1")
    exact = False
    if os.environ.get("HY_EXACT", "1") == "1":
        import hyexact
        hyexact.install()
        exact = True
    warnings.filterwarnings("ignore")
    import numpy as np
    import pandas as pd
    np.seterr(all="ignore")
    from hydrodiy.data import dutils, qualitycontrol, signatures
    from hydrodiy.stat import metrics, armodels, sutils
    from hydrodiy.gis import grid as hygrid, gutils
    from hydrodiy.gis.grid import Grid, Catchment
    import c_hydrodiy_data
    import c_hydrodiy_stat
    import c_hydrodiy_gis
    for m in (c_hydrodiy_data, c_hydrodiy_stat, c_hydrodiy_gis):
        if "/.cache/c05/" not in m.__file__:
            raise RuntimeError(f"not the sanitizer build: {m.__file__}")

    def mkgrid(nrows, ncols, data=None, dtype=np.float64, csz=1., xll=0., yll=0., nodata=0):
        g = Grid("g", ncols, nrows, cellsize=csz, xllcorner=xll, yllcorner=yll, dtype=dtype,
                 nodata=nodata)
        if data is not None:
            g.data = np.array(data, dtype=dtype).reshape(nrows, ncols)
        return g

    def mkcat(nrows, ncols, fd, csz=1., xll=0., yll=0.):
        return Catchment("c", mkgrid(nrows, ncols, fd, np.int64, csz, xll, yll))

    def series(values, stamps):
        return pd.Series(np.array(values, dtype=float), index=pd.DatetimeIndex(stamps))

    def attempt(f, *args, **kwargs):
        """call f; a Python exception is an allowed answer and the sequence goes on"""
        try:
            return f(*args, **kwargs)
        except Exception:                  # noqa
            return None

    ns0 = dict(np=np, attempt=attempt, pd=pd, nan=float("nan"), inf=float("inf"), dutils=dutils,
               qualitycontrol=qualitycontrol, signatures=signatures, metrics=metrics,
               armodels=armodels, sutils=sutils, hygrid=hygrid, gutils=gutils, Grid=Grid,
               Catchment=Catchment, c_hydrodiy_data=c_hydrodiy_data,
               c_hydrodiy_stat=c_hydrodiy_stat, c_hydrodiy_gis=c_hydrodiy_gis,
               mkgrid=mkgrid, mkcat=mkcat, series=series, FLOWDIRCODE=hygrid.FLOWDIRCODE)
    devnull = os.open(os.devnull, os.O_WRONLY)
    os.dup2(devnull, 1)          # the kernels print progress lines on fd 1
    for idx in range(start, len(cases)):
        with open(curf, "w") as f:
            f.write(str(idx))
        ns = dict(ns0)
        try:
            exec(cases[idx]["code"], ns)
            r = "returned"
        except BaseException as e:      # noqa: any Python exception is an allowed answer
            r = "raised " + type(e).__name__
        resf.write(json.dumps({"i": idx, "r": {"outcome": r, "exact": exact}}) + "\n")
        resf.flush()
    with open(curf, "w") as f:
        f.write(str(len(cases)))
    resf.close()
    os._exit(0)                  # skip interpreter teardown under the sanitizer


if __name__ == "__main__":
    main()
